#!/usr/bin/env python3
"""C09 -- the circuit graph stays well formed (and memory safe) under every mutation.

clause (vii): a clock and its logic driver nodes name each other (Clock::m_clockDriver / m_resetDriver vs. the clock port
         of the Node_Signal2Clk / Node_Signal2Rst): model, theorem (replacement of a driver included), checker, harness
         dump (protected members read through a derived class), op sequences and designs that override clock / reset
         0..3 times in all interleavings.
proof:   coq/Gatery/Properties_C09.v -- every operation of NodeIO.cpp / Node.cpp (connectInput = rewireInput,
         disconnectInput with its swap-with-back erase, resizeInputs/Outputs, bypassOutputToInput, moveToGroup,
         attach/detachClock, setOutputConnectionType with its guard, Node_Signal::connectInput, destruction)
         preserves the invariant Inv (both directions of every relation agree, type requirements, one group,
         clock registration, unique ids, nothing dangling); arbitrary sequences by induction; the boolean
         checker wf_check decides Inv (wf_check_reflect).
tie T1:  harness/C09_wf.cpp `nodeio`: seeded random operation sequences on REAL nodes through the hlim
         interface; after every call both edge directions (consumer lists in storage order), group member
         lists, clock registrations are dumped; ocaml/C09_driver.ml replays the same calls on the extracted
         model; the two files must be identical line by line.
         Circuit::createUnconnectedClone is replayed with proven operations; Circuit::copySubnet (both copyClocks values, random
         output / input sets over registers, clocked nodes, signals) renumbers its clones: the REAL state after the call must
         satisfy the extracted checker and the replay continues from it (later calls delete originals and copies).
tie T2:  harness/C09_wf.cpp `design`: generated designs through the real frontend; the extracted wf_check runs
         on the graph after every construction statement, at every pass boundary of the real Default/Minimal
         post processors (hook), after repeated optimizeSubnet and after shuffleNodes.
poison:  the harness replaces operator new/delete: freed blocks are filled with 0xDD and quarantined, so a stale read
         faults deterministically and a stale write is detected -- use-after-free is observable in the QUICK tier.
         Every (design, post processor, slack) case runs in a forked child; slack j = before every pass the node
         vector gets capacity == size + j (public Circuit::getNodes()), so the (j+1)-th createNode of EVERY pass
         reallocates Circuit::m_nodes.  Extra shapes make passes create nodes (literal-vs-literal comparisons, bool
         comparisons with constants, three-entity wiring, path attributes, unclosed loop variables).
lint:    (labelled as such) static audit: a range-for / iterator loop over the circuit's node vector (or over a
         group's node list) whose body creates nodes (or moves nodes between groups).
search:  an independent python re-implementation of the invariant (no Coq; type agreement only for the kinds that
         copy the driver's type to their output) on the real dumps.
partial: use-after-free / out-of-bounds are not expressible in Gallina.  Thorough tier: the same corpora run
         through an ASan+UBSan build of gatery and of the harness -- supporting evidence only.
"""
import sys, os
sys.path.insert(0, os.path.join(os.path.dirname(os.path.abspath(__file__)), "..", "lib"))
import vcommon as V, designgen as G
import json, glob, hashlib, re, shutil, subprocess, time, concurrent.futures
from pathlib import Path

CID = "C09"
WORK = V.BUILD / "work" / CID


# --------------------------------------------------------------------------------------------------
# independent oracle (python, structural clauses only): used in search mode
# --------------------------------------------------------------------------------------------------
def parse_block(lines):
    """lines of one dump (n/G/K lines) -> dict"""
    nodes, groups, clocks = {}, {}, {}
    drvs = {}
    dup = []
    for l in lines:
        t = l.split()
        if not t:
            continue
        f = {}
        for x in t[2:]:
            k, _, v = x.partition("=")
            f[k] = v
        if t[0] == "n":
            nid = int(t[1])
            if nid in nodes:
                dup.append(f"node id {nid} twice")
            outs = []
            for o in (f.get("o", "").split(";") if f.get("o", "") else []):
                ty, _, cs = o.partition(":")
                outs.append((ty, cs.split(",") if cs else []))
            nodes[nid] = dict(g=f.get("g", "-"), ins=f["i"].split(",") if f.get("i") else [], outs=outs,
                              clks=f["c"].split(",") if f.get("c") else [], kind=f.get("k"), role=int(f.get("t", "0")))
        elif t[0] == "G":
            groups[int(t[1])] = dict(p=f.get("p", "-"), m=f["m"].split(",") if f.get("m") else [])
        elif t[0] == "K":
            clocks[int(t[1])] = f["m"].split(",") if f.get("m") else []
            drvs[int(t[1])] = (f.get("d") or "-,-").split(",")
    parse_block.drvs = drvs
    return nodes, groups, clocks, dup


def py_wf(lines, need_group):
    nodes, groups, clocks, bad = parse_block(lines)
    bad = list(bad)
    for nid, n in nodes.items():
        for i, d in enumerate(n["ins"]):
            if d == "-":
                continue
            if d == "X":
                bad.append(f"input {nid}.{i} driven by a destroyed node"); continue
            m, p = map(int, d.split("."))
            if m not in nodes or p >= len(nodes[m]["outs"]):
                bad.append(f"input {nid}.{i}: driver {d} does not exist"); continue
            c = nodes[m]["outs"][p][1].count(f"{nid}.{i}")
            if c != 1:
                bad.append(f"input {nid}.{i} occurs {c} times among the consumers of its driver {d}")
        for p, (_, cs) in enumerate(n["outs"]):
            for a in cs:
                if a == "X":
                    bad.append(f"output {nid}.{p} lists a destroyed consumer"); continue
                m, i = map(int, a.split("."))
                if m not in nodes or i >= len(nodes[m]["ins"]) or nodes[m]["ins"][i] != f"{nid}.{p}":
                    bad.append(f"output {nid}.{p} lists consumer {a} whose driver is not {nid}.{p}")
        g = n["g"]
        if g == "X":
            bad.append(f"node {nid}: group is not a group of this circuit")
        elif g == "-":
            if need_group:
                bad.append(f"node {nid} is in no group")
        else:
            if int(g) not in groups:
                bad.append(f"node {nid}: group {g} missing")
            elif groups[int(g)]["m"].count(str(nid)) != 1:
                bad.append(f"node {nid} occurs {groups[int(g)]['m'].count(str(nid))} times in its group {g}")
        for cp, c in enumerate(n["clks"]):
            if c == "-":
                continue
            if c == "X" or int(c) not in clocks:
                bad.append(f"node {nid} clock port {cp}: clock not of this circuit"); continue
            k = clocks[int(c)].count(f"{nid}.{cp}")
            if k != 1:
                bad.append(f"node {nid} clock port {cp} registered {k} times with clock {c}")
    # a clock and its logic driver nodes name each other
    drvs = parse_block.drvs
    for cid, d in drvs.items():
        for which, role in ((0, 1), (1, 2)):
            x = d[which] if which < len(d) else "-"
            if x == "-":
                continue
            what = "clock" if which == 0 else "reset"
            if x == "X" or int(x) not in nodes:
                bad.append(f"clock {cid}: its logic {what} driver is a destroyed node"); continue
            n = nodes[int(x)]
            if n["role"] != role or not n["clks"] or n["clks"][0] != str(cid):
                bad.append(f"clock {cid} names node {x} as its logic {what} driver, but that node is bound to clock {n['clks'][0] if n['clks'] else '-'}")
    for nid, n in nodes.items():
        if n["role"] in (1, 2) and n["clks"] and n["clks"][0] not in ("-", "X"):
            c = int(n["clks"][0])
            d = drvs.get(c, ["-", "-"])
            if d[n["role"] - 1] != str(nid):
                bad.append(f"node {nid} ({'Signal2Clk' if n['role'] == 1 else 'Signal2Rst'}) is bound to clock {c} whose current driver is {d[n['role'] - 1]}: stale second driver")
    # type agreement, restated independently for the kinds whose connectInput copies the driver's type to the output
    def otype(d):
        if d in ("-", "X"):
            return None
        m, p = map(int, d.split("."))
        if m not in nodes or p >= len(nodes[m]["outs"]):
            return None
        return nodes[m]["outs"][p][0]
    for nid, n in nodes.items():
        k = n.get("kind") or ""
        same_as_out = {"fwd": [0], "logic1": [0], "logic2": [0, 1], "reg": [0, 1], "shift": [0]}.get(k.split(":")[0])
        if k.startswith("mux:"):
            same_as_out = list(range(1, len(n["ins"])))
        if same_as_out and n["outs"]:
            for i in same_as_out:
                if i < len(n["ins"]):
                    t = otype(n["ins"][i])
                    if t is not None and t != n["outs"][0][0]:
                        bad.append(f"node {nid} ({k}): input {i} has type {t} but the node requires its output type {n['outs'][0][0]}")
    def owidth(d):
        t = otype(d)
        return None if t is None else int(t.split(".")[1])
    for nid, n in nodes.items():
        k = n.get("kind") or ""
        if k.startswith("memport:"):
            ab, db = map(int, k[8:].split("."))
            for i, w, what in ((0, 1, "enable"), (1, 1, "write enable"), (2, ab, "address"), (3, db, "write data")):
                if i < len(n["ins"]):
                    x = owidth(n["ins"][i])
                    if x is not None and x != w:
                        bad.append(f"node {nid} (memory port): {what} input is driven with {x} bits, the port requires {w}")
        if k == "cmp" and len(n["ins"]) >= 2:
            a, b = owidth(n["ins"][0]), owidth(n["ins"][1])
            if a is not None and b is not None and a != b:
                bad.append(f"node {nid} (compare): operands of {a} and {b} bits")
    for gid, g in groups.items():
        if g["p"] == "X" or (g["p"] != "-" and int(g["p"]) not in groups):
            bad.append(f"group {gid}: parent missing")
        for m in g["m"]:
            if m == "X" or int(m) not in nodes or nodes[int(m)]["g"] != str(gid):
                bad.append(f"group {gid} lists {m} which is not (any more) a node of this group")
    for cid, l in clocks.items():
        for a in l:
            if a == "X":
                bad.append(f"clock {cid} lists a destroyed node"); continue
            m, cp = map(int, a.split("."))
            if m not in nodes or cp >= len(nodes[m]["clks"]) or nodes[m]["clks"][cp] != str(cid):
                bad.append(f"clock {cid} lists {a} which is not clocked by it")
    return bad


def blocks_t1(path):
    """yields (seq, ops_so_far(list), op_line, [dump lines]) for every op block of a nodeio file"""
    seq, ops, cur, op = None, [], None, None
    with open(path) as f:
        for line in f:
            line = line.rstrip("\n")
            if line.startswith("seq "):
                seq, ops = line.split()[1], []
            elif line.startswith("op "):
                op, cur = line, []
                ops.append(line)
            elif line == "end":
                if cur is not None:
                    yield seq, ops, op, cur
                cur = None
            elif cur is not None:
                cur.append(line)


def blocks_t2(path):
    """yields (tag, [dump lines])"""
    tag, cur = None, None
    with open(path) as f:
        for line in f:
            line = line.rstrip("\n")
            if line.startswith("dump "):
                tag, cur = line[5:], []
            elif line == "end":
                if cur is not None:
                    yield tag, cur
                cur = None
            elif cur is not None:
                cur.append(line)


# --------------------------------------------------------------------------------------------------
# lint (static audit, heuristic): loops over a node vector that must index because their body grows the vector
# --------------------------------------------------------------------------------------------------
_L_RANGE = re.compile(r"for\s*\(\s*(?:const\s+)?(?:auto|[\w:<>\*]+)\s*(?:const\s*)?&{0,2}\s*\w+\s*:\s*([^;{}]*?(?:m_nodes|getNodes\s*\(\s*\)))\s*\)")
_L_ITER = re.compile(r"for\s*\(\s*[^;{}]*=\s*([^;{}]*?(?:m_nodes|getNodes\s*\(\s*\)))\s*\.\s*c?begin\s*\(\s*\)\s*;[^;{}]*;[^;{}]*\)")
_L_CREATE = re.compile(r"createNode\s*<|createUnconnectedClone\s*\(|copySubnet\s*\(|ConstructionHelper\s*\(|getCreate\w*\s*\(|"
                       r"getNodes\s*\(\s*\)\s*\.\s*(?:push_back|emplace_back|pop_back|erase|insert|resize|clear)\s*\(")
_L_OWN = re.compile(r"m_nodes\s*\.\s*(?:push_back|emplace_back|pop_back|erase|insert|resize|clear)\s*\(")
_L_MOVE = re.compile(r"moveToGroup\s*\(")
_L_FUNC = re.compile(r"^[ \t]*(?:[\w:<>,\*&~]+[ \t]+)*([\w:~]+::[\w~]+)\s*\([^;{}]*\)\s*(?:const\s*)?(?:override\s*)?\{", re.M)


def _lint_strip(src):
    src = re.sub(r"//[^\n]*", lambda m: " " * len(m.group(0)), src)
    src = re.sub(r"/\*.*?\*/", lambda m: re.sub(r"[^\n]", " ", m.group(0)), src, flags=re.S)
    return re.sub(r'"(?:\\.|[^"\\\n])*"', lambda m: '"' + " " * (len(m.group(0)) - 2) + '"', src)


def _lint_body(src, i):
    while i < len(src) and src[i].isspace():
        i += 1
    if i < len(src) and src[i] == "{":
        d, j = 0, i
        while j < len(src):
            if src[j] == "{":
                d += 1
            elif src[j] == "}":
                d -= 1
                if d == 0:
                    return src[i:j + 1]
            j += 1
        return src[i:]
    j = src.find(";", i)
    return src[i:j + 1]


def lint_node_loops(root):
    """-> list of dict(key, file, line, function, loop, trigger, trigger_line)"""
    hits = []
    files = sorted(glob.glob(os.path.join(root, "source/gatery/**/*.cpp"), recursive=True) +
                   glob.glob(os.path.join(root, "source/gatery/**/*.h"), recursive=True))
    for f in files:
        try:
            src = _lint_strip(open(f, errors="replace").read())
        except OSError:
            continue
        rel = os.path.relpath(f, root)
        for rx in (_L_RANGE, _L_ITER):
            for m in rx.finditer(src):
                cont = re.sub(r"\s+", "", m.group(1))
                if re.search(r"ircuit[\w()]*(\.|->)getNodes\(\)$", cont) or (cont == "m_nodes" and rel.endswith("hlim/Circuit.cpp")):
                    kind, trig = "circuit", [_L_CREATE] + ([_L_OWN] if cont == "m_nodes" else [])
                elif cont.endswith("getNodes()") or (cont == "m_nodes" and rel.endswith("hlim/NodeGroup.cpp")):
                    kind, trig = "group", [_L_MOVE] + ([_L_OWN] if cont == "m_nodes" else [])
                else:
                    continue
                b = _lint_body(src, m.end())
                t = None
                for r in trig:
                    t = r.search(b)
                    if t:
                        break
                if not t:
                    continue
                line = src.count("\n", 0, m.start()) + 1
                fn = None
                for fm in _L_FUNC.finditer(src, 0, m.start()):
                    fn = fm.group(1)
                hits.append(dict(key=f"lint-range-for-creates-nodes {rel} {fn}", file=rel, line=line, function=fn, container=kind,
                                 loop=re.sub(r"\s+", " ", m.group(0)), trigger=t.group(0).strip(),
                                 trigger_line=line + src[m.start():m.end()].count("\n") + b[:t.start()].count("\n")))
    return hits


# --------------------------------------------------------------------------------------------------
# shapes that make passes CREATE nodes while they iterate
# --------------------------------------------------------------------------------------------------
def gen_creating(seed, did):
    """a designgen design with extra statements:
       literal-vs-literal comparisons (ensureNoLiteralComparison inserts a named signal), bool comparisons with a
       constant (removeIrrelevantComparisons creates a NOT), an unclosed loop variable (insertConstUndefinedNodes),
       a signal produced in a sub-entity and consumed in a sibling sub-entity and in the grandparent
       (IntelQuartus::prepareCircuit inserts a signal), path attributes (XilinxVivado::prepareCircuit inserts
       attribute nodes)"""
    import random
    rng = random.Random(seed * 7 + 3)
    lines, used = G.gen_design(seed, did)
    head, body = lines[0], lines[1:]
    tail = []
    while body and body[-1].split()[0] in ("drop", "dropall"):
        tail.insert(0, body.pop())
    # insertion point: in front of the original `out` statements (nodes of the design follow the new ones in m_nodes),
    # never inside an open if / area
    cut = next((k for k, l in enumerate(body) if l.split()[0] == "out"), len(body))
    cut = rng.randint(min(2, cut), cut)
    depth, safe = 0, []
    for k, l in enumerate(body[:cut + 1]):
        if depth == 0:
            safe.append(k)
        t = l.split()[0]
        if t in ("if", "area"):
            depth += 1
        elif t in ("endif", "endarea"):
            depth -= 1
    cut = max([k for k in safe if k <= cut] or [len(body)])
    ins = [l.split()[1] for l in body[:cut] if l.split()[0] == "in"]
    inbs = [l.split()[1] for l in body[:cut] if l.split()[0] == "inb"]
    extra, outs, shapes = [], [], []
    n = [0]

    def nm(p):
        n[0] += 1
        return f"{p}{n[0]}_"
    def xbits(w, allow_def=False):
        return "".join(rng.choice("x01" if allow_def else "xx01") for _ in range(w))
    for _ in range(rng.choice([1, 2, 2, 3, 4])):
        w = rng.choice([1, 3, 4, 8])
        a, b, c = nm("la"), nm("lb"), nm("lc")
        va = xbits(w)
        if "x" not in va:
            va = "x" + va[1:]
        extra += [f"lit {a} u {va}", f"lit {b} u {xbits(w, True)}", f"bin {c} {rng.choice(['eq', 'ne', 'lt', 'gt', 'le', 'ge'])} {a} {b}"]
        outs.append(c)
        shapes.append("litcmp")
    if inbs:
        for _ in range(rng.choice([0, 1, 2])):
            k, c = nm("kb"), nm("bc")
            extra += [f"lit {k} b {rng.choice('01')}", f"bin {c} {rng.choice(['eq', 'ne'])} {rng.choice(inbs)} {k}"]
            outs.append(c)
            shapes.append("boolcmp")
    if rng.random() < 0.5:
        x = nm("lv")
        extra += [f"loopvar {x} {rng.choice([1, 4])}"]
        outs.append(x)
        shapes.append("unclosed-loopvar")
    if ins and rng.random() < 0.6:
        i = rng.choice(ins)
        cen, pr, co = nm("cen"), nm("prod"), nm("cons")
        x, x2, y, y2, z, z2 = nm("ex"), nm("ex"), nm("ey"), nm("ey"), nm("ez"), nm("ez")
        extra += [f"area {cen} entity", f"area {pr} entity", f"bin {x} add {i} {i}", f"bin {x2} xor {x} {i}", "endarea",
                  f"area {co} entity", f"bin {y} add {x} {i}", f"bin {y2} and {x2} {y}", "endarea", "endarea",
                  f"bin {z} sub {x} {i}", f"bin {z2} or {z} {x2}"]
        outs += [y2, z2]
        shapes.append("three-entity")
        if rng.random() < 0.7:
            extra += [f"pathattr {i} {z2}", f"pathattr {x} {y}"]
            shapes.append("pathattr")
    elif ins and rng.random() < 0.5:
        i = rng.choice(ins)
        a = nm("pa")
        extra += [f"bin {a} add {i} {i}", f"pathattr {i} {a}"]
        outs.append(a)
        shapes.append("pathattr")
    new = body[:cut] + extra + body[cut:] + [f"out oc{k} {v}" for k, v in enumerate(outs)]
    return [head] + new + tail, used + shapes


def gen_memory(seed, did):
    """RAM / ROM crossing the memory passes (MemoryDetector: reset logic from initZero / power-on contents, read-port
    registers, ...) under the clock configurations that change them: sync / async / no reset, active low, memoryResetType"""
    import random
    rng = random.Random(seed * 13 + 7)
    rst = rng.choice(["sync", "async", "async", "async", "none"])
    cfg = f"clockcfg rst={rst}"
    if rng.random() < 0.3:
        cfg += " act=low"
    if rst != "none" and rng.random() < 0.35:
        cfg += " memrst=" + rng.choice(["sync", "async", "none"])
    if rng.random() < 0.15:
        cfg += " initmem=" + rng.choice("01")
    depth = rng.choice([2, 4, 8, 16, 16, 32, 3, 5, 6, 12])
    width = rng.choice([1, 2, 4, 8])
    ab = max(1, (depth - 1).bit_length())
    rom = rng.random() < 0.2
    init = "fill" if rom else rng.choice(["zero", "zero", "fill", "none"])
    L = [f"design {did}", cfg]
    opts = []
    if init == "zero":
        opts.append("zero")
    elif init == "fill":
        opts.append("fill=" + "".join(rng.choice("01") for _ in range(depth * width)))
    if rng.random() < 0.2:
        opts.append("noconf")
    L += [f"in ra {ab}", f"in ra2 {ab}", "inb en"]
    L.append(f"mem M {depth} {width} " + " ".join(opts))
    outs = []
    if not rom:
        nw = rng.choice([1, 1, 2])
        for k in range(nw):
            L += [f"in wa{k} {ab}", f"in wd{k} {width}", f"inb we{k}"]
            if rng.random() < 0.8:
                L += [f"if we{k}", f"memwrite M wa{k} wd{k}", "endif"]
            else:
                L += [f"memwrite M wa{k} wd{k}"]
    for k in range(rng.choice([1, 1, 2])):
        a = "ra" if k == 0 else "ra2"
        L.append(f"memread rd{k} M {a}")
        v = f"rd{k}"
        for r in range(rng.choice([0, 1, 1, 2])):
            L.append(f"reg rq{k}_{r} {v}")
            v = f"rq{k}_{r}"
        outs.append(v)
    if width > 1 and rng.random() < 0.5:
        L.append(f"bin s0 add {outs[0]} {outs[-1]}")
        outs.append("s0")
    L += [f"out o{k} {v}" for k, v in enumerate(outs)]
    L.append(rng.choice(["dropall", "dropall", "drop ra"]))
    return L, [f"memory:{'rom' if rom else 'ram'}:{depth}x{width}:{init}:{cfg[9:]}"]


def gen_clockdrv(seed, did):
    """Clock::overrideClkWith / overrideRstWith / reset(signal) called 0..3 times each, in every interleaving, on the design
    clock or on a derived clock (which then has its own pins and register), also re-binding to the same signal; on top
    of a designgen design"""
    import random
    rng = random.Random(seed * 11 + 5)
    lines, used = G.gen_design(seed, did)
    head, body = lines[0], lines[1:]
    tail = []
    while body and body[-1].split()[0] in ("drop", "dropall"):
        tail.insert(0, body.pop())
    n = [0]

    def nm(p):
        n[0] += 1
        return f"{p}{n[0]}_"
    pre, post = [], []
    bits = [nm("ob") for _ in range(3)]
    pre += [f"inb {b}" for b in bits]
    derived = rng.random() < 0.5
    clk = ""
    if derived:
        dk = nm("dk")
        clk = " " + dk
        pre.append(f"dclk {dk}")
    nclk, nrst = rng.choice([0, 1, 1, 2, 3]), rng.choice([0, 1, 2, 2, 3])
    calls = ["c"] * nclk + ["r"] * nrst
    rng.shuffle(calls)
    same = rng.random() < 0.3
    stm = []
    for k, c in enumerate(calls):
        b = bits[0] if same else rng.choice(bits)
        if c == "c":
            stm.append(f"ovrclk {b}{clk}")
        else:
            stm.append((f"rstsig {b}{clk}" if rng.random() < 0.2 else f"ovrrst {b}{clk}"))
    # the register(s) of that clock: somewhere between the calls
    reg = []
    if derived:
        j, q, s2 = nm("dj"), nm("dq"), nm("ds")
        reg = [f"clkscope{clk}", f"in {j} 4", f"reg {q} {j} rst 0000", f"bin {s2} add {q} {j}", f"out od{n[0]} {s2}", "endclkscope"]
    else:
        j, q = nm("mj"), nm("mq")
        reg = [f"in {j} 3", f"reg {q} {j} rst 000", f"out om{n[0]} {q}"]
    cut = rng.randint(0, len(stm))
    stm = stm[:cut] + reg + stm[cut:]
    # part of the calls before the design body, part after (more nodes created in between)
    cut = rng.randint(0, len(stm))
    depth_ok = [k for k in range(len(stm) + 1) if sum(1 for x in stm[:k] if x.startswith("clkscope")) == sum(1 for x in stm[:k] if x.startswith("endclkscope"))]
    cut = max(k for k in depth_ok if k <= cut)
    return [head] + pre + stm[:cut] + body + stm[cut:] + tail, used + [f"clkdrv:{''.join(calls) or '-'}{':derived' if derived else ''}{':same' if same else ''}"]


# --------------------------------------------------------------------------------------------------
# T1
# --------------------------------------------------------------------------------------------------
# --------------------------------------------------------------------------------------------------
def reorder_events(before, after):
    """number of consumer / member lists whose surviving elements changed their relative order"""
    def lists(lines):
        d = {}
        for l in lines:
            t = l.split()
            if t[0] == "n":
                o = [x for x in t if x.startswith("o=")][0][2:]
                for p, part in enumerate(o.split(";") if o else []):
                    d[("o", t[1], p)] = part.partition(":")[2].split(",")
            elif t[0] == "G":
                d[("g", t[1])] = [x for x in t if x.startswith("m=")][0][2:].split(",")
        return d
    a, b = lists(before), lists(after)
    n = 0
    for k, la in a.items():
        lb = b.get(k)
        if lb is None:
            continue
        sa, sb = set(la), set(lb)
        if [x for x in la if x in sb] != [x for x in lb if x in sa]:
            n += 1
    return n


def last_try(impl):
    """the calls of the last (unfinished) sequence of a harness output, ending with the call that did not return"""
    ops, pending = [], None
    try:
        with open(impl) as f:
            for line in f:
                line = line.rstrip("\n")
                if line.startswith("seq "):
                    ops, pending = [], None
                elif line.startswith("try "):
                    pending = line[4:]
                elif line.startswith("op "):
                    ops.append(line[3:]); pending = None
    except OSError:
        pass
    return ops, pending


def tmo(quick_s, thorough_s):
    return quick_s if V.tier() == "quick" else thorough_s


def run_t1(harness, driver, mode_args, work, tag, seed):
    """runs the harness (nodeio or ops) and the model replay; returns dict(stats), first mismatch or None"""
    work.mkdir(parents=True, exist_ok=True)
    impl, model = work / f"{tag}.impl.txt", work / f"{tag}.model.txt"
    rc, out = V.run([harness] + mode_args + [str(impl)], timeout=tmo(45, 900), env={"VERIF_SEED": str(seed)})
    crashed = None
    if rc != 0:
        ops, pending = last_try(impl)
        crashed = dict(rc=rc, how=("did not return within the time limit (endless loop?)" if rc == 124 else f"harness exit {rc}"),
                       output=out[-600:], ops_before=ops, call=pending)
    hist = {}
    m = re.search(r"^hist (.*)$", out, re.M)
    if m:
        for kv in m.group(1).split():
            k, _, v = kv.partition("=")
            hist[k] = int(v)
    st = dict(ops=0, seqs=0, lines=0, changed=0, distinct=0, reorders=0, refused={}, hist=hist, model_inv_false=0, setdrv={}, clones={})
    mismatch = None
    if driver is None:
        return st, None, crashed, impl
    rc, out = V.run([driver, "replay", str(impl), str(model)], timeout=3000)
    if rc != 0:
        return st, dict(kind="driver-error", detail=out[-600:]), crashed, impl
    seen = set()
    prev = None
    seq, ops = None, []
    with open(impl) as fi, open(model) as fm:
        cur_i, cur_m, op = [], [], None
        for li in fi:
            lm = fm.readline()
            li, lm = li.rstrip("\n"), lm.rstrip("\n")
            st["lines"] += 1
            if li.startswith("seq "):
                seq, ops, prev = li.split()[1], [], []
                st["seqs"] += 1
            if li.startswith("op "):
                op = li
                ops.append(li)
                cur_i, cur_m = [], []
                st["ops"] += 1
            if li != lm and mismatch is None:
                # collect the rest of both blocks
                rest_i, rest_m = [li], [lm]
                for x in fi:
                    x = x.rstrip("\n")
                    if x == "end":
                        break
                    rest_i.append(x)
                for x in fm:
                    x = x.rstrip("\n")
                    if x == "end" or x.startswith("#"):
                        break
                    rest_m.append(x)
                mismatch = dict(kind="model-vs-implementation", seq=seq, ops=list(ops), impl_state=cur_i + rest_i,
                                model_state=cur_m + rest_m, first_differing_line=dict(impl=li, model=lm))
                break
            if li == "end" and op is not None:
                if prev is not None and cur_i != prev:
                    st["changed"] += 1
                    h = hashlib.sha1(("\n".join(prev) + "|" + op.split()[1] + "|" + "\n".join(cur_i)).encode()).digest()
                    if h not in seen:
                        seen.add(h)
                    st["reorders"] += 1 if reorder_events(prev, cur_i) else 0
                t = op.split()
                if len(t) >= 3 and t[1] in ("clone", "copysubnet") and t[-1] != "!throw" and prev is not None:
                    old_ids = {l.split()[1] for l in prev if l.startswith("n ")}
                    new = [l for l in cur_i if l.startswith("n ") and l.split()[1] not in old_ids]
                    key = t[1] + ("" if t[1] == "clone" else (":copyClocks" if t[2] == "1" else ":sameClocks"))
                    st["clones"][key] = st["clones"].get(key, 0) + 1
                    if any(re.search(r" c=[^ ]*\d", l) for l in new):
                        st["clones"][key + ":with_clocked_nodes"] = st["clones"].get(key + ":with_clocked_nodes", 0) + 1
                    st["clones"]["nodes_created"] = st["clones"].get("nodes_created", 0) + len(new)
                if len(t) >= 5 and t[1] == "setdrv" and t[-1] != "!throw" and prev is not None:
                    kl = next((l for l in prev if l.startswith(f"K {t[3]} ")), None)
                    if kl:
                        d = kl.split()[2][2:].split(",")[0 if t[2] == "c" else 1]
                        key = "first_binding" if d == "-" else "rebinding_the_current_driver" if d == t[4] else "replacing_an_existing_driver"
                        st["setdrv"][key] = st["setdrv"].get(key, 0) + 1
                prev, op = cur_i, None
            elif not li.startswith(("op ", "seq ", "endseq")):
                cur_i.append(li)
                cur_m.append(lm)
        if mismatch is None:
            for lm in fm:
                if lm.startswith("# "):
                    t = lm.split()
                    if t[1].startswith("refused:"):
                        st["refused"][t[1][8:]] = int(t[2])
                    if t[1] == "model-inv-false":
                        st["model_inv_false"] = int(t[2])
    st["distinct"] = len(seen)
    return st, mismatch, crashed, impl


# --------------------------------------------------------------------------------------------------
# T2
# --------------------------------------------------------------------------------------------------
def run_t2(harness, driver, designs, work, seed, extra=1, nproc=None, slacks="-"):
    """designs: list of (lines, templates). returns (results, stats, crashed)"""
    if work.exists():
        shutil.rmtree(work)
    work.mkdir(parents=True)
    G.write_programs(work / "designs.txt", [d[0] for d in designs])
    # shard the harness run too: a crash (dangling pointer in a mutated library) then only loses one shard
    nproc = nproc or min(V.NCPU, 8)
    ids = [d[0][0].split()[1] for d in designs]
    shards = [designs[i::nproc] for i in range(nproc)]
    crashed = []

    def one(i):
        if not shards[i]:
            return
        pf = work / f"designs{i}.txt"
        G.write_programs(pf, [d[0] for d in shards[i]])
        rc, out = V.run([harness, "design", str(pf), str(work), "def,min", str(extra), slacks], timeout=tmo(120, 1800),
                        env={"VERIF_SEED": str(seed), "C09_CASE_TIMEOUT": "30"})
        if rc != 0:
            crashed.append(dict(shard=i, rc=rc, out=out[-800:], designs=[d[0][0].split()[1] for d in shards[i]]))
    with concurrent.futures.ThreadPoolExecutor(max_workers=nproc) as ex:
        list(ex.map(one, range(nproc)))
    files = sorted(glob.glob(str(work / "*.wf")))
    res, stats = [], dict(dumps=0, ok=0, fail=0, skipped=0, kinds={}, errors=[])
    if driver is None:
        return res, stats, crashed, files
    lists = []
    for i in range(nproc):
        fl = files[i::nproc]
        if fl:
            p = work / f"list{i}.txt"
            p.write_text("\n".join(fl) + "\n")
            lists.append(p)

    def chk(p):
        r = subprocess.run([driver, "batch", str(p)], capture_output=True, text=True, timeout=3000)
        return r.stdout.splitlines() + ([f"ERROR driver-exit {r.returncode} {r.stderr[-300:]}"] if r.returncode else [])
    with concurrent.futures.ThreadPoolExecutor(max_workers=nproc) as ex:
        for lines in ex.map(chk, lists):
            for l in lines:
                if l.startswith("WF "):
                    stats["dumps"] += 1
                    if l.endswith(" ok"):
                        stats["ok"] += 1
                    else:
                        stats["fail"] += 1
                        res.append(l)
                elif l.startswith("SKIPPED"):
                    stats["skipped"] += 1
                elif l.startswith("# kind:"):
                    t = l.split()
                    stats["kinds"][t[1][5:]] = stats["kinds"].get(t[1][5:], 0) + int(t[2])
                elif l.startswith("ERROR"):
                    stats["errors"].append(l)
    return res, stats, crashed, files


def unfinished(work, design_ids):
    """(design, case tag, last completed boundary) of the dump files of these designs that never reached their end
    (the harness process itself died, not only the forked case)"""
    res = []
    for d in design_ids:
        for f in sorted(glob.glob(str(work / f"{d}.*.wf"))):
            f = Path(f)
            last, done = None, False
            for line in open(f):
                if line.startswith(("dump ", "pass ")):
                    last = line[5:].strip()
                elif line.startswith(("SKIP", "DONE", "CRASH")):
                    done = True
            if not done:
                res.append((f.stat().st_mtime, d, f.name[len(d) + 1:-3], last))
    res.sort()
    return [(d, v, last) for _, d, v, last in res]


def case_crashes(files):
    """CRASH lines written by the harness for forked cases that died -> list of dict(tag, signal, crash_in, last)"""
    seqs, crashes = {}, []
    per_file = {}
    for f in files:
        names, cr = [], []
        tag = None
        for line in open(f, errors="replace"):
            if line.startswith(("dump ", "pass ")):
                t = line.split()
                tag = t[1]
                if not t[3].startswith("enter:"):
                    names.append(re.sub(r"^extra:", "", t[3]))
            elif line.startswith("CRASH "):
                t = line.split()
                cr.append((t[1], t[2], next((x[3:] for x in t[3:] if x.startswith("in=")), None), list(names)))
        per_file[f] = (tag, names)
        if not cr and names:
            v = "min" if ".min" in os.path.basename(f) else "def"
            k = next((i for i, x in enumerate(names) if x == "construct:done"), None)
            if k is not None and len(names) - k > len(seqs.get(v, [])):
                seqs[v] = names[k:]
        for c in cr:
            crashes.append((f, c))
    out = []
    for f, (tag, sig, where, names) in crashes:
        if where is None:
            v = "min" if ".min" in os.path.basename(f) else "def"
            k = next((i for i, x in enumerate(names) if x == "construct:done"), None)
            ref = seqs.get(v, [])
            if k is None:
                where = "construction"
            else:
                done = names[k:]
                where = ref[len(done)] if len(ref) > len(done) and ref[:len(done)] == done else "after:" + (done[-1] if done else "?")
        where = re.sub(r"^(Def|Min)\.\w+:", "", where)
        out.append(dict(tag=tag, file=f, signal=sig, crash_in=where, last_completed=names[-1] if names else None))
    return out


def realloc_hist(files):
    """per pass: how often the node vector was reallocated inside it in the tight-capacity cases (from the `pass` markers)"""
    h = {}
    for f in files:
        m = re.search(r"\.s(\d+)\.wf$", f)
        if not m:
            continue
        slack = int(m.group(1))
        prev = None
        for line in open(f, errors="replace"):
            if not line.startswith("pass ") or "enter:" in line:
                continue
            t = line.split()
            nodes, cap = int(t[4][6:]), int(t[5][4:])
            if prev is not None and cap != prev + slack and cap > 0:
                name = re.sub(r"^(Def|Min)\.", "", t[3])
                h[name] = h.get(name, 0) + 1
            prev = nodes
    return h


def t2_activity(files):
    """which passes actually changed the graph; number of distinct dumps that differ from their predecessor"""
    changed, distinct, total = {}, set(), 0
    for f in files:
        prev = None
        for tag, lines in blocks_t2(f):
            total += 1
            body = "\n".join(lines)
            if prev is not None and body != prev:
                what = tag.split(" ", 2)[2] if tag.count(" ") >= 2 else tag
                what = re.sub(r"#\d+$", "", what)
                changed[what] = changed.get(what, 0) + 1
                distinct.add(hashlib.sha1((prev + "|" + body).encode()).digest())
            prev = body
    return changed, len(distinct), total


def find_dump(files, tagprefix):
    for f in files:
        for tag, lines in blocks_t2(f):
            if tag.startswith(tagprefix):
                return lines
    return None


def canary(driver, files, work):
    """the checker must reject each kind of damage applied to a real dump (guards against a vacuous check)"""
    src = None
    for f in files:
        for tag, lines in blocks_t2(f):
            if "postprocess:done" in tag and any(l.startswith("K ") and "m=" in l and l.split("m=")[1].strip() for l in lines):
                src = lines
                break
        if src:
            break
    if src is None:
        return None
    def first(pred):
        for i, l in enumerate(src):
            if pred(l):
                return i
        return None
    dam = {}
    i = first(lambda l: l.startswith("n ") and re.search(r" o=[^ ]*:\d+\.\d+", l))
    if i is not None:
        l = src[i]
        dam["consumer entry dropped"] = src[:i] + [re.sub(r"(:)(\d+\.\d+)(,?)", r"\1", l, count=1)] + src[i + 1:]
        dam["consumer entry duplicated"] = src[:i] + [re.sub(r"(:)(\d+\.\d+)", r"\1\2,\2", l, count=1)] + src[i + 1:]
    i = first(lambda l: l.startswith("K ") and re.search(r"m=\d+\.\d+", l))
    if i is not None:
        dam["clocked node not registered"] = src[:i] + [re.sub(r"m=\d+\.\d+,?", "m=", src[i], count=1)] + src[i + 1:]
    i = first(lambda l: l.startswith("n ") and re.search(r" i=\d+\.\d+", l))
    if i is not None:
        dam["driver destroyed"] = src[:i] + [re.sub(r" i=\d+\.\d+", " i=X", src[i], count=1)] + src[i + 1:]
    i = first(lambda l: l.startswith("n ") and re.search(r" g=\d+", l))
    if i is not None:
        dam["node without group"] = src[:i] + [re.sub(r" g=\d+", " g=-", src[i], count=1)] + src[i + 1:]
    i = first(lambda l: l.startswith("n ") and " k=fwd " in l and re.search(r" i=\d+\.\d+ o=1\.(\d+):", l))
    if i is not None:
        dam["type disagrees"] = src[:i] + [re.sub(r" o=1\.(\d+):", lambda m: f" o=1.{int(m.group(1)) + 3}:", src[i], count=1)] + src[i + 1:]
    for f in files:
        hit = None
        for tag, lines in blocks_t2(f):
            if any(re.match(r"K \d+ d=\d+,\d+ ", l) for l in lines):
                hit = lines
        if hit:
            i = next(k for k, l in enumerate(hit) if re.match(r"K \d+ d=\d+,\d+ ", l))
            dam["reset driver bound but not named by its clock (stale driver)"] = hit[:i] + [re.sub(r"d=(\d+),\d+", r"d=\1,-", hit[i])] + hit[i + 1:]
            dam["clock names a destroyed node as its driver"] = hit[:i] + [re.sub(r"d=\d+,", "d=X,", hit[i])] + hit[i + 1:]
            break
    p = work / "canary.wf"
    with open(p, "w") as f:
        for k, lines in dam.items():
            f.write(f"dump canary 0 {k.replace(' ', '_')}\n" + "\n".join(lines) + "\nend\n")
    r = subprocess.run([driver, "check", str(p)], capture_output=True, text=True, timeout=600)
    out = [l for l in r.stdout.splitlines() if l.startswith("WF ")]
    missed = [l for l in out if l.endswith(" ok")]
    return dict(damages=len(dam), rejected=len(out) - len(missed), missed=missed)


# --------------------------------------------------------------------------------------------------
# thorough: sanitizer build (supporting evidence only)
# --------------------------------------------------------------------------------------------------
ASAN_FLAGS = ("-O1 -g1 -fsanitize=address,undefined -fno-sanitize-recover=all -fsanitize-recover=vptr "
              "-DGATERY_VERIF -Wno-error")
# -g1: line tables are enough for the reports and keep the build small.
# vptr is kept recoverable: NodeIO::~NodeIO -> resizeInputs -> disconnectInput evaluates static_cast<BaseNode*>(this)
# after ~BaseNode has run (NodeIO.cpp:139), which the vptr check reports on EVERY destruction of a connected node.
# That is undefined behaviour by the letter but not an out-of-bounds / use-after-free access (the pointer is only
# compared); it is counted and reported in the evidence, all other sanitizer reports are fatal.


def build_asan():
    B = V.BUILD / "asan"
    with V.Lock("asan"):
        B.mkdir(parents=True, exist_ok=True)
        stamp = B / "flags.stamp"
        if not (B / "build.ninja").exists() or not stamp.exists() or stamp.read_text() != ASAN_FLAGS + str(V.REPO):
            rc, out = V.run(["cmake", "-G", "Ninja", "-S", str(V.REPO), "-B", str(B), "-DCMAKE_BUILD_TYPE=Release",
                             f"-DCMAKE_CXX_FLAGS={ASAN_FLAGS}"], timeout=1200)
            if rc != 0:
                return None, "cmake failed: " + out[-1500:]
            stamp.write_text(ASAN_FLAGS + str(V.REPO))
        rc, out = V.run(["cmake", "--build", str(B), "--target", "gatery_core", "gatery_scl", f"-j{V.NCPU}"], timeout=3000)
        if rc != 0:
            return None, "asan library build failed: " + out[-1500:]
        exe = V.BUILD / "harness" / "C09_wf_asan"
        src = V.VERIF / "harness" / "C09_wf.cpp"
        libs = [B / "libgatery_scl.a", B / "libgatery_core.a"]
        if not exe.exists() or any(x.stat().st_mtime > exe.stat().st_mtime for x in [src, V.VERIF / "harness" / "netdump.h"] + libs):
            cxx = [f for f in V.CXXFLAGS if not f.startswith(f"-I{V.GATERY_B}")] + [f"-I{B}/gen", "-g1", "-fsanitize=address,undefined",
                   "-fno-sanitize-recover=all", "-fsanitize-recover=vptr"]
            ld = ["-Wl,--start-group", str(libs[0]), str(libs[1]), "-Wl,--end-group"] + V.LDLIBS[4:]
            rc, out = V.run(["g++"] + cxx + [str(src), "-o", str(exe)] + ld, timeout=3000)
            if rc != 0:
                return None, "asan harness build failed: " + out[-1500:]
    return str(exe), None


def san_classify(out):
    """-> (fatal report text or None, {location: count} of recoverable vptr notes)"""
    notes = {}
    fatal = None
    for m in re.finditer(r"^(\S+:\d+:\d+): runtime error: (.*)$", out, re.M):
        if m.group(2).startswith("downcast of address"):
            notes[m.group(1)] = notes.get(m.group(1), 0) + 1
        elif fatal is None:
            fatal = out[max(0, m.start() - 200): m.start() + 2500]
    m = re.search(r"ERROR: AddressSanitizer", out)
    if m and fatal is None:
        fatal = out[max(0, m.start() - 200): m.start() + 3000]
    return fatal, notes


def run_asan(exe, work, seed, designs, nseq, nops, slacks="-"):
    if work.exists():
        shutil.rmtree(work)
    work.mkdir(parents=True)
    env = {"VERIF_SEED": str(seed), "ASAN_OPTIONS": "detect_leaks=0:abort_on_error=0:halt_on_error=1", "UBSAN_OPTIONS": "print_stacktrace=0"}
    findings, runs, notes = [], 0, {}

    def merge(n):
        for k, v in n.items():
            notes[k] = notes.get(k, 0) + v
    rc, out = V.run([exe, "nodeio", str(nseq), str(nops), str(work / "nodeio.txt")], timeout=3000, env=env)
    runs += 1
    fatal, n = san_classify(out)
    merge(n)
    if rc != 0 or fatal:
        ops, pending = last_try(work / "nodeio.txt")
        findings.append(dict(where=f"nodeio {nseq} {nops} seed {seed}", rc=rc, report=fatal or out[-3000:], ops=ops + ([pending] if pending else [])))
    nproc = min(V.NCPU, 8)
    shards = [designs[i::nproc] for i in range(nproc)]

    def one(i):
        if not shards[i]:
            return None, {}
        pf = work / f"designs{i}.txt"
        G.write_programs(pf, [d[0] for d in shards[i]])
        rc, out = V.run([exe, "design", str(pf), str(work), "def,min", "1", slacks], timeout=3000, env=dict(env, C09_CASE_TIMEOUT="120"))
        fatal, n = san_classify(out)
        if rc != 0 or fatal:
            ids = [d[0][0].split()[1] for d in shards[i]]
            unf = unfinished(work, ids)
            pd = {d[0][0].split()[1]: d[0] for d in shards[i]}
            return dict(where=f"designs shard {i}", rc=rc, report=fatal or out[-3000:], unfinished=unf[:3],
                        program=pd.get(unf[0][0]) if unf else None), n
        return None, n
    with concurrent.futures.ThreadPoolExecutor(max_workers=nproc) as ex:
        for r, n in ex.map(one, range(nproc)):
            runs += 1
            merge(n)
            if r:
                findings.append(r)
    # forked cases that the sanitizer killed: which pass, which design
    pd = {d[0][0].split()[1]: d[0] for d in designs}
    by = {}
    for c in case_crashes(sorted(glob.glob(str(work / "*.wf")))):
        by.setdefault(c["crash_in"], []).append(c)
    for where, cs in sorted(by.items()):
        c = min(cs, key=lambda x: len(pd.get(split_tag(x["tag"])[0], [])) or 10 ** 9)
        rep_txt = next((f["report"] for f in findings if f.get("report")), "")
        findings.insert(0, dict(where=f"{where} ({len(cs)} cases, e.g. {c['tag']})", key=f"asan crash-in={where}", rc=0, report=rep_txt,
                                cases=sorted({x["tag"] for x in cs})[:12], program=pd.get(split_tag(c["tag"])[0])))
    return findings, runs, notes


# --------------------------------------------------------------------------------------------------
def split_tag(tag):
    """'g5.def.s1 12 name' / 'g5.min' -> (design, variant, slack or None)"""
    t = tag.split()[0].split(".")
    return t[0], (t[1] if len(t) > 1 else "?"), (t[2] if len(t) > 2 else None)


def load_corpus():
    progs, opsfiles = [], []
    for f in sorted(glob.glob(str(V.VERIF / "corpus" / CID / "*.prog"))):
        progs.append(([l.rstrip("\n") for l in open(f) if l.strip()], ["corpus:" + os.path.basename(f)]))
    for f in sorted(glob.glob(str(V.VERIF / "corpus" / CID / "*.ops"))):
        opsfiles.append(f)
    return progs, opsfiles


def main():
    global WORK
    rep = V.Report(CID, "proof")
    WORK = WORK / ("replay" if "--replay" in sys.argv else rep.tier)     # quick / thorough / replay runs do not share files
    V.build_gatery()
    harness = V.build_harness("C09_wf")
    driver = V.build_model(CID)
    if "--build-only" in sys.argv:
        sys.exit(0)
    res = V.check_properties(CID)
    rep.add_proof(res)
    forb = [h for h in V.scan_forbidden() if h.startswith(("Wf", "Properties_C09"))]
    known, _ = V.known_findings(CID)
    quick = rep.tier == "quick"
    seed = rep.seed
    broken = []          # what no longer checks
    found = []           # concrete failing inputs

    if not res["ok"]:
        broken.append("proof obligations failed: " + ", ".join(res["failed"] or ["(dependency did not compile)"]))
    if forb:
        broken.append("forbidden construct in the Coq development: " + "; ".join(forb[:5]))
    if driver is None:
        broken.append("extracted model no longer builds: " + V.last_model_log[-500:])

    corpus_progs, corpus_ops = load_corpus()
    replay = None
    if "--replay" in sys.argv:
        replay = json.loads(open(sys.argv[sys.argv.index("--replay") + 1]).read())

    # ---------------- T1 ----------------
    t1_runs = []
    seqfiles = list(corpus_ops)
    if replay and replay.get("ops"):
        p = WORK / "replay.ops"
        WORK.mkdir(parents=True, exist_ok=True)
        p.write_text("seq replay\n" + "\n".join(o if o.startswith("op ") else "op " + o for o in replay["ops"]) + "\nendseq\n")
        seqfiles = [str(p)]
    for f in seqfiles:
        t1_runs.append((f"corpus:{os.path.basename(f)}", ["ops", f]))
    if not replay:
        nseq, nops = (300, 150) if quick else (1500, 200)
        t1_runs.append((f"generated nseq={nseq} nops={nops} seed={seed}", ["nodeio", str(nseq), str(nops)]))
    t1 = dict(ops=0, seqs=0, lines=0, changed=0, distinct=0, reorders=0, refused={}, hist={}, model_inv_false=0, setdrv={}, clones={})
    impl_files = []
    for k, (name, args) in enumerate(t1_runs):
        st, mismatch, crashed, impl = run_t1(harness, driver, args, WORK / "t1", f"r{k}", seed)
        impl_files.append((name, args, impl))
        for key in ("ops", "seqs", "lines", "changed", "distinct", "reorders", "model_inv_false"):
            t1[key] += st[key]
        for key in ("refused", "hist", "setdrv", "clones"):
            for a, b in st[key].items():
                t1[key][a] = t1[key].get(a, 0) + b
        if crashed:
            broken.append(f"T1 {name}: call on real nodes {crashed['how']}: {crashed['call']}")
            found.append(dict(property=CID, what="a call of the graph interface on real nodes " + crashed["how"],
                              ops=crashed["ops_before"] + ([crashed["call"]] if crashed["call"] else []), call=crashed["call"],
                              expected="every call returns and leaves a well-formed graph", observed=crashed["output"][-300:]))
        if mismatch:
            mismatch["run"] = name
            broken.append(f"T1 {name}: model and implementation differ after op #{len(mismatch.get('ops', []))} of seq {mismatch.get('seq')}")
            rep.cov.setdefault("t1_mismatches", []).append(mismatch)
        if st["model_inv_false"]:
            broken.append("T1: inv_check false on a model state (contradicts ops_preserve_Inv: extraction/driver problem)")

    # ---------------- lint ----------------
    lint_hits = lint_node_loops(str(V.REPO))
    for h in lint_hits:
        broken.append(f"lint: {h['file']}:{h['line']} {h['function']}: `{h['loop']}` but the body calls `{h['trigger']}` (line {h['trigger_line']})")
        found.append(dict(property=CID, key=h["key"], function=(h["function"] or "").split("::")[-1],
                          what="LINT (static audit, heuristic): a loop iterates a node vector by range-for / iterator while its body grows or "
                               "shrinks that vector; the iteration continues over the freed buffer when the vector reallocates (heap use-after-free)",
                          **{k: h[k] for k in ("file", "line", "loop", "trigger", "trigger_line", "container")},
                          expected="loops that create nodes index the vector: for (auto idx : utils::Range(m_nodes.size())) { auto node = m_nodes[idx].get(); ..."))

    # ---------------- T2 ----------------
    designs = list(corpus_progs)
    nshape = 0
    if replay and replay.get("program"):
        designs = [(replay["program"], ["replay"])]
    elif replay:
        designs = []
    else:
        ndes, nshape = (60, 30) if quick else (400, 200)
        for i in range(ndes):
            designs.append(G.gen_design(seed * 100003 + i, f"g{i}"))
        for i in range(nshape):
            designs.append(gen_creating(seed * 100003 + 50000 + i, f"c{i}"))
        for i in range(nshape):
            designs.append(gen_clockdrv(seed * 100003 + 70000 + i, f"k{i}"))
        for i in range(nshape + nshape // 3):
            designs.append(gen_memory(seed * 100003 + 90000 + i, f"m{i}"))
    slacks = "-,0,1,2,3" if quick else "-,0,1,2,3,5,8"
    fails, t2, t2crashed, files = ([], dict(dumps=0, ok=0, fail=0, skipped=0, kinds={}, errors=[]), [], [])
    prog = {d[0][0].split()[1]: d for d in designs}
    if designs:
        fails, t2, t2crashed, files = run_t2(harness, driver, designs, WORK / "t2", seed, extra=1, slacks=slacks)
    for c in t2crashed:
        how = "did not return within the time limit (endless loop?)" if c["rc"] == 124 else f"crashed (exit {c['rc']})"
        unf = unfinished(WORK / "t2", c["designs"])
        broken.append(f"T2: the harness itself {how}; unfinished: {unf[:3]}")
        for d, v, last in unf[:1]:
            found.append(dict(property=CID, key=f"harness-died {d}.{v}", what="construction / post-processing of a real design " + how, design=d, case=v,
                              last_completed_boundary=last, program=prog.get(d, ([], []))[0], observed=c["out"][-300:],
                              expected="every pass returns and leaves a well-formed graph"))
    crashes = case_crashes(files) if files else []
    by_pass = {}
    for c in crashes:
        by_pass.setdefault(c["crash_in"], []).append(c)
    for where, cs in sorted(by_pass.items()):
        c = min(cs, key=lambda x: len(prog.get(split_tag(x["tag"])[0], ([], []))[0]) or 10 ** 9)
        d, v, sl = split_tag(c["tag"])
        sig = c["signal"]
        how = {"signal=11": "faulted (SIGSEGV) on poisoned freed memory: heap use-after-free", "signal=6": "aborted (write into a freed block, or an assertion)",
               "signal=14": "did not return within the time limit"}.get(sig, "died (" + sig + ")")
        broken.append(f"T2: {where} {how} in {len(cs)} case(s), e.g. {c['tag']}")
        found.append(dict(property=CID, key=f"crash-in={where}", what=f"a pass / preparation step of the real library {how}", crash_in=where,
                          cases=sorted({x["tag"] for x in cs})[:12], design=d, variant=v,
                          node_vector_slack=("untouched" if sl is None else f"capacity == size + {sl[1:]} before every pass (Circuit::getNodes().shrink_to_fit()/reserve())"),
                          last_completed_boundary=c["last_completed"], program=prog.get(d, ([], []))[0],
                          expected="every pass returns, reads no freed memory and leaves a well-formed graph",
                          how_to_rerun="build/harness/C09_wf design <programs> <outdir> def,min 1 " + slacks))
    if t2["errors"]:
        broken.append("T2: driver errors: " + "; ".join(t2["errors"][:3]))
    for l in fails[:50]:
        broken.append("T2: extracted wf_check rejects a real graph: " + l)
    changed, t2_distinct, t2_total = t2_activity(files) if files else ({}, 0, 0)
    reallocs = realloc_hist(files) if files else {}
    can = canary(driver, files, WORK) if (driver and files) else None
    if can is not None and can["missed"]:
        V.infra_error("C09 canary: the checker accepted a damaged dump: " + "; ".join(can["missed"]))

    # ---------------- thorough: sanitizers ----------------
    asan = None
    if not quick and not replay:
        exe, err = build_asan()
        if exe is None:
            asan = dict(built=False, error=err)
        else:
            findings, runs, notes = run_asan(exe, WORK / "asan", seed, designs, 600, 150, slacks="-,0,1,3")
            asan = dict(built=True, flags=ASAN_FLAGS, runs=runs, fatal_reports=len(findings),
                        recoverable_vptr_notes_by_location=notes,
                        note="supporting evidence only: absence of reports on the sampled corpora, not a proof of memory safety")
            for fnd in findings:
                found.append(dict(property=CID, key=fnd.get("key"), cases=fnd.get("cases"),
                                  what="sanitizer report (ASan/UBSan build of gatery + harness; supporting evidence tier)",
                                  where=fnd["where"], report=fnd["report"], ops=fnd.get("ops"), program=fnd.get("program"),
                                  unfinished=fnd.get("unfinished"),
                                  how_to_rerun="build/harness/C09_wf_asan nodeio|design ... (see checks/C09.py run_asan)"))

    # ---------------- search mode ----------------
    searched = 0
    if broken:
        t0 = time.time()
        budget = 60 if quick else 600
        # 1. the independent oracle on everything the real implementation produced in this run
        for name, args, impl in impl_files:
            if not os.path.exists(impl):
                continue
            for seq, ops, op, lines in blocks_t1(impl):
                searched += 1
                bad = py_wf(lines, need_group=False)
                if bad:
                    found.insert(0, dict(property=CID, what="real graph violates the invariant after a sequence of interface calls",
                                      run=name, seq=seq, ops=[o[3:] if o.startswith("op ") else o for o in ops],
                                      observed_state=lines, violations=bad[:10], expected="both directions of every relation agree"))
                    break
            if any("violates the invariant after" in x["what"] for x in found) or time.time() - t0 > budget:
                break
        for f in files:
            if sum(1 for x in found if "pass boundary" in x["what"]) >= 2 or time.time() - t0 > budget:
                break
            for tag, lines in blocks_t2(f):
                searched += 1
                bad = py_wf(lines, need_group=True)
                if bad:
                    did = split_tag(tag)
                    found.insert(0, dict(property=CID, what="real graph violates the invariant at a construction step / pass boundary",
                                      design=did[0], variant=did[1], boundary=tag,
                                      program=prog.get(did[0], ([], []))[0], violations=bad[:10], dump=lines[:400],
                                      expected="both directions of every relation agree, every node in one group"))
                    break
        # 2. fresh cases until the budget is used
        k = 0
        while not found and time.time() - t0 < budget:
            k += 1
            st, mm, crashed, impl = run_t1(harness, None, ["nodeio", "200", "150"], WORK / "search", f"s{k}", seed + 1000 * k)
            if crashed:
                found.append(dict(property=CID, what="a call of the graph interface on real nodes " + crashed["how"],
                                  ops=crashed["ops_before"] + ([crashed["call"]] if crashed["call"] else []), call=crashed["call"],
                                  observed=crashed["output"][-300:]))
                break
            for seq, ops, op, lines in blocks_t1(impl):
                searched += 1
                bad = py_wf(lines, need_group=False)
                if bad:
                    found.append(dict(property=CID, what="real graph violates the invariant after a sequence of interface calls",
                                      seed=seed + 1000 * k, seq=seq, ops=[o[3:] for o in ops], observed_state=lines, violations=bad[:10]))
                    break
            if found:
                break
            ds = [G.gen_design((seed + k) * 100003 + 7000 + i, f"s{k}_{i}") for i in range(40)]
            _, _, cr, fl = run_t2(harness, None, ds, WORK / "search_t2", seed, extra=1)
            pd = {d[0][0].split()[1]: d for d in ds}
            for c in cr:
                found.append(dict(property=CID, what="harness crashes while post-processing (dangling pointer suspected)", detail=c["out"][-600:],
                                  programs=[pd[i][0] for i in c["designs"] if i in pd][:8]))
            for f in fl:
                for tag, lines in blocks_t2(f):
                    searched += 1
                    bad = py_wf(lines, need_group=True)
                    if bad:
                        did = split_tag(tag)
                        found.append(dict(property=CID, what="real graph violates the invariant at a construction step / pass boundary",
                                          design=did[0], variant=did[1], boundary=tag, program=pd.get(did[0], ([], []))[0],
                                          violations=bad[:10], dump=lines[:400]))
                        break
                if found:
                    break

    seen_keys, reported = set(), 0
    for fnd in found:
        k = fnd.get("key") or json.dumps(fnd, default=str)[:200]
        if k in seen_keys:
            continue
        seen_keys.add(k)
        text = json.dumps(fnd, default=str)
        tok = re.search(r"crash-in=\S+", fnd.get("key") or "")
        kn = [x for x in known if x and (x in text or (fnd.get("key") and fnd["key"] in x) or (tok and tok.group(0) in x.split())
                                         or (fnd.get("function") and fnd["function"] in x))]
        if kn:
            rep.known((fnd.get("key") or fnd.get("what", "")) + " -- " + str(fnd.get("violations", fnd.get("cases", fnd.get("file", ""))))[:200])
        elif reported < 8:
            reported += 1
            rep.violation(fnd)
    if broken and not found:
        rep.violation(dict(property=CID, what="no concrete failing input found by the independent oracle", broken=broken[:20],
                           searched_states=searched, t1_mismatch=(rep.cov.get("t1_mismatches") or [None])[0],
                           t2_rejected=fails[:5],
                           rejected_dump=(find_dump(files, fails[0].split(" nodes=")[0][3:]) or [])[:400] if fails else None,
                           rejected_program=(prog.get(split_tag(fails[0].split()[1])[0], ([], []))[0] if fails else None)),
                      nofail=True)

    # ---------------- evidence ----------------
    rep.cov["evaluations"] = t1["ops"] + t2["dumps"]
    rep.cov["distinct_nontrivial"] = t1["distinct"] + t2_distinct
    rep.cov["rule"] = ("T1: seeded random sequences of interface calls on real hlim nodes (Node_Signal, Node_Register, a node class exposing "
                       "the protected NodeIO members); a case = one call in its pre-state; non-trivial = the dumped graph changed; distinct by "
                       "sha1(pre-state, call kind, post-state).  T2: generated designs (lib/designgen.py templates) through the real frontend and "
                       "both post processors; a case = one graph dump (construction statement / pass boundary / optimizeSubnet / shuffleNodes); "
                       "non-trivial = differs from the previous dump of that design; distinct by sha1(previous dump, dump)")
    rep.cov["traces_validated_against_impl"] = t1["ops"]
    rep.cov["t1"] = dict(sequences=t1["seqs"], calls=t1["ops"], lines_compared=t1["lines"], calls_that_changed_the_graph=t1["changed"],
                         calls_after_which_a_consumer_or_member_list_was_reordered=t1["reorders"],
                         refused_by_the_model_and_thrown_by_the_code=t1["refused"], calls_by_kind=t1["hist"],
                         setLogicDriver_calls=t1["setdrv"], createUnconnectedClone_and_copySubnet_calls=t1["clones"])
    rep.cov["t2"] = dict(designs=len(designs), dumps_checked=t2["dumps"], accepted=t2["ok"], rejected=t2["fail"], skipped_variants=t2["skipped"],
                         dumps_that_differ_from_predecessor=t2_distinct, node_kinds_seen=t2["kinds"],
                         boundaries_that_changed_the_graph=dict(sorted(changed.items(), key=lambda kv: -kv[1])[:60]), canary=can,
                         node_creating_shape_designs=nshape, clock_driver_shape_designs=nshape, memory_shape_designs=nshape + nshape // 3,
                         memory_shapes=sorted({t for d in designs for t in d[1] if str(t).startswith("memory:")})[:60],
                         clock_driver_call_patterns=sorted({t for d in designs for t in d[1] if str(t).startswith("clkdrv:")}), node_vector_slacks=slacks, forked_cases=len(files),
                         cases_that_died=len(crashes), died_in={k: len(v) for k, v in by_pass.items()},
                         passes_in_which_the_node_vector_was_reallocated_under_tight_capacity=dict(sorted(reallocs.items(), key=lambda kv: -kv[1])),
                         poison="operator new/delete replaced in the harness: freed blocks filled with 0xDD and quarantined; stale read faults, stale write detected")
    rep.cov["lint_static_audit"] = dict(rule="range-for / iterator loop over Circuit::m_nodes / circuit.getNodes() (or a group's getNodes()) whose body calls createNode / "
                                             "createUnconnectedClone / copySubnet / ConstructionHelper / getCreate* / vector mutators (or moveToGroup)",
                                        hits=[{k: h[k] for k in ("file", "line", "function", "loop", "trigger", "trigger_line")} for h in lint_hits],
                                        label="heuristic lint, not a proof; a hit is treated as a broken obligation")
    if asan is not None:
        rep.cov["sanitizer_supporting_evidence"] = asan
    samples = []
    for name, args, impl in impl_files[-1:]:
        if os.path.exists(impl):
            for seq, ops, op, lines in blocks_t1(impl):
                if len(ops) == 12:
                    samples.append(dict(kind="T1", calls=[o[3:] for o in ops], state_after=lines))
                    break
    if designs:
        d = designs[-1]
        samples.append(dict(kind="T2", program=d[0], templates=d[1]))
    rep.cov["samples"] = samples
    rep.cov["explanation"] = ("proof: Inv preservation for every modelled operation and all sequences; wf_check decides Inv. partial: memory safety "
                              "itself is only covered by the sanitizer run of the thorough tier (supporting evidence, not a proof)")
    rep.assumptions = [
        "the Gallina operations are hand transcriptions of NodeIO.cpp / Node.cpp; agreement with the code is established by the T1 replay only (sampled)",
        "T2 covers the designs the generator reaches; passes are not modelled, only their results are checked at every boundary",
        "the per-kind type requirement table (WfDefs.kind_req) is our reading of the connectInput functions of the core nodes; kinds not in the table have no requirement",
        "the dumper prints `X` for any pointer not found among the live objects of the circuit without dereferencing it; Clock::getClockedNodes itself dereferences its entries",
        "Clock::m_clockDriver / m_resetDriver have no accessor; the harness reads the protected members through a class derived from hlim::Clock",
        "model contract: the clock port of a Signal2Clk / Signal2Rst node is only changed by Clock::setLogic*Driver, a driver node is bound to at most one clock, "
        "and a node still named as a driver is not destroyed (~BaseNode does not reset Clock::m_clockDriver; such a node has side effects and no pass culls it)",
        "T2: Circuit::m_nextNodeId / m_nextGroupId / m_nextClockId are not observable; the imported graph takes max id + 1, so for real dumps clause (v) checks uniqueness of ids only",
        "use-after-free is observed dynamically only: poisoned freed memory (quick + thorough) and ASan (thorough) on the sampled designs x slacks; a stale read of a block "
        "that left the 96 MB quarantine and was reused is not detected by the poison",
        "use-after-free / out-of-bounds accesses are NOT covered by the theorems; in-bounds and liveness are preconditions (op_struct_pre) of the model operations",
        "NodeIO::connectInput / rewireInput / attachClock do not bounds-check their port index (only getDriver does); calls with an out-of-range index are outside the modelled contract",
    ]
    if not rep.violations and not quick:
        # the thorough tier leaves several hundred MB of dumps behind; they are only interesting after a failure
        for d in ("t1", "t2", "asan"):
            shutil.rmtree(WORK / d, ignore_errors=True)
    rep.finish()


if __name__ == "__main__":
    main()
