#!/usr/bin/env python3
"""C13 — exported VHDL is lexically and statically well formed for any legal names.

Pipeline (AGENT_BRIEF.md):
  0. translate/C13_keywords.py regenerates coq/Gatery/gen/Keywords.v from the CURRENT
     NamespaceScope.cpp (fail closed)                                         [T3]
  1. build gatery + harness/C13_names.cpp
  2. Coq: Properties_C13.v (11 theorems, Print Assumptions)
  3. extracted model + checker -> build/ocaml/C13/driver
  4. tie A (T1): random operation sequences on the REAL vhdl::NamespaceScope vs the model
     tie B (T1): predicted port names of exported entities (model) vs the real files
     tie C (T2): designs named with every VHDL-2008 reserved word x {lower,UPPER,Mixed} x every
                 name kind, collisions, suffix clashes; exported by the real VHDLExport; the
                 verified checker and an independent python oracle both judge the files
  5. search mode when an obligation / tie breaks: oracle-driven hunt for a concrete design
"""
import sys, os
sys.path.insert(0, os.path.join(os.path.dirname(os.path.abspath(__file__)), "..", "lib"))
import vcommon as V
import json, random, re, shutil, subprocess, time
from pathlib import Path

CID = "C13"
OUT = V.BUILD / "C13_out"
KNOWN_MEM = "genericmemory-hardcoded-identifier"
KNOWN_IPC = "interfacepackage-unchecked-constant-name"
KNOWN_CAP = "inner-label-hides-outer-object"
MEM_HARD = ["memory", "mem_type", "mem_word_type", "word_width", "num_words"]

ROLES = ["top", "clk", "rst", "pi0", "pi1", "po0", "po1", "sg0", "sg1", "sg2", "sg3", "sg4", "sg5",
         "sg6", "sg7", "rg0", "ent0", "inst0", "ar0", "blk0", "ent1", "mem0", "clk2"]
SIGKINDS = ["si", "so", "ci", "co", "ri", "ro", "sa", "sl", "sv", "sc"]
KINDS = SIGKINDS + ["clk", "rst", "pin", "pkg", "ent", "blk", "pc", "pr", "ins"]


def reserved_words():
    """single source: the Coq constant (trusted base)"""
    txt = (V.COQ / "Gatery" / "Vhdl2008Reserved.v").read_text()
    body = txt[txt.index("Definition vhdl2008_reserved"):txt.index("].")]
    return re.findall(r'"([a-z_]+)"', body)


def impl_keywords():
    f = V.COQ / "Gatery" / "gen" / "Keywords.v"
    if not f.exists():
        return None
    return re.findall(r'"([^"]*)"', f.read_text().split(":=", 1)[1])


def variants(w):
    mixed = "".join(c.upper() if i % 2 == 0 else c for i, c in enumerate(w))
    return [w, w.upper(), mixed]


# ----------------------------------------------------------------------------------------------
# independent oracle: regex / line based reading of the exported files (NOT the Coq model)
# ----------------------------------------------------------------------------------------------
ID_RE = re.compile(r"^[A-Za-z](?:_?[A-Za-z0-9])*$")
# names the exported code may use without declaring them (IEEE packages + gatery's helper package); written
# independently of the Coq checker's list
ORACLE_PKG = set("""std_logic std_ulogic std_logic_vector std_ulogic_vector unsigned signed bit bit_vector boolean integer
natural positive true false resize to_integer to_unsigned to_signed rising_edge falling_edge shift_left shift_right
rotate_left rotate_right to_bit to_bitvector to_stdlogicvector to_stdulogicvector bool2stdlogic stdlogic2bool
portmap_to_stdlogic portmap_to_stdulogic portmap_to_bit portmap_to_stdlogicvector portmap_to_unsigned work ieee
error warning note failure""".split())


def expr_ids(l):
    """identifier tokens of a statement line that denote objects/functions: string and character literals removed,
    selected-name suffixes (after .) and attribute names (after ') skipped"""
    l = re.sub(r'"[^"]*"', " ", l)
    l = re.sub(r"'.'", " ", l)
    return [m.group(1) for m in re.finditer(r"(?<![A-Za-z0-9_.'])([A-Za-z]\w*)", l)]


def strip_comments(text):
    return "\n".join(l.split("--", 1)[0] for l in text.splitlines())


def oracle_file(text, reserved):
    """returns (findings, regions) ; finding = dict(kind, name, region) ;
    regions = list of (region-name, [declared names])"""
    findings, regions = [], []
    stack = []      # [ [kind, name, names] ]
    ent_ports = {}
    lines = strip_comments(text).splitlines()

    def declare(name, what):
        reg = stack[-1] if stack else ["file", "", []]
        if not stack:
            stack.append(reg)
        if name.lower() in reserved:
            findings.append(dict(kind="reserved", name=name, region=f"{reg[0]} {reg[1]}", what=what))
        elif not ID_RE.match(name):
            findings.append(dict(kind="illegal", name=name, region=f"{reg[0]} {reg[1]}", what=what))
        if name.lower() in [n.lower() for n in reg[2]]:
            findings.append(dict(kind="duplicate", name=name, region=f"{reg[0]} {reg[1]}", what=what))
        reg[2].append(name)

    def close():
        reg = stack.pop()
        regions.append((f"{reg[0]} {reg[1]}", list(reg[2])))
        return reg

    lib = ["library", "", []]
    stack.append(lib)
    in_ports = False
    in_map = False
    for raw in lines:
        l = raw.strip()
        if not l:
            continue
        m = re.match(r"(?i)^ENTITY\s+(\S+)\s+IS\b", l)
        if m:
            declare(m.group(1), "entity name")
            stack.append(["entity", m.group(1), []])
            continue
        m = re.match(r"(?i)^PACKAGE\s+(?!BODY\b)(\S+)\s+IS\b", l)
        if m:
            declare(m.group(1), "package name")
            stack.append(["package", m.group(1), []])
            continue
        if re.match(r"(?i)^PACKAGE\s+BODY\b", l):
            stack.append(["packagebody", "", []])
            continue
        if stack[-1][0] == "packagebody":
            if re.match(r"(?i)^END\s+PACKAGE\s+BODY\b", l):
                close()
            continue
        m = re.match(r"(?i)^ARCHITECTURE\s+(\S+)\s+OF\s+(\S+)\s+IS\b", l)
        if m:
            stack.append(["architecture", m.group(2), list(ent_ports.get(m.group(2).lower(), []))])
            continue
        m = re.match(r"(?i)^COMPONENT\s+(\S+)", l)
        if m:
            declare(m.group(1), "component name")
            stack.append(["component", m.group(1), []])
            continue
        if re.match(r"(?i)^PORT\s*\($", l):
            in_ports = True
            continue
        if in_ports:
            if l.startswith(")"):
                in_ports = False
                continue
            m = re.match(r"(?i)^(\S+)\s*:\s*(IN|OUT|INOUT|BUFFER)\b", l)
            if m:
                declare(m.group(1), "port")
            else:
                findings.append(dict(kind="unparsed-port", name=l, region=f"{stack[-1][0]} {stack[-1][1]}", what="port"))
            continue
        m = re.match(r"(?i)^(SIGNAL|CONSTANT|VARIABLE|TYPE|SUBTYPE)\s+(\S+)\s*(:|IS\b)", l)
        if m:
            declare(m.group(2), m.group(1).lower())
            continue
        m = re.match(r"(?i)^ATTRIBUTE\s+(\S+)\s*:", l)
        if m:
            declare(m.group(1), "attribute")
            continue
        ms = re.match(r"(?i)^(?:\S+\s*:\s*)?PROCESS\s*\(([^()]*)\)", l)
        if ms and ms.group(1).strip().lower() != "all":
            vis = {n.lower() for reg in stack for n in reg[2]}
            for u in [t.strip() for t in ms.group(1).split(",")]:
                if u and u.lower() not in vis:
                    findings.append(dict(kind="undeclared", name=u, region=f"{stack[-1][0]} {stack[-1][1]}", what=l[:100]))
        m = re.match(r"(?i)^(\S+)\s*:\s*(PROCESS|BLOCK)\b", l)
        if m:
            declare(m.group(1), "label")
            stack.append([m.group(2).lower(), m.group(1), []])
            continue
        if re.match(r"(?i)^PROCESS\b", l):
            stack.append(["process", "", []])
            continue
        m = re.match(r"(?i)^(\S+)\s*:\s*(ENTITY\s+\S+|\S+)\s+(PORT|GENERIC)\s+MAP\b", l)
        if m:
            declare(m.group(1), "instance label")
            in_map = l.rstrip().endswith("(")
            continue
        # uses that must resolve to a declaration of an open region (independent, deliberately small rule set):
        # assignment targets, sensitivity lists, rising_edge/falling_edge arguments, `IF (name = '.')` tests
        used = []
        mt = re.match(r"^([A-Za-z]\w*)\s*(?:\([^()]*\)\s*)?(<=|:=)", l)
        if mt and stack[-1][0] in ("architecture", "process", "block"):
            used.append(mt.group(1))
        for g in re.findall(r"(?i)\b(?:rising_edge|falling_edge)\s*\(\s*(\w+)\s*\)", l):
            used.append(g)
        for g in re.findall(r"(?i)^(?:ELS)?IF\s*\(\s*([A-Za-z]\w*)\s*=\s*'[01]'\s*\)\s*THEN", l):
            used.append(g)
        for u in used:
            vis = {n.lower() for reg in stack for n in reg[2]}
            if u.lower() not in vis:
                findings.append(dict(kind="undeclared", name=u, region=f"{stack[-1][0]} {stack[-1][1]}", what=l[:100]))
        # every identifier of a statement (right-hand sides, conditions, selectors, index expressions, port-map
        # actuals) must be a reserved word, a name of the known packages, or declared in an open region
        if re.match(r"(?i)^BEGIN$", l):
            stack[-1].append("begun") if "begun" not in stack[-1] else None
            continue
        body_line = None
        if in_map:
            if l.startswith(")"):
                in_map = False
            else:
                body_line = l.split("=>", 1)[1] if "=>" in l else l
        elif "begun" in stack[-1] and stack[-1][0] in ("architecture", "process", "block") and not re.match(r"(?i)^END\b", l):
            body_line = re.sub(r"^[A-Za-z]\w*\s*:(?!=)", " ", l)     # drop a leading label
            if re.search(r"(?i)\b(PORT|GENERIC)\s+MAP\s*\($", l):
                in_map = True
                body_line = None
        if body_line is not None:
            vis = {n.lower() for reg in stack for n in reg[2]}
            for u in expr_ids(body_line):
                ul = u.lower()
                if ul in reserved or ul in ORACLE_PKG or ul in vis:
                    continue
                findings.append(dict(kind="undeclared", name=u, region=f"{stack[-1][0]} {stack[-1][1]}", what=l[:100]))
        m = re.match(r"(?i)^END\s*(\S*)\s*(\S*)\s*;", l)
        if m:
            w = m.group(1).lower()
            if w in ("if", "case", "loop"):
                continue
            if w in ("process", "block", "component", "package"):
                close()
                continue
            top = stack[-1]
            if top[0] == "entity":
                ent_ports[top[1].lower()] = list(top[2])
                close()
            elif top[0] == "architecture":
                close()
            continue
    while len(stack) > 1:
        close()
    regions.append(("library", list(lib[2])))
    return findings, regions



def oracle_var_order(text):
    """independent oracle for 'process variable written before read': inside every PROCESS the first
    textual occurrence of each declared VARIABLE in the statement part must be the target of a `:=`
    (the exporter emits straight-line code + IF/CASE that assign a target in every branch)."""
    out = []
    src = strip_comments(text)
    for m in re.finditer(r"(?is)(?:([A-Za-z]\w*)\s*:\s*)?\bPROCESS\b(.*?)\bEND\s+PROCESS\b", src):
        body = m.group(2)
        b = re.search(r"(?i)\bBEGIN\b", body)
        if not b:
            continue
        decls, stm = body[:b.start()], body[b.end():]
        for v in re.findall(r"(?i)\bVARIABLE\s+(\w+)\s*:", decls):
            o = re.search(r"(?i)(?<![A-Za-z0-9_])%s(?![A-Za-z0-9_])" % re.escape(v), stm)
            if not o:
                continue
            rest = stm[o.end():].lstrip()
            if not rest.startswith(":="):
                line = stm[stm.rfind("\n", 0, o.start()) + 1: (stm.find("\n", o.start()) if stm.find("\n", o.start()) >= 0 else len(stm))].strip()
                out.append(dict(kind="var-read-before-write", name=v, region=f"process {m.group(1) or ''}", what=line[:120]))
    return out


def script_order(case_dir):
    """file names in the order of the generated project script (section before '# testbench files:');
    files the script does not list follow alphabetically"""
    files = sorted(f.name for f in Path(case_dir).glob("*.vhd"))
    listed = []
    sc = Path(case_dir) / "project.txt"
    if sc.exists():
        for l in sc.read_text().splitlines():
            l = l.strip()
            if l == "# testbench files:":
                break
            if l and not l.startswith("#") and l in files and l not in listed:
                listed.append(l)
    return listed + [f for f in files if f not in listed], listed


def oracle_unit_order(case_dir):
    """independent analysis-order rule: `entity work.X` needs ENTITY X earlier in the same file or in a file that
    precedes it in the project-script order; a file missing from a multi-file script is a finding too"""
    out = []
    order, listed = script_order(case_dir)
    if listed and len(order) > 1:
        for f in order:
            if f not in listed:
                out.append(dict(kind="file-not-in-project-script", name=f, region="project.txt", what="", file=f))
    seen = set()
    for f in order:
        src = strip_comments((Path(case_dir) / f).read_text(errors="replace"))
        for m in re.finditer(r"(?im)^\s*ENTITY\s+(\w+)\s+IS\b|\bentity\s+work\s*\.\s*(\w+)", src):
            if m.group(1):
                seen.add(m.group(1).lower())
            elif m.group(2).lower() not in seen:
                out.append(dict(kind="unit-used-before-analysed", name=m.group(2), region=f"file {f}",
                                what="entity work." + m.group(2), file=f))
    return out


def oracle_case(case_dir, reserved):
    findings, regions, units = [], [], []
    findings += oracle_unit_order(case_dir)
    files = sorted(Path(case_dir).glob("*.vhd"))
    # packages first (same order rule as the checker; irrelevant for the oracle's verdict)
    for f in files:
        txt = f.read_text(errors="replace")
        fi, rg = oracle_file(txt, reserved)
        fi += oracle_var_order(txt)
        for x in fi:
            x["file"] = f.name
        findings += fi
        for name, names in rg:
            if name == "library":
                for n in names:
                    if n.lower() in [u.lower() for u in units]:
                        findings.append(dict(kind="duplicate", name=n, region="library", what="design unit", file=f.name))
                    units.append(n)
            else:
                regions.append((f.name, name, names))
    return findings, regions, units


# ----------------------------------------------------------------------------------------------
# case generation
# ----------------------------------------------------------------------------------------------
def case_line(cid, mode, kv):
    return "D %s %s %s" % (cid, mode, " ".join(f"{k}={v}" for k, v in kv.items()))


def gen_design_cases(rng, reserved, tier):
    cases = []   # dict(id, mode, kv, cls, expect)
    pool = [v for w in reserved for v in variants(w)]       # 345 names
    n = len(pool)
    roles = [r for r in ROLES if r != "clk2"]
    step = 15
    idxs = list(range(n))
    modes = ["S", "E", "P"]
    for i in idxs:
        kv = {r: pool[(i + j * step) % n] for j, r in enumerate(roles)}
        for mode in ([modes[i % 3]] if tier == "quick" else modes):
            cases.append(dict(id=f"rw{i}{mode}", mode=mode, kv=kv, cls="reserved-exhaustive", expect="ok"))
    # the same word everywhere, three letter cases mixed over the roles
    for k, w in enumerate(["signal", "process", "x", "top", "Foo", "entity", "impl", "default", "unnamed"]):
        vs = variants(w)
        kv = {r: vs[j % 3] for j, r in enumerate(roles)}
        for mode in modes:
            cases.append(dict(id=f"same{k}{mode}", mode=mode, kv=kv, cls="all-roles-same-word", expect="ok"))
    # names that collide with the uniquifier's own results and with generated names
    suffixy = ["x", "x_2", "X_2", "x_3", "x_2_2", "x2", "x_02", "s_x", "S_X_2", "v_x", "in_x", "out_x", "C_X",
               "c_x_2", "x_comb", "x_reg", "default_comb", "default_reg", "DEFAULT_COMB_2", "unnamed", "s_unnamed",
               "unnamed_2", "in_unnamed", "out_unnamed_2", "ent00", "x0", "scl_memory", "physical_memory",
               "GateryHelperPackage", "gateryhelperpackage", "impl", "top", "TOP_2", "reset", "clk", "a1", "a_1",
               "a1_2", "q_outputReg_0", "conflict", "conflict_bypass_mux", "rd_delayed1", "x_delayed1"]
    ncoll = 40 if tier == "quick" else 300
    for k in range(ncoll):
        kv = {r: rng.choice(suffixy) for r in roles}
        cases.append(dict(id=f"coll{k}", mode=rng.choice(modes), kv=kv, cls="suffix-collision", expect="ok"))
    # seeded mix
    nmix = 40 if tier == "quick" else 400
    mixpool = pool + suffixy + ["Foo", "foo", "FOO", "fOO", "foo_2", "Foo_2", "FOO_3"]
    for k in range(nmix):
        shape = rng.choice(["full", "full", "mem", "tiny"])
        kv = {r: rng.choice(mixpool) for r in roles}
        kv["shape"] = shape
        cases.append(dict(id=f"mix{k}", mode=rng.choice(modes), kv=kv, cls="seeded-mix-" + shape, expect="ok"))
    # forward-declared signals read before they are assigned (statement scheduling of the exporter)
    lnames = ["sel", "Sel", "late", "t", "x_mux1", "a_mux1", "v_x", "V_X_MUX1", "s_t", "unnamed", "process", "variable", "if"]
    nlate = 3 if tier == "quick" else 20
    for lv in range(10):
        for nm in (0, 1):
            for rep_ in range(nlate if (lv, nm) != (0, 0) else nlate + 2):
                kv = {"shape": "late", "lv": str(lv), "nm": str(nm)}
                if rep_ > 0:
                    for r in ["pi0", "pi1", "pi2", "pi3", "pi4", "pi5", "po0", "sg1", "sg2", "ar0", "ar1", "ent0"]:
                        if rng.random() < 0.6:
                            kv[r] = rng.choice(lnames + rng.sample(pool, 2))
                cases.append(dict(id=f"late{lv}_{nm}_{rep_}", mode="SE"[rep_ % 2], kv=kv, cls=f"late-assigned-lv{lv}", expect="ok"))
    # clocks whose clock line / reset line is driven by logic, all pin/logic combinations, derived clocks,
    # registers in root and sub-entities; clock / reset names reserved words and colliding names
    cnames = ["clk", "Clk", "CLK", "reset", "Reset", "rst", "clk_2", "reset_2", "s_reset", "default_reg", "gated_clk",
              "logic_rst", "sum", "s_sum", "sub", "sub0", "x_reg", "top"]
    k = 0
    for cl in ("pin", "logic"):
        for rl in ("pin", "logic", "logic2"):
            for dv in ("0", "1"):
                for sub in ("0", "1"):
                    nrep = 2 if tier == "quick" else 8
                    for rep_ in range(nrep):
                        kv = {"shape": "clkrst", "cl": cl, "rl": rl, "dv": dv, "sub": sub, "nm": str(rep_ % 2)}
                        if rep_ > 0:
                            for r in ["clk", "rst", "clk2", "rst2", "pi0", "pi1", "pi2", "pi3", "pi4", "pi5", "po0", "po1",
                                      "po2", "sg0", "sg1", "sg2", "sg3", "sg4", "rg0", "ent0", "ent1", "top"]:
                                if rng.random() < 0.7:
                                    kv[r] = rng.choice(cnames + rng.sample(pool, 3))
                        cases.append(dict(id=f"ckr{k}", mode="SEP"[k % 3], kv=kv, cls=f"clkrst-clk_{cl}-rst_{rl[:5]}", expect="ok"))
                        k += 1
    # clocks and resets used as logic SIGNALS (clkSignal / rstSignal / reset): root clocks, pin-sharing derived clocks
    # (falling edge / other register attributes), derived clocks with own pins, logic-driven clocks; root and sub-entity
    snames = ["clk", "Clk", "clk_2", "CLK_2", "reset", "reset_2", "clk_g", "clk_gated", "s_clk_gated", "en", "sub", "sub0",
              "top", "q", "default_comb", "rst_or_en"]
    k = 0
    for ck in ("root", "fall", "rattr", "own", "logic"):
        for use in ("clk", "rst", "both", "rstn"):
            for sub in ("0", "1"):
                for gt in ("0", "1"):
                    nrep = 2 if tier == "quick" else 6
                    if tier == "quick" and ck in ("root", "own", "logic") and use in ("rst", "rstn"):
                        nrep = 1
                    for rep_ in range(nrep):
                        kv = {"shape": "clksig", "ck": ck, "use": use, "sub": sub, "gt": gt, "nm": str((rep_ + k) % 2)}
                        if rep_ > 0:
                            for r in ["clk", "rst", "clk2", "rst2", "clk3", "rst3", "pi0", "pi1", "pi2", "pi5", "po0", "po1",
                                      "po2", "sg0", "sg1", "rg0", "ent0", "top"]:
                                if rng.random() < 0.7:
                                    kv[r] = rng.choice(snames + rng.sample(pool, 3))
                        cases.append(dict(id=f"cks{k}", mode="SEP"[k % 3], kv=kv, cls=f"clksig-{ck}-{use}", expect="ok"))
                        k += 1
    # hierarchy shapes (entity in area in entity, area in area, one leaf name from several blocks, blocks on two
    # levels) in ALL output modes: they decide the design-unit order of single-file / partition exports and of the
    # generated project script
    hnames = ["inner", "Inner", "leaf", "LEAF", "leaf_2", "mid", "blk", "Block", "entity", "ENTITY", "top", "blk0", "inner0"]
    k = 0
    for hv in range(5):
        for rep_ in range(2 if tier == "quick" else 8):
            kv = {"shape": "hier", "hv": str(hv)}
            if rep_ > 0:
                for r in ["ent0", "ent1", "ent2", "blk0", "blk1", "top", "clk", "rst", "pi0", "pi1", "po0", "sg0", "sg1"]:
                    if rng.random() < 0.7:
                        kv[r] = rng.choice(hnames + rng.sample(pool, 3))
            for mode in modes:
                cases.append(dict(id=f"hier{k}{mode}", mode=mode, kv=kv, cls=f"hier-hv{hv}", expect="ok"))
            k += 1
    # tiny cases with predicted port names (tie B)
    ntiny = 30 if tier == "quick" else 200
    for k in range(ntiny):
        kv = {r: rng.choice(["Foo", "foo", "FOO", "foo_2", "FOO_2", "top", "Top_2", "default_comb", "DEFAULT_COMB",
                             "signal", "Signal_2", "x", "X", "GateryHelperPackage"] + rng.sample(pool, 3))
              for r in ["top", "pi0", "pi1", "po0", "po1", "sg0"]}
        kv["shape"] = "tiny"
        cases.append(dict(id=f"tiny{k}", mode="S", kv=kv, cls="tiny-predicted-ports", expect="ok"))
    # probes for the two known findings (reported as KNOWN-FINDING only while they still fail)
    for k, w in enumerate(["memory", "MEM_TYPE", "mem_word_type", "Word_Width", "NUM_WORDS"]):
        cases.append(dict(id=f"kmem{k}", mode="S", kv={"shape": "mem", "clk": w}, cls="probe-known-memory",
                          expect="known:" + KNOWN_MEM))
    cases.append(dict(id="kipc0", mode="S", kv={"shape": "tiny", "ipc": "signal,Foo,foo"},
                      cls="probe-known-interface-package", expect="known:" + KNOWN_IPC))
    cases.append(dict(id="kipc1", mode="E", kv={"shape": "tiny", "ipc": "good_name,PROCESS"},
                      cls="probe-known-interface-package", expect="known:" + KNOWN_IPC))
    cases.append(dict(id="kcap0", mode="S", kv={"sg1": "x0", "ent1": "s_x"}, cls="probe-known-label-capture",
                      expect="known:" + KNOWN_CAP))
    cases.append(dict(id="ipcok", mode="S", kv={"shape": "tiny", "ipc": "WIDTH_A,depth_b"},
                      cls="interface-package-legal", expect="ok"))
    # names hiding predefined / library names: legal for C13 as worded, reported as suspicious
    cases.append(dict(id="hide0", mode="S", kv={"shape": "tiny", "pi0": "work", "pi1": "unsigned", "po0": "std_logic",
                                                 "po1": "ieee", "sg0": "resize"}, cls="hides-predefined", expect="ok"))
    return cases


def gen_alloc_ops(rng, reserved, nseq, nops):
    """operation sequences for the real NamespaceScope vs the model; several sequences are
    concatenated in ONE file (each starts its own roots, scope indices keep growing)."""
    lines = []
    base = ["x", "X", "x_2", "X_2", "x_3", "x_2_2", "Foo", "foo", "FOO", "a1", "a_1", "unnamed", "default",
            "top", "s_x", "S_X", "c_x", "C_X_2", "in_x", "IN_X_2", "x_reg", "x_comb", "X_COMB_2", "v_x"]
    nscopes = 0
    hist = dict(new=0, alloc=0, empty=0, badscope=0, rootonly_nonroot=0, parent_after_child=0, reserved=0)
    for _ in range(nseq):
        seq_scopes = []     # (index, parent, has_child_alloc)
        lines.append("N -1"); seq_scopes.append(nscopes); parents = {nscopes: None}; nscopes += 1; hist["new"] += 1
        child_alloc = set()
        names = rng.sample(base, 6) + [v for w in rng.sample(reserved, 4) for v in variants(w)]
        for _ in range(nops):
            r = rng.random()
            if r < 0.10:
                p = rng.choice(seq_scopes + [-1])
                lines.append(f"N {p}"); parents[nscopes] = (p if p >= 0 else None); seq_scopes.append(nscopes); nscopes += 1
                hist["new"] += 1
            elif r < 0.115:
                lines.append(f"N {nscopes + 3}"); hist["badscope"] += 1          # invalid parent: ignored
            elif r < 0.13:
                lines.append(f"A {nscopes + 5} pin x"); hist["badscope"] += 1     # invalid scope
            else:
                s = rng.choice(seq_scopes)
                k = rng.choice(KINDS)
                d = rng.choice(names)
                if rng.random() < 0.03:
                    d = "@"; hist["empty"] += 1
                if k in ("pkg", "ent") and parents[s] is not None:
                    hist["rootonly_nonroot"] += 1
                if d.lower() in reserved:
                    hist["reserved"] += 1
                if s in child_alloc:
                    hist["parent_after_child"] += 1
                q = parents[s]
                while q is not None:
                    child_alloc.add(q); q = parents[q]
                lines.append(f"A {s} {k} {d}"); hist["alloc"] += 1
    return lines, hist


# ----------------------------------------------------------------------------------------------
def run_cases(harness, driver, cases, tag):
    """exports all cases with the real exporter, runs the extracted checker and the oracle.
    returns dict id -> result"""
    root = OUT / tag
    shutil.rmtree(root, ignore_errors=True)
    root.mkdir(parents=True, exist_ok=True)
    cf = root / "cases.txt"
    cf.write_text("\n".join(case_line(c["id"], c["mode"], c["kv"]) for c in cases) + "\n")
    rc, out = V.run([harness, "design", str(cf), str(root)], timeout=1800)
    if rc != 0:
        V.infra_error("C13 harness design mode failed:\n" + out[-3000:])
    status = {}
    for l in out.splitlines():
        p = l.split(" ", 3)
        if len(p) >= 3 and p[0] == "D":
            status[p[1]] = (p[2], p[3] if len(p) > 3 else "")
    lf = root / "list.txt"
    lf.write_text("".join(f"{c['id']} {root / c['id']}\n" for c in cases if status.get(c["id"], ("", ""))[0] == "ok"))
    rc, out = V.run([driver, "check", str(lf)], timeout=1800)
    if rc != 0:
        V.infra_error("C13 driver check failed:\n" + out[-3000:])
    verdict = {}
    for l in out.splitlines():
        m = re.match(r"^(\S+) (OK|ERR) (.*)$", l)
        if m:
            verdict[m.group(1)] = (m.group(2), m.group(3))
    return root, status, verdict


def parse_ok(s):
    d = {}
    for kv in s.split():
        k, _, v = kv.partition("=")
        d[k] = v
    return d


def classify(c, root, status, verdict, reserved):
    """-> dict(state= ok | known | violation | exception, ...)"""
    cid = c["id"]
    st = status.get(cid)
    if st is None or st[0] != "ok":
        return dict(state="exception", detail=(st[1] if st else "no status line"))
    findings, regions, units = oracle_case(root / cid, reserved)
    v = verdict.get(cid, ("ERR", "checker produced no verdict"))
    res = dict(findings=findings, regions=regions, units=units, verdict=v)
    if v[0] == "OK" and not findings:
        res["state"] = "ok"
        res["stats"] = parse_ok(v[1])
        return res
    # something is wrong: attribute to a known finding only if ALL evidence fits it
    kv = c["kv"]
    if kv.get("shape") == "mem" and kv.get("clk", "").lower() in MEM_HARD and findings and \
            all(f["kind"] == "duplicate" and f["name"].lower() == kv["clk"].lower() and
                f["region"].lower().startswith("architecture physical_memory") for f in findings) and \
            v[0] == "ERR" and "declared twice" in v[1]:
        res["state"] = "known"; res["token"] = KNOWN_MEM
        return res
    if "ipc" in kv and findings and \
            all(f["region"].startswith("package ") and f["name"] in kv["ipc"].split(",") and f["what"] == "constant"
                for f in findings) and v[0] == "ERR":
        res["state"] = "known"; res["token"] = KNOWN_IPC
        return res
    if v[0] == "ERR" and v[1].startswith("object name resolves to a label that hides it") and not findings:
        # verify independently of the checker: the captured identifier is BOTH an object of an outer region
        # and a label of the BLOCK region the statement is in
        res["state"] = "known"; res["token"] = KNOWN_CAP
        toks = v[1].split("|", 1)[1].split() if "|" in v[1] else []
        labels = {n.lower() for _f, reg, names in regions if reg.startswith("block ") for n in names}
        outer = {n.lower() for _f, reg, names in regions if reg.startswith("architecture ") for n in names}
        if not any(t.lower() in labels and t.lower() in outer for t in toks):
            res["state"] = "violation"
        return res
    res["state"] = "violation"
    return res


def replay_obj(c, res, what):
    return dict(property="C13", kind="design", case=case_line(c["id"], c["mode"], c["kv"]), case_class=c["cls"],
                how_to_replay="python3 checks/C13.py --replay <this file>",
                expected="every declared identifier legal, not reserved (any case), unique in its declarative region; "
                         "every used name declared; simple assignments/port maps of equal width; variables written before read",
                observed=dict(checker=" ".join(res.get("verdict", ("", ""))), oracle=res.get("findings", [])[:10],
                              detail=res.get("detail", "")),
                what_broke=what)


def main():
    t0 = time.time()
    tier = V.tier()
    rep = V.Report(CID)
    rng = random.Random(V.seed() * 7919 + 13)
    reserved = reserved_words()

    # ---- 0. regenerate the S3 model BEFORE the Coq build -------------------------------------
    kwfile = V.COQ / "Gatery" / "gen" / "Keywords.v"
    rc, tout = V.run([sys.executable, str(V.VERIF / "translate" / "C13_keywords.py"), str(V.REPO), str(kwfile)], timeout=60)
    translator_ok = (rc == 0)

    # ---- 1. builds -----------------------------------------------------------------------------
    V.build_gatery()
    harness = V.build_harness("C13_names")
    broken = []
    if translator_ok:
        res = V.check_properties(CID)
    else:
        # fail closed: no generated file, every obligation counts as broken
        src = (V.COQ / "Gatery" / f"Properties_{CID}.v").read_text()
        names = re.findall(r"^\s*Theorem\s+([A-Za-z0-9_']+)", src, re.M)
        res = dict(obligations=names, discharged=[], failed=names, axioms={}, ok=False,
                   log="translator failed closed: " + tout.strip())
        broken.append("translator: " + tout.strip())
    rep.add_proof(res)
    forb = [h for h in V.scan_forbidden() if h.startswith(("Names", "VhdlLex", "Vhdl2008", "Properties_C13", "Keywords"))]
    if forb:
        broken.append("forbidden constructs: " + "; ".join(forb))
    if not res["ok"]:
        m = re.search(r'File "([^"]+)", line (\d+)[^\n]*\n((?:[^\n]*\n){0,4})', res.get("log", ""))
        first = (f" ; first Coq error: {m.group(1)}:{m.group(2)}: " + " ".join(m.group(3).split())[:300]) if m else ""
        broken.append("obligations not discharged: " + ", ".join(res["failed"]) + first)
    driver = V.build_model(CID) if translator_ok else None
    if driver is None and translator_ok:
        broken.append("extraction of the model/checker no longer compiles")
    if driver is None:
        # the checker itself cannot be built: fall back to the last good driver only for SEARCH
        # (never for a verdict); without one, search uses the python oracle alone
        old = V.BUILD / "ocaml" / CID / "driver"
        driver = str(old) if old.exists() else None
    if "--build-only" in sys.argv:
        sys.exit(0 if not broken else 1)

    rep.cov["trusted_base"] += [
        "coq/Gatery/Vhdl2008Reserved.v: hand transcription of IEEE 1076-2008 clause 15.10 (115 words)",
        "translate/C13_keywords.py (fail-closed regex translator of the NamespaceScope constructor)",
        "VhdlLexDefs.lex / decl_sites: the tokenizer and the local-pattern definition of declaration sites are the "
        "specification of what the exported files declare",
        "boost::to_lower_copy modelled as ASCII A-Z lower-casing (C locale)",
    ]
    rep.assumptions += [
        "allocator model (NamesDefs.v) is a hand transcription of NamespaceScope.cpp/CodeFormatting.cpp; agreement is "
        "sampled by the operation-sequence tie, not proved",
        "size_t wrap of the attempt counter (2^64 allocations of one name) not modelled",
        "allocateSupportFileName (file names, returned unchecked) not modelled",
        "region-wide distinctness (allocate_region_distinct) needs ancestors-first allocation; the exporter does NOT "
        "follow it (process labels of a BLOCK are allocated before the enclosing entity's pins/signals; root-scope clock "
        "names after all entities) - only per-region uniqueness is claimed for the files, an inner declaration hiding an "
        "outer one is counted (evidence: shadowing) and a use captured by such a label is an error of the checker",
        "declared-before-use and width agreement are executable Gallina checks WITHOUT a soundness theorem; "
        "variable-written-before-read: the must-assign analysis over the process flow skeleton is proved sound for all control "
        "paths (flow_sound, check_design_flows_sound), but the extraction of that skeleton from the tokens (which identifiers are "
        "variable reads/writes, where IF/ELSIF/ELSE/CASE/WHEN branches start) is the scanner's reading and is trusted; an indexed "
        "assignment v(i) := e does not count as a write; loops and wait statements are not handled (the exporter emits none); widths are compared only for `target <= name | conv(name) | literal` and port associations of "
        "those forms (other expressions: width not inferred); formals are checked against the entity's port list only "
        "when the entity is part of the export; CASE/IF dataflow is must-assign over straight-line+IF/CASE code",
        "design-unit order is checked against the DefaultSynthesisTool project script only (vendor tools' scripts - Vivado/Quartus/"
        "Modelsim writers - and testbench file lists are not examined)",
        "function bodies of the fixed GateryHelperPackage are skipped by the scanner; testbench files, constraint files "
        "and external-node support files are not examined; Node_External/generic maps only as far as the harness designs use them (not at all)",
        "basic identifiers are restricted to ASCII letters (Latin-1 letters of VHDL-93 are treated as illegal)",
        "identifiers that hide predefined or library names (work, ieee, std_logic, unsigned, ...) are legal under C13 as worded; "
        "they are reported under coverage.suspicious_hiding, not as violations",
    ]

    violations, known_hits, tie_notes = [], {}, []
    known, _fixed = V.known_findings(CID)

    # ---- 4A. allocator tie --------------------------------------------------------------------
    alloc_lines = 0
    alloc_hist = {}
    alloc_diff = []
    if driver:
        nseq, nops = (60, 150) if tier == "quick" else (600, 300)
        corpus_ops = sorted((V.VERIF / "corpus" / CID).glob("*.ops"))
        OUT.mkdir(parents=True, exist_ok=True)
        batches = [(f.name, f.read_text().splitlines()) for f in corpus_ops]
        # small batches: every batch is one process / one model state (the model copies its scope list per op)
        per = 10
        for b in range(0, nseq, per):
            ops, h = gen_alloc_ops(rng, reserved, min(per, nseq - b), nops)
            for k, v in h.items():
                alloc_hist[k] = alloc_hist.get(k, 0) + v
            batches.append((f"generated{b // per}", ops))
        for name, lines in batches:
            of = OUT / f"alloc_{name}.txt"
            of.write_text("\n".join(lines) + "\n")
            rc1, h = V.run([harness, "alloc", str(of)], timeout=900)
            rc2, m = V.run([driver, "alloc", str(of)], timeout=900)
            if rc1 != 0 or rc2 != 0:
                V.infra_error(f"alloc tie failed to run: {h[-500:]} {m[-500:]}")
            hl = [l for l in h.splitlines() if l[:2] in ("N ", "A ")]
            ml = [l for l in m.splitlines() if l[:2] in ("N ", "A ")]
            alloc_lines += len(hl)
            for i, (a, b) in enumerate(zip(hl, ml)):
                if a != b:
                    alloc_diff.append(dict(batch=name, line=i, op=lines[i], impl=a, model=b, prefix=lines[max(0, i - 400):i + 1]))
                    break
            if len(hl) != len(ml) and not alloc_diff:
                alloc_diff.append(dict(batch=name, line=min(len(hl), len(ml)), op="(length)", impl=str(len(hl)), model=str(len(ml)), prefix=[]))
        if alloc_diff:
            broken.append("allocator tie: model and real NamespaceScope disagree")

    # ---- 4C. designs ----------------------------------------------------------------------------
    cases = []
    for f in sorted((V.VERIF / "corpus" / CID).glob("*.cases")):
        for k, l in enumerate(f.read_text().splitlines()):
            p = l.split()
            if len(p) >= 3 and p[0] == "D":
                exp = "ok"
                kv = dict(t.split("=", 1) for t in p[3:])
                if "expect" in kv:
                    exp = kv.pop("expect")
                cases.append(dict(id=p[1], mode=p[2], kv=kv, cls="corpus", expect=exp))
    cases += gen_design_cases(rng, reserved, tier)
    results = {}
    hist_cls, hist_state = {}, {}
    stats_sum = dict(decls=0, regions=0, uses=0, assign=0, widthchk=0, varreads=0, insts=0, unknown=0)
    hides, shadows = set(), set()
    role_cov = {}
    nontrivial = set()
    samples = []
    if driver:
        root, status, verdict = run_cases(harness, driver, cases, "run")
        for c in cases:
            r = classify(c, root, status, verdict, reserved)
            results[c["id"]] = r
            hist_cls[c["cls"]] = hist_cls.get(c["cls"], 0) + 1
            hist_state[r["state"]] = hist_state.get(r["state"], 0) + 1
            if r["state"] == "ok":
                for k in stats_sum:
                    stats_sum[k] += int(r["stats"].get(k, 0))
                for h in r["stats"].get("hides", "").split(","):
                    if h.startswith("predefined:"):
                        hides.add(h[11:])
                    elif h.startswith("outer:"):
                        shadows.add(h[6:])
                # coverage: which requested names surface (possibly prefixed / suffixed) as declared identifiers
                declared = [n for _f, _r, names in r["regions"] for n in names] + r["units"]
                dl = [d.lower() for d in declared]
                changed = 0
                for role, name in c["kv"].items():
                    if role in ("shape", "ipc", "lv", "nm", "cl", "rl", "dv", "sub", "ck", "use", "gt", "hv"):
                        continue
                    nl = name.lower()
                    hit = [d for d in dl if nl in d]
                    if hit:
                        role_cov[role] = role_cov.get(role, 0) + 1
                        if nl not in dl:
                            changed += 1
                if changed:
                    nontrivial.add(case_line("", c["mode"], c["kv"]))
                if len(samples) < 4 and changed:
                    samples.append(dict(case=case_line(c["id"], c["mode"], c["kv"])[:300], checker=r["verdict"][1][:200]))
            elif r["state"] == "known":
                known_hits[r["token"]] = known_hits.get(r["token"], 0) + 1
            elif r["state"] == "exception":
                violations.append((c, r, "the real exporter threw on a design with legal names: " + r["detail"][:200]))
            else:
                violations.append((c, r, "exported files rejected (checker: %s ; oracle findings: %d)" %
                                   (" ".join(r["verdict"])[:200], len(r["findings"]))))
            if c["expect"].startswith("known:") and r["state"] == "violation":
                pass  # a probe failing in a DIFFERENT way is a plain violation (already recorded)

        # ---- 4B. predicted port names for the tiny cases ---------------------------------------
        pred_checked, pred_diff = 0, []
        tiny = [c for c in cases if c["cls"] == "tiny-predicted-ports" and results[c["id"]]["state"] == "ok"]
        if tiny:
            lines, spans = [], []
            nsc = 0
            for c in tiny:
                kv = c["kv"]
                start = len(lines)
                lines += ["N -1", f"A {nsc} ent GateryHelperPackage", f"A {nsc} ent {kv.get('top', 'top')}", f"N {nsc}",
                          f"A {nsc + 1} pc default"]
                for r_ in ["pi0", "pi1", "po0", "po1"]:
                    lines.append(f"A {nsc + 1} pin {kv.get(r_, r_)}")
                spans.append((c, start))
                nsc += 2
            pf = OUT / "alloc_predict.txt"
            pf.write_text("\n".join(lines) + "\n")
            rc, m = V.run([driver, "alloc", str(pf)], timeout=600)
            ml = m.splitlines()
            for c, start in spans:
                want_top = ml[start + 2][2:]
                want_ports = [ml[start + 5 + k][2:] for k in range(4)]
                r = results[c["id"]]
                got = None
                for fn, reg, names in r["regions"]:
                    if reg.startswith("architecture ") and reg.split(" ", 1)[1] == want_top:
                        got = names[:4]
                pred_checked += 1
                if got != want_ports:
                    pred_diff.append(dict(case=case_line(c["id"], c["mode"], c["kv"]), model_top=want_top,
                                          model_ports=want_ports, exported_ports=got))
            if pred_diff:
                broken.append("predicted-port tie: exported port names differ from the model's allocation")
    else:
        pred_checked, pred_diff = 0, []

    # ---- 5. search mode -------------------------------------------------------------------------
    search_found = []
    if broken and not violations:
        budget = 60 if tier == "quick" else 600
        ts = time.time()
        scases = []
        impl = impl_keywords()
        if impl is not None:
            missing = [w for w in reserved if w not in impl]
            for k, w in enumerate(missing):
                for j, v in enumerate(variants(w)):
                    scases.append(dict(id=f"s_kw{k}_{j}", mode="S", kv={"shape": "tiny", "pi0": v, "po0": v + "_o"},
                                       cls="search-missing-keyword", expect="ok"))
        for d in alloc_diff:
            # turn the disagreeing allocation into designs: the same names on pins / signals
            nm = d["op"].split()[-1] if d["op"].startswith("A ") else "x"
            prev = [l.split()[-1] for l in d["prefix"] if l.startswith("A ")][-6:]
            for k in range(4):
                pick = (prev + [nm, nm, nm.upper(), nm.lower()])
                scases.append(dict(id=f"s_ad{k}", mode="S",
                                   kv={"shape": "tiny", "pi0": pick[k % len(pick)], "pi1": nm, "po0": nm.upper(), "po1": nm.lower(), "sg0": nm},
                                   cls="search-from-alloc-diff", expect="ok"))
        srng = random.Random(V.seed() + 99)
        fam = ["x", "X", "x_2", "X_2", "Foo", "foo", "FOO", "foo_2", "Foo_2", "a", "A", "a_2", "a_3", "A_2"]
        for k in range(60 if tier == "quick" else 600):
            kv = {r: srng.choice(fam) for r in ["pi0", "pi1", "po0", "po1", "sg0", "sg1", "sg2", "sg3", "rg0", "ent0", "ent1", "top"]}
            kv["shape"] = srng.choice(["tiny", "full"])
            scases.append(dict(id=f"s_r{k}", mode="S", kv=kv, cls="search-random-collisions", expect="ok"))
        sroot = OUT / "search"
        shutil.rmtree(sroot, ignore_errors=True); sroot.mkdir(parents=True, exist_ok=True)
        cf = sroot / "cases.txt"
        cf.write_text("\n".join(case_line(c["id"], c["mode"], c["kv"]) for c in scases) + "\n")
        rc, out = V.run([harness, "design", str(cf), str(sroot)], timeout=budget)
        for c in scases:
            if time.time() - ts > budget:
                break
            d = sroot / c["id"]
            if not d.exists():
                continue
            findings, regions, units = oracle_case(d, reserved)   # the ORACLE judges, not the Coq model
            if findings:
                search_found.append((c, dict(findings=findings, verdict=("oracle", ""), regions=regions)))
                if len(search_found) >= 3:
                    break

    # ---- report ---------------------------------------------------------------------------------
    for c, r, what in violations[:10]:
        rep.violation(replay_obj(c, r, what + ((" ; additionally broken: " + " | ".join(broken)) if broken else "")), tag="design")
    if broken and not violations:
        if search_found:
            for c, r in search_found[:3]:
                rep.violation(replay_obj(c, r, "search mode found a failing design after: " + " | ".join(broken)), tag="search")
        else:
            rep.violation(dict(property="C13", kind="obligation", what_broke=broken,
                               alloc_disagreement=alloc_diff[:2], predicted_port_disagreement=pred_diff[:2],
                               coq_log=res.get("log", "")[-1500:],
                               how_to_replay="python3 checks/C13.py  (proof / tie must be re-established)"),
                          nofail=True, tag="obligation")
    for tok, n in known_hits.items():
        text = next((k for k in known if tok in k), None)
        if text is None:
            # a still-failing probe that is not (any more) listed as known is a violation
            c = next(c for c in cases if results[c["id"]].get("token") == tok)
            rep.violation(replay_obj(c, results[c["id"]], f"probe for '{tok}' fails and KNOWN_FINDINGS.txt has no known: line for it"), tag="design")
        else:
            rep.known(text + f"  [{n} probe case(s) still fail]")

    ncases = len([c for c in cases if c["id"] in results])
    rep.cov["evaluations"] = alloc_lines + ncases + pred_checked
    rep.cov["distinct_nontrivial"] = len(nontrivial)
    rep.cov["rule"] = ("design cases (distinct name assignment x export mode) in which the exporter had to change at least one "
                       "requested name (reserved word, case-insensitive clash, clash with a generated name) and the "
                       "exported files were accepted by the verified checker AND the independent oracle")
    rep.cov["samples"] = samples
    rep.cov["traces_validated_against_impl"] = alloc_lines + pred_checked
    rep.cov["alloc_tie"] = dict(op_lines_compared=alloc_lines, disagreements=len(alloc_diff), op_histogram=alloc_hist)
    rep.cov["predicted_port_tie"] = dict(cases=pred_checked, disagreements=len(pred_diff))
    rep.cov["design_cases"] = dict(total=ncases, by_class=hist_cls, by_state=hist_state,
                                   reserved_words=len(reserved), name_variants=3,
                                   roles_reached={k: role_cov.get(k, 0) for k in ROLES if k != "clk2"})
    rep.cov["checker_totals"] = stats_sum
    rep.cov["suspicious_hiding"] = sorted(hides)[:40]
    rep.cov["shadowing_inner_hides_outer"] = sorted(shadows)[:40]
    rep.cov["declared_before_use_positions"] = dict(
        verified_checker_scanner=[
            "assignment targets (signal <= and variable :=) and their index expressions",
            "EVERY identifier token on the right-hand side of signal and variable assignments (any nesting, function "
            "arguments, type conversions, concatenations, aggregates)",
            "IF / ELSIF conditions, CASE selectors, WHEN choices, ASSERT / REPORT / RETURN expressions",
            "explicit sensitivity lists; clock and reset names in rising_edge/falling_edge/'event tests (they are conditions)",
            "port-map actuals (all identifiers of the actual expression); port-map formals against the port list of the "
            "instantiated entity when that entity is part of the export",
            "type indications and initial values of SIGNAL/CONSTANT/VARIABLE declarations, TYPE/SUBTYPE definitions, "
            "attribute specifications (attribute name and decorated object)",
            "an identifier resolves if it is declared in an open region (innermost first), exported by a package of the "
            "export, or in the fixed list `predefined` (IEEE std_logic_1164/numeric_std names, library names); an object "
            "name that resolves to a process/block/instance LABEL is an error",
        ],
        not_covered=[
            "selected-name suffixes (after '.') and attribute designators (after ')",
            "generic maps (skipped), port-map formals of entities outside the export, function bodies of GateryHelperPackage",
            "overload / type resolution: a name that is declared but of the wrong kind is only detected for assignment "
            "targets (class vs operator) and labels",
        ],
        python_oracle=[
            "assignment targets, explicit sensitivity lists, rising_edge/falling_edge arguments, IF (name = '.') tests",
            "every identifier token of every statement line of architecture / process / block statement parts and of "
            "port-map actuals (string and character literals removed, '.' suffixes and attribute names skipped): must be a "
            "reserved word, in the oracle's own package-name list, or declared in an open region",
        ])
    rep.cov["design_unit_order"] = dict(
        rule="a direct instantiation `entity work.X` requires ENTITY X to be declared earlier in the same file or in a file "
             "that precedes it in the generated project script (project.txt, 'source files in dependency order'); an "
             "ARCHITECTURE requires its ENTITY earlier; packages are analysed first",
        checked_by=["verified-checker scanner (files are handed over in project-script order; executable check, no theorem)",
                    "python oracle (oracle_unit_order), which also reports files missing from a multi-file script"],
        output_modes="S = single file (destination with extension), E = FILE_PER_ENTITY, P = FILE_PER_PARTITION; AUTO equals S or E; "
                     "every case writes project.txt through VHDLExport::writeProjectFile",
        note="in FILE_PER_PARTITION mode the script still lists one file per entity; names of files that were not written are ignored")
    rep.cov["translator"] = tout.strip()
    rep.cov["broken"] = broken
    rep.cov["wall_s_total"] = round(time.time() - t0, 1)
    rep.finish()


def replay(path):
    obj = json.loads(Path(path).read_text())
    reserved = reserved_words()
    V.build_gatery()
    harness = V.build_harness("C13_names")
    rc, tout = V.run([sys.executable, str(V.VERIF / "translate" / "C13_keywords.py"), str(V.REPO),
                      str(V.COQ / "Gatery" / "gen" / "Keywords.v")], timeout=60)
    if obj.get("kind") != "design":
        print("replay: obligation-level replay -> run the whole check"); return main()
    p = obj["case"].split()
    c = dict(id=p[1], mode=p[2], kv=dict(t.split("=", 1) for t in p[3:]), cls="replay", expect="ok")
    V.check_properties(CID)
    driver = V.build_model(CID)
    root, status, verdict = run_cases(harness, driver, [c], "replay")
    r = classify(c, root, status, verdict, reserved)
    print("replay:", c["id"], r["state"], " ".join(r.get("verdict", ("", ""))), json.dumps(r.get("findings", [])[:5]))
    sys.exit(0 if r["state"] == "ok" else 1)


if __name__ == "__main__":
    if "--replay" in sys.argv:
        replay(sys.argv[sys.argv.index("--replay") + 1])
    else:
        main()
