"""Wide-signal half of the C01 check (called by checks/C01.py).

The verified certificate (Properties_C01.v) closes all stimuli and cycles for the small designs of lib/designgen.py.
The simulator's bit vectors are stored in 64-bit words, and several optimisations (Node_Rewire::optimize via
sim::allZero / allOne, constant folding, mergeRewires) take a different code path for vectors that span whole words
plus a partial top word.  Designs with such signals (lib/widegen.py, 64..400 bits) are beyond the certificate's
state budget; they are decided here by
  * the tie: the Coq model (NetDefs cycle semantics, extracted) re-computes every dumped netlist's trace, and
  * the differential oracle on the REAL simulator: constructed vs default / minimal post-processing under the same
    stimuli - a pin bit defined in the constructed circuit must keep its value, and no defined bits may contradict.
This is sampling of stimuli (no theorem closes them for these designs); it is reported as such in the evidence."""
import os, sys, json
sys.path.insert(0, os.path.join(os.path.dirname(os.path.abspath(__file__)), "..", "lib"))
import vcommon as V, circ, designgen as G, widegen


def refine_diff(pre, post):
    """first cycle/pin where a bit DEFINED in the constructed circuit has another value (or is undefined) after post-processing"""
    if [n for n, _ in pre["pins_out"]] != [n for n, _ in post["pins_out"]]:
        return dict(kind="pin-set differs", pre=pre["pins_out"], post=post["pins_out"])
    for c, ((_, oa, _), (_, ob, _)) in enumerate(zip(pre["cycles"], post["cycles"])):
        for k, (a, b) in enumerate(zip(oa, ob)):
            if len(a) != len(b):
                return dict(kind="width differs", cycle=c, pin=pre["pins_out"][k][0], pre=a, post=b)
            for j, (x, y) in enumerate(zip(a, b)):
                if x in "01" and y != x:
                    return dict(kind="bit defined in the constructed circuit changed by post-processing", cycle=c, pin=pre["pins_out"][k][0],
                                bit_from_msb=j, pre=a, post=b)
    return None


def run(rep, driver, replay=None):
    work = V.BUILD / "work" / "C01w"
    if work.exists():
        for f in work.glob("*"):
            if f.is_file(): f.unlink()
    work.mkdir(parents=True, exist_ok=True)
    harness = V.build_harness("C01_design")
    n = 80 if rep.tier == "quick" else 1200
    designs = []
    if replay is not None:
        designs, n = [(replay, ["replay"])], 0
    import glob
    for f in sorted(glob.glob(str(V.VERIF / "corpus" / "C01" / "*.wide"))):
        designs.append(([l.rstrip("\n") for l in open(f) if l.strip()], ["corpus"]))
    for i in range(n):
        designs.append(widegen.gen_wide_design(rep.seed * 700001 + 13 + i, f"w{i}"))
    ids = [d[0][0].split()[1] for d in designs]
    prog = {i: d[0] for i, d in zip(ids, designs)}
    G.write_programs(work / "designs.txt", [d[0] for d in designs])
    circ.run_harness(harness, str(work / "designs.txt"), str(work), "pre,def,min", nstim=3, cycles=6)
    lines = []
    if driver:
        cmds = [f"tie {work}/{i}.{v}.net {work}/{i}.{v}.trace" for i in ids for v in ("pre", "def", "min")]
        lines = circ.run_driver(driver, cmds, str(work / "batch"))
    tie_ok = sum(1 for l in lines if l.startswith("TIE") and " ok " in l)
    tie_bad = [l for l in lines if l.startswith("TIE") and "MISMATCH" in l]
    tie_uns = [l for l in lines if l.startswith("TIE") and ("UNSUPPORTED" in l or "BADORDER" in l)]
    viol, skipped, compared, bits = [], 0, 0, 0
    feat = {}
    for (d, fs), i in zip(designs, ids):
        tp = circ.parse_traces(work / f"{i}.pre.trace")
        if "SKIP" in tp or not tp:
            skipped += 1
            continue
        for f in fs: feat[f] = feat.get(f, 0) + 1
        for v in ("def", "min"):
            tq = circ.parse_traces(work / f"{i}.{v}.trace")
            if "SKIP" in tq:
                viol.append(dict(property="C01", kind="post-processing threw on a wide design", variant=v, program=d, message=tq["SKIP"]))
                continue
            for tag, x in tp.items():
                y = tq.get(tag.replace(f"{i}.pre", f"{i}.{v}"))
                if y is None: continue
                compared += 1
                bits += sum(sum(1 for ch in o if ch in "01") for _, outs, _ in x["cycles"] for o in outs)
                dd = refine_diff(x, y)
                if dd:
                    viol.append(dict(property="C01", kind="wide design: real simulator shows different pin values before and after post-processing",
                                     variant=v, program=d, stimulus=circ.stim_of(x), real_simulator=dd))
                    break
    rep.cov["wide_signals"] = dict(designs=len(designs) - skipped, skipped=skipped, trace_pairs_compared=compared, defined_pin_bits_compared=bits,
                                   traces_validated_against_model=tie_ok, tie_unsupported=len(tie_uns), feature_histogram=feat,
                                   note="64..400-bit signals; decided by the tie and the real-simulator differential (sampled stimuli), no certificate",
                                   sample=designs[-1][0] if designs else None)
    broken = []
    if tie_bad:
        broken.append(f"wide designs: {len(tie_bad)} tie mismatches, first: {tie_bad[0][:300]}")
    seen = set()
    out = []
    for v in viol:
        k = v["program"][0]
        if k in seen or len(out) >= 4: continue
        seen.add(k); out.append(v)
    return out, broken
