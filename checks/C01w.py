"""Wide-signal half of the C01 check (called by checks/C01.py).

The verified certificate (Properties_C01.v) closes all stimuli and cycles for the small designs of lib/designgen.py.
The simulator's bit vectors are stored in 64-bit words, and several optimisations (Node_Rewire::optimize via
sim::allZero / allOne, constant folding, mergeRewires) take a different code path for vectors that span whole words
plus a partial top word.  Designs with such signals (lib/widegen.py, 64..400 bits) are beyond the certificate's
state budget; they are decided here by
  * the tie: the Coq model (NetDefs cycle semantics, extracted) re-computes every dumped netlist's trace, and
  * the differential oracle on the REAL simulator: constructed vs default / minimal post-processing under the same
    stimuli - a pin bit defined in the constructed circuit must keep its value, and no defined bits may contradict.
This is sampling of stimuli (no theorem closes them for these designs); it is reported as such in the evidence."""
import os, sys, json
sys.path.insert(0, os.path.join(os.path.dirname(os.path.abspath(__file__)), "..", "lib"))
import vcommon as V, circ, designgen as G, widegen


CERT_BUDGET = 400000


def refine_diff(pre, post):
    """first cycle/pin where a bit DEFINED in the constructed circuit has another value (or is undefined) after post-processing"""
    if [n for n, _ in pre["pins_out"]] != [n for n, _ in post["pins_out"]]:
        return dict(kind="pin-set differs", pre=pre["pins_out"], post=post["pins_out"])
    for c, ((_, oa, _), (_, ob, _)) in enumerate(zip(pre["cycles"], post["cycles"])):
        for k, (a, b) in enumerate(zip(oa, ob)):
            if len(a) != len(b):
                return dict(kind="width differs", cycle=c, pin=pre["pins_out"][k][0], pre=a, post=b)
            for j, (x, y) in enumerate(zip(a, b)):
                if x in "01" and y != x:
                    return dict(kind="bit defined in the constructed circuit changed by post-processing", cycle=c, pin=pre["pins_out"][k][0],
                                bit_from_msb=j, pre=a, post=b)
    return None


def run(rep, driver, replay=None):
    work = V.BUILD / "work" / "C01w"
    if work.exists():
        for f in work.glob("*"):
            if f.is_file(): f.unlink()
    work.mkdir(parents=True, exist_ok=True)
    harness = V.build_harness("C01_design")
    n = 80 if rep.tier == "quick" else 1200
    designs = []
    if replay is not None:
        designs, n = [(replay, ["replay"])], 0
    import glob
    for f in sorted(glob.glob(str(V.VERIF / "corpus" / "C01" / "*.wide"))):
        designs.append(([l.rstrip("\n") for l in open(f) if l.strip()], ["corpus"]))
    for i in range(n):
        designs.append(widegen.gen_wide_design(rep.seed * 700001 + 13 + i, f"w{i}"))
    ids = [d[0][0].split()[1] for d in designs]
    prog = {i: d[0] for i, d in zip(ids, designs)}
    G.write_programs(work / "designs.txt", [d[0] for d in designs])
    circ.run_harness(harness, str(work / "designs.txt"), str(work), "pre,def,min", nstim=3, cycles=6)
    lines = []
    def in_bits(d):
        return sum(1 if l.startswith("inb ") else int(l.split()[2]) for l in d if l.startswith(("in ", "inb ")))
    certable = [i for i in ids if 3 ** in_bits(prog[i]) <= (729 if rep.tier == "quick" else 2187)]
    if driver:
        cmds = [f"tie {work}/{i}.{v}.net {work}/{i}.{v}.trace" for i in ids for v in ("pre", "def", "min")]
        # few input bits: the VERIFIED certificate (Properties_C01.v) closes all stimuli and cycles for these wide designs too
        cmds += [f"cert refine {work}/{i}.pre.net {work}/{i}.{v}.net {work}/{i}.pre.trace {CERT_BUDGET}" for i in certable for v in ("def", "min")]
        lines = circ.run_driver(driver, cmds, str(work / "batch"))
    cert = [l for l in lines if l.startswith("CERT")]
    cert_fail = [l for l in cert if " FAIL " in l]
    cert_rej = [l for l in cert if " REJECTED " in l]
    tie_ok = sum(1 for l in lines if l.startswith("TIE") and " ok " in l)
    tie_bad = [l for l in lines if l.startswith("TIE") and "MISMATCH" in l]
    tie_uns = [l for l in lines if l.startswith("TIE") and ("UNSUPPORTED" in l or "BADORDER" in l)]
    viol, skipped, compared, bits = [], 0, 0, 0
    feat = {}
    for (d, fs), i in zip(designs, ids):
        tp = circ.parse_traces(work / f"{i}.pre.trace")
        if "SKIP" in tp or not tp:
            skipped += 1
            continue
        for f in fs: feat[f] = feat.get(f, 0) + 1
        for v in ("def", "min"):
            tq = circ.parse_traces(work / f"{i}.{v}.trace")
            if "SKIP" in tq:
                viol.append(dict(property="C01", kind="post-processing threw on a wide design", variant=v, program=d, message=tq["SKIP"]))
                continue
            for tag, x in tp.items():
                y = tq.get(tag.replace(f"{i}.pre", f"{i}.{v}"))
                if y is None: continue
                compared += 1
                bits += sum(sum(1 for ch in o if ch in "01") for _, outs, _ in x["cycles"] for o in outs)
                dd = refine_diff(x, y)
                if dd:
                    viol.append(dict(property="C01", kind="wide design: real simulator shows different pin values before and after post-processing",
                                     variant=v, program=d, stimulus=circ.stim_of(x), real_simulator=dd))
                    break
    # counterexamples of the certificate search: replay on the real simulator
    unconfirmed = []
    for l in cert_fail:
        p = l.split()
        i, v = p[1].split("/")[-1].rsplit(".", 2)[0], p[2].split("/")[-1].rsplit(".", 2)[1]
        m = [x for x in p if x.startswith("stimulus=")]
        if any(vv["program"][0] == prog[i][0] for vv in viol):
            continue
        if not m:
            unconfirmed.append(l); continue
        cex = work / "cex"; cex.mkdir(exist_ok=True)
        G.write_programs(cex / "designs.txt", [prog[i]])
        open(cex / "stim.txt", "w").write(f"{i} {m[0][len('stimulus='):]}\n")
        circ.run_harness(harness, str(cex / "designs.txt"), str(cex), f"pre,{v}", replay_stim=str(cex / "stim.txt"))
        a = circ.parse_traces(cex / f"{i}.pre.trace").get(f"{i}.pre replay")
        b = circ.parse_traces(cex / f"{i}.{v}.trace").get(f"{i}.{v} replay")
        real = circ.direct_diff(a, b) if a and b else None
        if real is None and a and b and "clean=true" in l and a["cycles"][-1][1] != b["cycles"][-1][1]:
            real = dict(kind="pre run free of undefined values but post differs", cycle=len(a["cycles"]) - 1, pre=a["cycles"][-1][1], post=b["cycles"][-1][1])
        if real:
            viol.append(dict(property="C01", kind="wide design: post-processed circuit differs from the constructed circuit (product BFS, confirmed on the real simulator)",
                             variant=v, program=prog[i], stimulus=m[0][len("stimulus="):], real_simulator=real, model=l))
        else:
            unconfirmed.append(l)
    rep.cov["wide_signals"] = dict(certificates_accepted=sum(1 for l in cert if " OK " in l), certificates_failed=len(cert_fail), certificates_too_big=sum(1 for l in cert if " TOOBIG " in l),
                                   certificates_unsupported=sum(1 for l in cert if " UNSUPPORTED " in l), designs_with_certificate_attempt=len(certable),
                                   designs=len(designs) - skipped, skipped=skipped, trace_pairs_compared=compared, defined_pin_bits_compared=bits,
                                   traces_validated_against_model=tie_ok, tie_unsupported=len(tie_uns), feature_histogram=feat,
                                   note="64..400-bit signals; tie for all; verified certificate (all stimuli, all cycles) where the design has few input bits; real-simulator differential (sampled stimuli) for all",
                                   sample=designs[-1][0] if designs else None)
    broken = []
    if cert_rej:
        broken.append(f"wide designs: {len(cert_rej)} certificates rejected by the verified checker, first: {cert_rej[0][:300]}")
    if unconfirmed:
        broken.append(f"wide designs: {len(unconfirmed)} model counterexamples not reproduced on the real simulator, first: {unconfirmed[0][:300]}")
    if tie_bad:
        broken.append(f"wide designs: {len(tie_bad)} tie mismatches, first: {tie_bad[0][:300]}")
    seen = set()
    out = []
    for v in viol:
        k = v["program"][0]
        if k in seen or len(out) >= 4: continue
        seen.add(k); out.append(v)
    return out, broken
