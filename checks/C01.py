#!/usr/bin/env python3
"""C01 — Postprocessing (default and minimal) preserves observable circuit behaviour.

proof:   ProductCert.v / Properties_C01.v: soundness of the product-reachability certificate checker
         for ALL stimuli and ALL cycles (per validated design pair)
tie:     NetDefs cycle semantics on the dumped netlists vs the real ReferenceSimulator traces
         (pre, default-post, minimal-post), same stimuli
search:  counterexample stimulus of the product BFS replayed on the real simulator; independent
         direct differential of the real pre/post traces
"""
import sys, os, json, time, glob
sys.path.insert(0, os.path.join(os.path.dirname(os.path.abspath(__file__)), "..", "lib"))
import vcommon as V, circ, designgen as G

CID = "C01"
WORK = V.BUILD / "work" / CID
BUDGET = 4000000


def load_corpus():
    ds = []
    for f in sorted(glob.glob(str(V.VERIF / "corpus" / CID / "*.prog"))):
        ds.append(([l.rstrip("\n") for l in open(f) if l.strip()], ["corpus"]))
    return ds


def main():
    rep = V.Report(CID, "proof")
    V.build_gatery()
    harness = V.build_harness("C01_design")
    driver = V.build_model(CID)
    if "--build-only" in sys.argv:
        sys.exit(0)
    res = V.check_properties(CID)
    rep.add_proof(res)
    forb = V.scan_forbidden()
    known, _ = V.known_findings(CID)

    ndes = 120 if rep.tier == "quick" else 1500
    designs = load_corpus()
    if "--replay" in sys.argv:
        r = json.loads(open(sys.argv[sys.argv.index("--replay") + 1]).read())
        if "program" in r:
            designs = [(r["program"], ["replay"])]
            ndes = 0
    for i in range(ndes):
        lines, used = G.gen_design(rep.seed * 100003 + i, f"g{i}", extra_templates=("t_xovr", "t_edges", "t_attached_reset"))
        designs.append((lines, used))
    ids = [d[0][0].split()[1] for d in designs]
    prog = {i: d[0] for i, d in zip(ids, designs)}
    used = {i: d[1] for i, d in zip(ids, designs)}

    out = WORK / "run"
    if out.exists():
        for f in out.glob("*"):
            f.unlink()
    out.mkdir(parents=True, exist_ok=True)
    G.write_programs(out / "designs.txt", [d[0] for d in designs])
    circ.run_harness(harness, str(out / "designs.txt"), str(out), "pre,def,min", nstim=3, cycles=10)

    # ---- model runs: tie + verified certificate ----
    lines = []
    if driver:
        cmds = []
        for i in ids:
            for v in ("pre", "def", "min"):
                cmds.append(f"tie {out}/{i}.{v}.net {out}/{i}.{v}.trace")
            for v in ("def", "min"):
                cmds.append(f"cert refine {out}/{i}.pre.net {out}/{i}.{v}.net {out}/{i}.pre.trace {BUDGET}")
        lines = circ.run_driver(driver, cmds, str(WORK / "batch"))
    tie_ok = sum(1 for l in lines if l.startswith("TIE") and " ok " in l)
    tie_bad = [l for l in lines if l.startswith("TIE") and "MISMATCH" in l]
    tie_uns = [l for l in lines if l.startswith("TIE") and ("UNSUPPORTED" in l or "BADORDER" in l)]
    cert = [l for l in lines if l.startswith("CERT")]
    cert_ok = [l for l in cert if " OK " in l]
    cert_fail = [l for l in cert if " FAIL " in l]
    cert_rej = [l for l in cert if " REJECTED " in l]
    cert_big = [l for l in cert if " TOOBIG " in l]
    cert_uns = [l for l in cert if " UNSUPPORTED " in l]
    errors = [l for l in lines if l.startswith("ERROR")]

    # ---- independent oracle: direct differential of the real traces ----
    direct = []
    skipped = 0
    shrunk = {}
    for i in ids:
        tp = circ.parse_traces(out / f"{i}.pre.trace")
        if "SKIP" in tp:
            skipped += 1
            continue
        for v in ("def", "min"):
            tq = circ.parse_traces(out / f"{i}.{v}.trace")
            if "SKIP" in tq:
                direct.append((i, v, dict(kind="post-processing threw although construction succeeded", msg=tq["SKIP"]), None))
                continue
            for tag, a in tp.items():
                b = tq.get(tag.replace(f"{i}.pre", f"{i}.{v}"))
                if b is None:
                    continue
                d = circ.direct_diff(a, b)
                if d:
                    direct.append((i, v, d, circ.stim_of(a)))
                    break

    # ---- confirm certificate counterexamples on the real simulator ----
    confirmed, unconfirmed = [], []
    if cert_fail:
        stimf = WORK / "cex_stim.txt"
        todo = {}
        for l in cert_fail:
            p = l.split()
            i, v = p[1].rsplit(".", 2)[0], p[2].rsplit(".", 2)[1]
            m = [x for x in p if x.startswith("stimulus=")]
            if m:
                todo[(i, v)] = (m[0][len("stimulus="):], l)
        if todo:
            cex_dir = WORK / "cex"
            cex_dir.mkdir(exist_ok=True)
            G.write_programs(cex_dir / "designs.txt", [prog[i] for i in sorted({k[0] for k in todo})])
            # one stimulus per design per harness run; run per (design, variant)
            for (i, v), (stim, l) in todo.items():
                open(stimf, "w").write(f"{i} {stim}\n")
                circ.run_harness(harness, str(cex_dir / "designs.txt"), str(cex_dir), f"pre,{v}", replay_stim=str(stimf))
                a = circ.parse_traces(cex_dir / f"{i}.pre.trace").get(f"{i}.pre replay")
                b = circ.parse_traces(cex_dir / f"{i}.{v}.trace").get(f"{i}.{v} replay")
                clean = "clean=true" in l
                real = None
                if a and b:
                    real = circ.direct_diff(a, b)
                    if real is None and clean and a["cycles"][-1][1] != b["cycles"][-1][1]:
                        real = dict(kind="pre run free of undefined values but post differs", cycle=len(a["cycles"]) - 1,
                                    pre=a["cycles"][-1][1], post=b["cycles"][-1][1])
                (confirmed if real else unconfirmed).append((i, v, stim, l, real))

    # ---- evidence ----
    nval = len(cert_ok)
    rep.cov["evaluations"] = len(cert)
    sizes = sorted({(l.split()[1], l.split()[4], l.split()[5]) for l in cert_ok})
    rep.cov["distinct_nontrivial"] = len({l.split()[1] for l in cert_ok if int(l.split()[4].split("=")[1]) > 3})
    rep.cov["rule"] = ("seeded shape-directed design programs (lib/designgen.py; templates: if/elif/else chains, comparison mux chains, "
                       "mux merge with equal/negated/De-Morgan conditions through named signals, no-op logic/rewires, registers with/without "
                       "reset and enable, hold loops/counters, constant folding, constant registers, areas/entities, dropped frontend handles) "
                       "+ corpus; each validated pre->default and pre->minimal; non-trivial = design whose certificate has more than 3 product "
                       "states (i.e. it has state beyond the reset prefix)")
    rep.cov["programs"] = len(ids) - skipped
    rep.cov["traces_validated_against_impl"] = tie_ok
    rep.cov["certificates_accepted"] = nval
    rep.cov["certificates_failed"] = len(cert_fail)
    rep.cov["certificates_rejected_by_checker"] = len(cert_rej)
    rep.cov["too_big"] = len(cert_big)
    rep.cov["unsupported"] = len(cert_uns)
    rep.cov["tie_mismatch"] = len(tie_bad)
    rep.cov["tie_unsupported"] = len(tie_uns)
    rep.cov["skipped_construction"] = skipped
    th = {}
    for i in ids:
        for t in used[i]:
            th[t] = th.get(t, 0) + 1
    rep.cov["template_histogram"] = th
    rep.cov["samples"] = [dict(design=prog[ids[-1]], cert=[l for l in cert if l.split()[1].startswith(ids[-1] + ".")])]
    rep.cov["product_state_counts"] = sorted(int(l.split()[4].split("=")[1]) for l in cert_ok)[-10:]
    rep.assumptions += [
        "netlist semantics NetDefs.v/NodeSemDefs.v are a hand model of the reference simulator, tied by per-cycle trace comparison on every generated design (pre, default, minimal)",
        "the live cone of the dump (what can influence a pin or register) is the modelled circuit; single clock, rising edge; reset schedule taken from the real simulator's event log",
        "designs are sampled by the generator; the theorem closes the stimulus and cycle quantifiers for each validated design pair",
        "designs whose input/state space exceeds the enumeration budget or that contain unsupported nodes are counted, not validated",
    ]

    broken = []
    if not res["ok"]:
        broken.append("proof obligations failed: " + ", ".join(res["failed"]) + " | " + res["log"][-600:])
    if forb:
        broken.append("forbidden constructs: " + "; ".join(forb[:5]))
    if driver is None:
        broken.append("extracted model no longer builds: " + V.last_model_log[-600:])
    if tie_bad:
        broken.append(f"{len(tie_bad)} tie mismatches (model vs real simulator), first: {tie_bad[0][:300]}")
    if cert_rej:
        broken.append(f"{len(cert_rej)} certificates rejected by the verified checker, first: {cert_rej[0][:300]}")
    if errors:
        broken.append(f"driver errors: {errors[0][:300]}")
    if unconfirmed:
        broken.append(f"{len(unconfirmed)} model counterexamples not reproduced on the real simulator, first: {unconfirmed[0][3][:300]}")

    import C01w
    wrep = None
    if "--replay" in sys.argv and ndes == 0 and "wide" in r.get("kind", ""):
        wrep = r["program"]
    wviol, wbroken = C01w.run(rep, driver, replay=wrep)
    broken += wbroken

    def is_known(desc):
        return any(k.split()[0] in desc for k in known)

    seen = set()
    for i, v, stim, l, real in confirmed:
        if (i, v) in seen or len(seen) >= 6:
            continue
        seen.add((i, v))
        desc = f"{i} {v}"
        if is_known(desc):
            rep.known(desc); continue
        rep.violation(dict(property=CID, kind="post-processed circuit differs from the constructed circuit (found by product BFS, confirmed on the real simulator)",
                           variant=v, program=prog[i], stimulus=stim, real_simulator=real, model=l, broken=broken), tag="cex")
    for i, v, d, stim in direct:
        if (i, v) in seen or len(seen) >= 6:
            continue
        seen.add((i, v))
        if is_known(f"{i} {v}"):
            rep.known(f"{i} {v}"); continue
        rep.violation(dict(property=CID, kind="real simulator traces of constructed vs post-processed circuit differ", variant=v,
                           program=prog[i], stimulus=stim, real_simulator=d, broken=broken), tag="diff")
    for v in wviol:
        rep.violation(dict(broken=broken, **v), tag="wide")
    if broken and not rep.violations:
        rep.violation(dict(property=CID, kind="proof, tie or certificate broken; no failing input found", broken=broken), nofail=True, tag="tie")
    rep.finish()


if __name__ == "__main__":
    main()
