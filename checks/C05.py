#!/usr/bin/env python3
"""C05 -- conditional scopes and assignments have sequential-program semantics.

proof:   coq/Gatery/Frontend*.v, Properties_C05.v: elab_correct (all programs, all inputs)
tie:     harness/C05_cond.cpp interprets generated program ASTs with the REAL frontend objects
         (ConditionalScope constructors of the IF/ELSE/ELSEIF macros, UInt/Bit, slices), simulates
         the circuit un-postprocessed (IR) and postprocessed (IP); ocaml/C05_driver.ml prints the
         extracted run_prog (MS) and elab_prog+eval_all (ME) for the same programs and inputs.
         Compared: IR == ME (every bit, dead reads included), IR [= IP, ME|live == MS, impl == OR.
search:  the harness's own plain-integer execution of the AST (OR) against the simulated circuit.
"""
import sys, os, json, random, hashlib, time, subprocess, copy
from concurrent.futures import ThreadPoolExecutor
sys.path.insert(0, os.path.join(os.path.dirname(os.path.abspath(__file__)), "..", "lib"))
import vcommon as V

CID = "C05"
WORK = V.BUILD / "work" / CID

# --------------------------------------------------------------------------
# program generator (typed: 'b' = Bit, ('u', w) = UInt of w bits)
# --------------------------------------------------------------------------

class Gen:
    def __init__(self, rng, max_depth, max_chain, budget):
        self.rng = rng
        self.max_depth, self.max_chain, self.budget = max_depth, max_chain, budget
        self.pins = []          # (kind, width)
        self.vars = []          # visible variables, innermost last: (id, kind, width)
        self.next_var = 0
        self.next_tmp = 0
        self.pending = []       # index variables used in a dynamic access: re-assign them later
        self.with_defaults = rng.random() < 0.35    # such programs can only be observed postprocessed
        self.next_dflt = 0
        self.pending_over = []  # (vid, depth) of defaulted variables: overwrite some unconditionally later
        self.dflt_vars = set()
        self.acc = {}           # accessor spelling | kind of object it is applied to | read/write -> count
        self.stats = dict(depth=0, chain=0, inner_decl=0, dyn=0, nested_path=0, shadow=0, xconst=0, stmts=0, else_if_space=0, var_index=0, index_reassigned=0, dyn_read=0, defaults=0, default_overwritten=0)

    def visible(self):
        """variables by C++ name lookup: an inner redeclaration hides the outer one"""
        seen, out = set(), []
        for v in reversed(self.vars):
            if v[0] not in seen:
                seen.add(v[0]); out.append(v)
        return out

    # ---- expressions
    def const(self, w):
        r = self.rng
        if r.random() < 0.03:
            self.stats["xconst"] += 1
            return "".join(r.choice("01x") for _ in range(w))
        return "".join(r.choice("01") for _ in range(w))

    def idxexpr(self, iw):
        """index of a dynamic access: preferably a mutable declared variable (re-assigned later)"""
        r = self.rng
        # (a defaulted variable is not used as a bare index: the alias keeps a RefCtdNodePort to the
        #  Node_Default, which then survives postprocessing and cannot be simulated -- reported finding)
        cands = [vid for (vid, k, vw) in self.visible() if k == "u" and vw == iw and vid not in self.dflt_vars]
        if cands and r.random() < 0.6:
            vid = r.choice(cands)
            self.pending.append(vid); self.stats["var_index"] += 1
            return "s %d" % vid
        e = self.uexpr(iw, 1)
        t = e.split()
        if len(t) == 2 and t[0] == "s" and int(t[1]) in self.dflt_vars:
            e = "or %s %s" % (e, e)
        return e

    def dynread_u(self, w):
        """UInt of width w read through a dynamic slice / part, or None"""
        r = self.rng
        bases = [("in %d" % i, pw) for i, (k, pw) in enumerate(self.pins) if k == "u" and pw >= w]
        bases += [("s %d" % vid, vw) for (vid, k, vw) in self.visible() if k == "u" and vw >= w]
        if not bases:
            return None
        e, pw = r.choice(bases)
        self.stats["dyn_read"] += 1
        if pw % w == 0 and pw // w <= 4 and r.random() < 0.4:
            return "dpart %d %d %s %s" % (pw // w, pw, e, self.idxexpr(r.choice([1, 2])))
        iw = r.choice([1, 2, 3])
        return "dsl %d %d %s %s" % (iw, w, e, self.idxexpr(iw))

    def uexpr(self, w, d):
        r = self.rng
        opts = []
        srcs = [("in %d" % i) for i, (k, pw) in enumerate(self.pins) if k == "u" and pw == w]
        srcs += [("s %d" % vid) for (vid, k, vw) in self.visible() if k == "u" and vw == w]
        wide = [("in %d" % i, pw) for i, (k, pw) in enumerate(self.pins) if k == "u" and pw > w]
        wide += [("s %d" % vid, vw) for (vid, k, vw) in self.visible() if k == "u" and vw > w]
        if d <= 0 or r.random() < 0.35:
            c = r.random()
            if srcs and c < 0.6:
                return r.choice(srcs)
            if wide and c < 0.85:
                e, ww = r.choice(wide)
                return "sl %s %d %d" % (e, r.randint(0, ww - w), w)
            return "cu " + self.const(w)
        op = r.choice(["not", "and", "or", "xor", "add", "add", "sl", "dyn", "acc"])
        if op == "dyn":
            e = self.dynread_u(w) if w <= 8 else None
            return e if e else self.uexpr(w, d - 1)
        if op == "acc":
            e = self.read_access(("u", w))
            return e if e else self.uexpr(w, d - 1)
        if op == "not":
            return "not " + self.uexpr(w, d - 1)
        if op == "sl":
            if wide:
                e, ww = r.choice(wide)
                return "sl %s %d %d" % (e, r.randint(0, ww - w), w)
            return self.uexpr(w, d - 1)
        return "%s %s %s" % (op, self.uexpr(w, d - 1), self.uexpr(w, d - 1))

    def bexpr(self, d):
        r = self.rng
        srcs = [("in %d" % i) for i, (k, pw) in enumerate(self.pins) if k == "b"]
        srcs += [("s %d" % vid) for (vid, k, vw) in self.visible() if k == "b"]
        uw = [(("in %d" % i), pw) for i, (k, pw) in enumerate(self.pins) if k == "u"]
        uw += [(("s %d" % vid), vw) for (vid, k, vw) in self.visible() if k == "u"]
        c = r.random()
        if d <= 0 or c < 0.25:
            c2 = r.random()
            if srcs and c2 < 0.5:
                return r.choice(srcs)
            if uw and c2 < 0.45:
                e, w = r.choice(uw)
                return "bit %s %d" % (e, r.randrange(w))
            if uw and c2 < 0.80:
                e = self.read_access("b")
                if e: return e
            if uw and c2 < 0.92:
                e, w = r.choice(uw)
                iw = r.choice([1, 2, 3]); self.stats["dyn_read"] += 1
                return "dbit %d %d %s %s" % (iw, w, e, self.idxexpr(iw))
            return "cb " + ("x" if r.random() < 0.05 else r.choice("01"))
        if c < 0.65 and uw:
            # comparison with a constant / another expression: the typical IF condition
            e, w = r.choice(uw)
            if w > 3 and r.random() < 0.7:
                ww = r.randint(1, 3)
                off = r.randint(0, w - ww)
                return "eq sl %s %d %d cu %s" % (e, off, ww, self.const(ww))
            if r.random() < 0.7:
                return "eq %s cu %s" % (e, self.const(w))
            return "eq %s %s" % (e, self.uexpr(w, d - 1))
        op = r.choice(["not", "and", "or", "xor"])
        if op == "not":
            return "not " + self.bexpr(d - 1)
        return "%s %s %s" % (op, self.bexpr(d - 1), self.bexpr(d - 1))

    # ---- assignment targets
    # ---- accessor spellings (frontend/BitVector.h): all must mean the same (offset,width) / bit index
    def static_spelling(self, pw, off, w):
        c = ["call", "sel_slice", "sel_range", "sel_range_sz", "call_reduce"]
        if w >= 1: c.append("sel_rangeincl")
        if off + w == pw: c += ["sel_from", "upper", "upper_reduce", "sel_fromneg"]
        if off == 0: c += ["lower", "lower_reduce"]
        if off == 0 and w == pw: c.append("sel_all")
        if off % w == 0: c += ["sel_symbol", "word"]
        if off % w == 0 and pw % w == 0: c += ["part", "parts_idx", "parts_at"]
        # rarely used spellings first so that every one is exercised
        rare = [x for x in c if x not in ("call", "sel_slice", "sel_range", "sel_range_sz", "call_reduce", "sel_rangeincl")]
        return self.rng.choice(rare) if rare and self.rng.random() < 0.6 else self.rng.choice(c)

    def bit_spelling(self, pw, i):
        c = ["index", "index_int", "index_neg", "at", "iter", "riter"]
        if i == 0: c += ["lsb", "lsb", "front"]
        if i == pw - 1: c += ["msb", "msb", "back"]
        return self.rng.choice(c)

    def count_acc(self, name, levels_before, side):
        if not levels_before: kind = "vector"
        else:
            last = levels_before[-1][0]
            kind = {"st": "static-slice", "ds": "dynamic-slice", "dp": "dynamic-part", }[last]
            if len(levels_before) > 1: kind = "nested-" + kind
        key = "%s|%s|%s" % (name, kind, side)
        self.acc[key] = self.acc.get(key, 0) + 1

    def gen_levels(self, w, side, nlevels=None, want=None):
        """access path below a vector of width w: list of level tuples, (kind of result, width).
        want = None: free; ('u', ww): must end as a UInt of width ww (ww <= w); 'b': must end as a Bit"""
        r = self.rng
        lv = []
        n = nlevels if nlevels is not None else r.choice([1, 1, 2, 2, 2, 3])
        minw = want[1] if isinstance(want, tuple) else 1
        def static(ww=None, off=None):
            nonlocal w
            if ww is None:
                ww = r.randint(minw, w)
                # lsb()/msb() of sub-ranges that do NOT start at bit 0: prefer non-zero offsets
                off = r.randint(0, w - ww) if r.random() < 0.3 or w == ww else r.randint(1, w - ww)
            sp = self.static_spelling(w, off, ww)
            self.count_acc(sp, lv, side)
            lv.append(("st", sp, w, off, ww)); w = ww
        for k in range(n):
            last = (k == n - 1)
            c = r.random()
            if last and want == "b":
                c = 0.5 if r.random() < 0.7 else 0.8          # static bit / dynamic bit
            elif last and isinstance(want, tuple):
                if w == want[1] and lv and r.random() < 0.5:
                    break
                static(want[1], r.randint(0, w - want[1])); break
            elif want is not None and not last:
                c = r.choice([0.1, 0.1, 0.1, 0.6, 0.9])          # prefix levels keep a vector
            if c < 0.40:
                static()
            elif c < 0.55:
                i = r.randrange(w)
                if r.random() < 0.5: i = r.choice([0, w - 1])
                sp = self.bit_spelling(w, i)
                self.count_acc(sp, lv, side)
                lv.append(("sb", sp, w, i))
                return lv, "b", 1
            elif c < 0.75:
                iw = [i for i in (1, 2, 3) if (1 << i) <= w]
                if not iw or (isinstance(want, tuple) and min(w, 4) < minw):
                    static()
                else:
                    i = r.choice(iw); ww = r.randint(minw, min(w, 4)) if minw <= min(w, 4) else minw
                    if side == "read" and r.random() < 0.8:
                        # keep most dynamic reads inside the vector (bits beyond it read as undefined)
                        fit = [(a, b) for a in iw for b in range(minw, min(w, 4) + 1) if (1 << a) - 1 + b <= w]
                        if fit: i, ww = r.choice(fit)
                    self.count_acc("dyn_slice", lv, side)
                    lv.append(("ds", i, ww, self.idxexpr(i))); w = ww
                    self.stats["dyn"] += 1
            elif c < 0.87 and (want is None or want == "b") :
                i = r.choice([1, 2, 3])
                if side == "read" and r.random() < 0.8:
                    ok = [a for a in (1, 2, 3) if (1 << a) <= w]
                    if ok: i = r.choice(ok)
                self.count_acc("dyn_index", lv, side)
                lv.append(("db", i, w, self.idxexpr(i)))
                self.stats["dyn"] += 1
                return lv, "b", 1
            else:
                ps = [p for p in (1, 2, 3, 4) if w % p == 0 and w // p >= minw]
                if not ps:
                    static(); continue
                parts = r.choice(ps)
                i = r.choice([1, 2])
                if side == "read" and r.random() < 0.8:
                    pp = [q for q in ps if q in (2, 4)]
                    if pp: parts = r.choice(pp); i = 1 if parts == 2 else 2
                sp = r.choice(["part", "parts_idx", "parts_at"])
                self.count_acc("dyn_" + sp, lv, side)
                lv.append(("dp", sp, parts, w, self.idxexpr(i))); w = w // parts
                self.stats["dyn"] += 1
            if w < 1:
                break
        if want == "b":
            i = r.choice([0, w - 1, r.randrange(w)])
            sp = self.bit_spelling(w, i)
            self.count_acc(sp, lv, side)
            lv.append(("sb", sp, w, i))
            return lv, "b", 1
        if isinstance(want, tuple) and w != want[1]:
            static(want[1], r.randint(0, w - want[1]))
        return lv, "u", w

    @staticmethod
    def levels_to_sels(lv):
        out = []
        for l in lv:
            if l[0] == "st": out.append("sx %s %d %d %d" % (l[1], l[2], l[3], l[4]))
            elif l[0] == "sb": out.append("bx %s %d %d" % (l[1], l[2], l[3]))
            elif l[0] == "ds": out.append("ds %d %d %s" % (l[1], l[2], l[3]))
            elif l[0] == "db": out.append("db %d %d %s" % (l[1], l[2], l[3]))
            elif l[0] == "dp": out.append("dpx %s %d %d %s" % (l[1], l[2], l[3], l[4]))
        return out

    @staticmethod
    def levels_to_expr(base, lv):
        e = base
        for l in lv:
            if l[0] == "st": e = "slx %s %d %s %d %d" % (l[1], l[2], e, l[3], l[4])
            elif l[0] == "sb": e = "bitx %s %d %s %d" % (l[1], l[2], e, l[3])
            elif l[0] == "ds": e = "dsl %d %d %s %s" % (l[1], l[2], e, l[3])
            elif l[0] == "db": e = "dbit %d %d %s %s" % (l[1], l[2], e, l[3])
            elif l[0] == "dp": e = "dpartx %s %d %d %s %s" % (l[1], l[2], l[3], e, l[4])
        return e

    def path(self, w):
        """assignment target below a variable of width w: (list of sel strings, kind of rhs, width of rhs)"""
        lv, k, ww = self.gen_levels(w, "write")
        if len(lv) > 1:
            self.stats["nested_path"] += 1
        return self.levels_to_sels(lv), k, ww

    def read_access(self, want):
        """read through a chain of accessors applied to a variable / pin (aliases of aliases), or None"""
        r = self.rng
        minw = want[1] if isinstance(want, tuple) else 1
        bases = [("in %d" % i, pw) for i, (k, pw) in enumerate(self.pins) if k == "u" and pw >= minw]
        bases += [("s %d" % vid, vw) for (vid, k, vw) in self.visible() if k == "u" and vw >= minw] * 2
        if not bases:
            return None
        e, pw = r.choice(bases)
        lv, k, ww = self.gen_levels(pw, "read", nlevels=r.choice([1, 2, 2, 3]), want=want)
        if any(l[0] in ("ds", "db", "dp") for l in lv):
            self.stats["dyn_read"] += 1
        return self.levels_to_expr(e, lv)

    # ---- statements: nested python lists  ["D", ...] / ["IF", [(cond|None, body)...]]
    def decl(self, depth):
        r = self.rng
        if self.vars and r.random() < 0.06:
            vid = r.choice(self.visible())[0]; self.stats["shadow"] += 1   # shadowing redeclaration
        else:
            vid = self.next_var; self.next_var += 1
        if self.with_defaults and self.next_dflt < 6 and r.random() < 0.45:
            # Bit x = BitDefault(d) / UInt x = UIntDefault(d)
            if r.random() < 0.5: k, w = "b", 1
            else: k, w = "u", r.choice([1, 2, 3, 4, 8])
            d = "".join(r.choice("01") for _ in range(w))
            kk = self.next_dflt; self.next_dflt += 1
            self.vars.append((vid, k, w))
            self.pending_over.append((vid, depth))
            self.dflt_vars.add(vid)
            self.stats["defaults"] += 1
            if depth > 0:
                self.stats["inner_decl"] += 1
            return ["D", "DD %d %s %d %d %s" % (vid, k, w, kk, d)]
        if r.random() < 0.25:
            k, w = "b", 1; e = self.bexpr(2)
        else:
            k = "u"; w = r.choice([1, 2, 2, 3, 3, 4, 4, 5, 6, 8, 8, 8, 11, 12, 16]); e = self.uexpr(w, 2)
        self.vars.append((vid, k, w))
        if depth > 0:
            self.stats["inner_decl"] += 1
        self.note_alias(vid, e)
        return ["D", "D %d %s %d %s" % (vid, k, w, e)]

    def note_alias(self, vid, e):
        """a variable that is a bare copy of a defaulted variable may be driven by the Node_Default itself"""
        t = e.split()
        if len(t) == 2 and t[0] == "s" and int(t[1]) in self.dflt_vars:
            self.dflt_vars.add(vid)

    def assign(self):
        r = self.rng
        vid, k, w = r.choice(self.visible())
        if k == "b":
            return ["A", "A %d 0 %s" % (vid, self.bexpr(2))]
        if r.random() < 0.5:
            e = self.uexpr(w, 2)
            self.note_alias(vid, e)
            return ["A", "A %d 0 %s" % (vid, e)]
        sels, rk, rw = self.path(w)
        rhs = self.bexpr(1) if rk == "b" else self.uexpr(rw, 1)
        return ["A", "A %d %d %s %s" % (vid, len(sels), " ".join(sels), rhs)]

    def reassign_index(self):
        """assign an index variable again AFTER it was used in a dynamic access (often from itself)"""
        r = self.rng
        vid = self.pending.pop(r.randrange(len(self.pending)))
        vis = [v for v in self.visible() if v[0] == vid and v[1] == "u"]
        if not vis:
            return None
        w = vis[0][2]
        c = r.random()
        if c < 0.35: e = "add s %d cu %s" % (vid, "0" * (w - 1) + "1")
        elif c < 0.5: e = "not s %d" % vid
        elif c < 0.65: e = "xor s %d cu %s" % (vid, self.const(w))
        else: e = self.uexpr(w, 1)
        self.stats["index_reassigned"] += 1
        self.note_alias(vid, e)
        return ["A", "A %d 0 %s" % (vid, e)]

    def read(self):
        vid = self.rng.choice(self.visible())[0]
        t = self.next_tmp; self.next_tmp += 1
        return ["R", "R %d %d" % (t, vid)]

    def block(self, depth, n):
        out = []
        for _ in range(n):
            if self.budget <= 0:
                break
            self.budget -= 1
            self.stats["stmts"] += 1
            r = self.rng.random()
            if self.pending and self.rng.random() < 0.3:
                ra = self.reassign_index()
                if ra:
                    out.append(ra)
                    continue
            if self.pending_over and self.rng.random() < 0.2:
                # unconditional full assignment of a defaulted variable in its own block, after it was
                # (possibly) read / used as a condition: earlier reads then show this FINAL value
                cand = [(v, dd) for (v, dd) in self.pending_over if dd == depth and any(x[0] == v for x in self.visible())]
                if cand:
                    vid, dd = self.rng.choice(cand)
                    self.pending_over.remove((vid, dd))
                    kind, w = [(x[1], x[2]) for x in self.visible() if x[0] == vid][0]
                    self.stats["default_overwritten"] += 1
                    out.append(["A", "A %d 0 %s" % (vid, self.bexpr(1) if kind == "b" else self.uexpr(w, 1))])
                    continue
            if not self.vars or r < 0.12:
                out.append(self.decl(depth))
            elif r < 0.52:
                out.append(self.assign())
            elif r < 0.67:
                out.append(self.read())
            elif depth < self.max_depth:
                out.append(self.ifstmt(depth))
            else:
                out.append(self.assign())
        return out

    def scoped(self, depth, n):
        mark = len(self.vars)
        b = self.block(depth, n)
        del self.vars[mark:]
        return b

    def pin_cond(self):
        r = self.rng
        i = r.randrange(len(self.pins)); k, w = self.pins[i]
        if k == "b": return "in %d" % i
        return "bit in %d %d" % (i, r.randrange(w))

    def cond(self, depth, pos):
        """condition of an IF / ELSEIF / ELSE IF: sometimes an expression whose evaluation itself opens and
        closes a conditional scope (library helpers like abs() / muxWord() / shr() do that internally)"""
        r = self.rng
        c = self.bexpr(2)
        x = r.random()
        if x < 0.25:
            self.stats["cond_opens_scope_" + pos] = self.stats.get("cond_opens_scope_" + pos, 0) + 1
            return "wsc %s %s" % (self.pin_cond(), c)
        if x < 0.33 and depth == 0 and pos in ("if", "elseif"):
            # the real muxWord(Bit, UInt) (IF inside); only where no scope is open: its internal mux is then unconditional
            src = [("in %d" % i, pw) for i, (k, pw) in enumerate(self.pins) if k == "u" and pw % 2 == 0 and pw <= 8]
            if src:
                e, pw = r.choice(src)
                self.stats["cond_opens_scope_" + pos] = self.stats.get("cond_opens_scope_" + pos, 0) + 1
                return "eq muxw %d %s %s cu %s" % (pw, self.pin_cond(), e, self.const(pw // 2))
        return c

    def ifstmt(self, depth):
        r = self.rng
        self.stats["depth"] = max(self.stats["depth"], depth + 1)
        nel = r.choice([0, 0, 0, 1, 1, 2, 3, self.max_chain, r.randint(0, self.max_chain)])
        brs = []
        cond = self.cond(depth, "if")
        brs.append(("IF", cond, self.scoped(depth + 1, r.randint(0, 4))))
        for _ in range(nel):
            kind = "ELIF"
            if r.random() < 0.2:
                kind = "ELSP"
            cond = self.cond(depth, "elseif" if kind == "ELIF" else "else_if_space")
            if kind == "ELSP" and cond.startswith("s "):
                kind = "ELIF"
            if kind == "ELSP":
                # ELSE IF with a space (IF nested in ELSE); a bare variable as condition is the
                # known deviation elab_else_if_same_condition_refuted and lives in the corpus only
                kind = "ELSP"; self.stats["else_if_space"] += 1
            brs.append((kind, cond, self.scoped(depth + 1, r.randint(0, 3))))
        if r.random() < 0.55:
            brs.append(("ELSE", None, self.scoped(depth + 1, r.randint(0, 3))))
        self.stats["chain"] = max(self.stats["chain"], nel)
        return ["IF", brs]

    def program(self):
        r = self.rng
        npins = r.randint(2, 5)
        self.pins = [("u", r.choice([1, 2, 2, 3]))]
        for _ in range(npins - 1):
            self.pins.append(("b", 1) if r.random() < 0.3 else ("u", r.choice([2, 3, 4, 8, 8, 12, 16])))
        body = self.block(0, 10 ** 6)
        # observe something even in tiny programs
        if self.vars:
            body.append(self.read())
        return body


def ser(body, out):
    for s in body:
        if s[0] == "IF":
            for kind, cond, b in s[1]:
                out.append(kind if cond is None else "%s %s" % (kind, cond))
                ser(b, out)
            out.append("END")
        else:
            out.append(s[1])
    return out


def parse_body(lines):
    """inverse of ser"""
    def block(i):
        out = []
        while i < len(lines):
            t = lines[i].split(" ", 1)
            if t[0] in ("ELIF", "ELSP", "ELSE", "END"):
                break
            if t[0] == "IF":
                brs = []
                kind, cond = "IF", t[1]
                while True:
                    b, i = block(i + 1)
                    brs.append((kind, cond, b))
                    t2 = lines[i].split(" ", 1)
                    if t2[0] == "END":
                        i += 1
                        break
                    kind, cond = t2[0], (t2[1] if len(t2) > 1 else None)
                out.append(["IF", brs])
            else:
                out.append([t[0], lines[i]])
                i += 1
        return out, i
    b, i = block(0)
    assert i == len(lines), (i, len(lines))
    return b


def gen_vectors(rng, pins, n):
    vecs = []
    for k in range(n):
        v = []
        for kind, w in pins:
            if k == 0:
                v.append("0" * w)
            elif k == 1:
                v.append("1" * w)
            else:
                v.append("".join(rng.choice("01") for _ in range(w)))
        vecs.append(v)
    if n > 6 and rng.random() < 0.25:
        # one valuation with undefined input bits (model and circuit must still agree bit for bit)
        i = rng.randrange(len(pins))
        v = list(vecs[-1]); v[i] = "".join(rng.choice("01X") for _ in range(pins[i][1])); vecs[-1] = v
    return vecs


def renumber_dd(lines):
    """defaulted declarations are numbered in creation order (the shrinker may have removed some)"""
    out, k = [], 0
    for l in lines:
        t = l.split()
        if t and t[0] == "DD":
            t[4] = str(k); k += 1
            l = " ".join(t)
        out.append(l)
    return out


def prog_text(pid, pins, lines, vecs):
    t = ["P %s" % pid] + ["pin %s %d" % (k, w) for k, w in pins] + renumber_dd(list(lines))
    t.append("V %d" % len(vecs))
    t += ["I " + " ".join(v) for v in vecs]
    t.append("E")
    return t


# --------------------------------------------------------------------------
# running
# --------------------------------------------------------------------------

def run_tool(exe, path, timeout):
    # (own copy of V.run: a crashing harness may print bytes that are not UTF-8)
    try:
        p = subprocess.run([exe, str(path)], capture_output=True, timeout=timeout)
        return p.returncode, p.stdout.decode("utf8", "replace") + p.stderr.decode("utf8", "replace")
    except subprocess.TimeoutExpired as ex:
        return 124, (ex.stdout or b"").decode("utf8", "replace") + "\n[timeout]"


def run_all(harness, driver, progs, tag, timeout=900):
    """progs: list of (pid, textlines). returns dict (pid,k,tag)->rest, plus per program MH lines, errors"""
    WORK.mkdir(parents=True, exist_ok=True)
    nchunks = max(1, min(V.NCPU, (len(progs) + 7) // 8))
    chunks = [progs[i::nchunks] for i in range(nchunks)]
    files = []
    for i, ch in enumerate(chunks):
        p = WORK / f"{tag}_{i}.txt"
        with open(p, "w") as f:
            for pid, lines in ch:
                f.write("\n".join(lines) + "\n")
        files.append(p)
    res, errs = {}, []
    jobs = [(harness, p) for p in files] + ([(driver, p) for p in files] if driver else [])
    with ThreadPoolExecutor(max_workers=V.NCPU) as ex:
        outs = list(ex.map(lambda j: run_tool(j[0], j[1], timeout), jobs))
    # a process that died (crash inside gatery, timeout) loses its whole chunk: rerun that chunk one
    # program per process so that only the crashing program is affected
    redo = []
    for ji, ((exe, p), (rc, out)) in enumerate(zip(jobs, outs)):
        if rc != 0 and exe == harness and ji < len(files) and len(chunks[ji]) > 1:
            for n, (pid, lines) in enumerate(chunks[ji]):
                q = WORK / f"{tag}_{ji}_{n}.txt"
                q.write_text("\n".join(lines) + "\n")
                redo.append((exe, q))
            outs[ji] = (0, "")
    if redo:
        with ThreadPoolExecutor(max_workers=V.NCPU) as ex:
            outs2 = list(ex.map(lambda j: run_tool(j[0], j[1], 120), redo))
        jobs = jobs + redo
        outs = outs + outs2
    for (exe, p), (rc, out) in zip(jobs, outs):
        if rc != 0:
            errs.append(f"{os.path.basename(exe)} {p.name} rc={rc}: {out[-400:]}")
        for line in out.splitlines():
            if line.startswith("WARNING conda"):
                continue
            parts = line.split(" ", 3)
            if len(parts) < 3:
                continue
            pid, k, t = parts[0], parts[1], parts[2]
            res[(pid, k, t)] = parts[3] if len(parts) > 3 else ""
    return res, errs


def split_fr(s):
    """'F a=..;b=.. R t:g:v;...' -> (list of (sig,bits), list of (tmp,guard,bits))"""
    assert s.startswith("F "), s
    f, _, r = s[2:].partition(" R")
    r = r.strip()
    fin = [tuple(x.split("=")) for x in f.strip().split(";") if x]
    rds = [tuple(x.split(":")) for x in r.split(";") if x]
    return fin, rds


def refines(a, b):
    """a [= b on 0/1/X strings"""
    return len(a) == len(b) and all(x == "X" or x == y for x, y in zip(a, b))


def compare_case(res, pid, k):
    """returns list of (category, detail)"""
    out = []
    g = lambda t: res.get((pid, k, t))
    IR, IP, OR, MS, ME, IX = g("IR"), g("IP"), g("OR"), g("MS"), g("ME"), g("IX")
    MQ = int(g("MQ") or 0)
    if IR is None and res.get((pid, "-", "MD")) is not None and IP is not None:
        # defaulted declarations: Node_Default cannot be simulated, the design is observed after
        # postprocessing only.  ME / MS are evaluated under the model's resolution of the default nodes.
        if ME is None or MS is None:
            return [("model-missing", "driver printed nothing")]
        fp, rp = split_fr(IP); fm, rm = split_fr(ME)
        same = lambda a, b: (a == b) if MQ else refines(a, b) or a == b
        okm = len(fm) == len(fp) and len(rm) == len(rp) and \
            all(a[0] == b[0] and refines(a[1], b[1]) for a, b in zip(fm, fp)) and \
            all(a[0] == b[0] and refines(a[1], b[1]) and refines(a[2], b[2]) for a, b in zip(rm, rp))
        if not okm:
            out.append(("impl-vs-model" if MQ == 0 else "info-post-differs-under-undefined-selector", dict(post=IP, model=ME)))
        livep = [x for x in rp if x[1] == "1"]
        if MS != "UNDEF":
            fs, rs = split_fr(MS)
            if fs != fm or rs != [x for x in rm if x[1] == "1"]:
                out.append(("model-seq-vs-model-elab", dict(seq=MS, elab=ME)))
            if MQ == 0 and not (len(fs) == len(fp) and len(rs) == len(livep) and
                                all(a[0] == b[0] and refines(a[1], b[1]) for a, b in zip(fs, fp)) and
                                all(a[0] == b[0] and refines(a[2], b[2]) for a, b in zip(rs, livep))):
                out.append(("impl-vs-sequential", dict(expected=MS, observed=IP, stage="postprocessed")))
        if OR not in ("U", None):
            fo, ro = split_fr(OR)
            if fo != fp or ro != livep:
                out.append(("impl-vs-oracle", dict(expected=OR, observed=IP, stage="postprocessed")))
            if MS == "UNDEF":
                out.append(("oracle-defined-but-model-undef", dict(oracle=OR)))
        return out
    if IR is None:
        out.append(("impl-exception", IX or "no output"))
        return out
    if ME is None or MS is None:
        out.append(("model-missing", "driver printed nothing"))
        return out
    if IR != ME:
        out.append(("impl-vs-model", dict(raw=IR, model=ME)))
    if IP is None:
        # the circuit was built and simulated, design.postprocess() (or the second simulation) threw
        out.append(("postprocess-exception", IX or "no output"))
        IP = IR
    fr, rr = split_fr(IR); fp, rp = split_fr(IP)
    ok = len(fr) == len(fp) and len(rr) == len(rp) and \
        all(a[0] == b[0] and refines(a[1], b[1]) for a, b in zip(fr, fp)) and \
        all(a[0] == b[0] and refines(a[1], b[1]) and refines(a[2], b[2]) for a, b in zip(rr, rp))
    if not ok:
        # With an undefined condition the software run has no meaning (MS = UNDEF), and the reference
        # simulator is not monotone where a multiplexer selector is undefined (it merges the inputs
        # and ignores out-of-range candidates, DESIGN.md 3.1 / Q6; MQ = number of such muxes under
        # this valuation, computed by the model driver), so a postprocessed circuit may legitimately
        # be less defined there; counted, not a violation of C05.
        out.append(("postprocess-changes-values" if (MS != "UNDEF" and MQ == 0) else "info-post-differs-under-undefined-selector",
                    dict(raw=IR, post=IP)))
    fm, rm = split_fr(ME)
    if MS != "UNDEF":
        fs, rs = split_fr(MS)
        live = [x for x in rm if x[1] == "1"]
        if fs != fm or rs != live:
            out.append(("model-seq-vs-model-elab", dict(seq=MS, elab=ME)))
        # implementation against the sequential semantics directly
        livei = [x for x in rr if x[1] == "1"]
        livep = [x for x in rp if x[1] == "1"]
        if fs != fr or rs != livei:
            out.append(("impl-vs-sequential", dict(expected=MS, observed=IR, stage="un-postprocessed")))
        elif MQ == 0 and not (len(fs) == len(fp) and len(rs) == len(livep) and
                  all(a[0] == b[0] and refines(a[1], b[1]) for a, b in zip(fs, fp)) and
                  all(a[0] == b[0] and refines(a[2], b[2]) for a, b in zip(rs, livep))):
            # postprocessing may make undefined bits defined, never change or lose defined ones
            out.append(("impl-vs-sequential", dict(expected=MS, observed=IP, stage="postprocessed")))
    if OR != "U" and OR is not None:
        fo, ro = split_fr(OR)
        for stage, (f_, r_) in (("un-postprocessed", (fr, rr)), ("postprocessed", (fp, rp))):
            if fo != f_ or ro != [x for x in r_ if x[1] == "1"]:
                out.append(("impl-vs-oracle", dict(expected=OR, observed=(IR if stage[0] == "u" else IP), stage=stage)))
                break
        if MS == "UNDEF":
            out.append(("oracle-defined-but-model-undef", dict(oracle=OR)))
    return out


# --------------------------------------------------------------------------
# shrinking (only for generated programs whose AST we still have)
# --------------------------------------------------------------------------

def variants(body):
    """programs with one statement (or one branch / one branch body) removed"""
    for i, s in enumerate(body):
        yield body[:i] + body[i + 1:]
        if s[0] == "IF":
            brs = s[1]
            for j in range(len(brs)):
                kind, cond, b = brs[j]
                if j > 0:                     # drop an ELIF / ELSE branch
                    yield body[:i] + [["IF", brs[:j] + brs[j + 1:]]] + body[i + 1:]
                for vb in variants(b):
                    yield body[:i] + [["IF", brs[:j] + [(kind, cond, vb)] + brs[j + 1:]]] + body[i + 1:]


def closed(lines):
    """all signals used are declared earlier in an enclosing block (cheap scoping check)"""
    stack = [set()]
    for l in lines:
        t = l.split()
        if t[0] == "IF":
            if not uses_ok(t[1:], stack): return False
            stack.append(set())
        elif t[0] in ("ELIF", "ELSP"):
            stack.pop()
            if not uses_ok(t[1:], stack): return False
            stack.append(set())
        elif t[0] == "ELSE":
            stack.pop(); stack.append(set())
        elif t[0] == "END":
            stack.pop()
        elif t[0] == "DD":
            stack[-1].add(t[1])
        elif t[0] == "D":
            if not uses_ok(t[4:], stack): return False
            stack[-1].add(t[1])
        elif t[0] == "A":
            if not any(t[1] in s for s in stack) or not uses_ok(t[3:], stack): return False
        elif t[0] == "R":
            if not any(t[2] in s for s in stack): return False
    return True


def uses_ok(toks, stack):
    for i, x in enumerate(toks[:-1]):
        if x == "s" and not any(toks[i + 1] in s for s in stack):
            return False
    return True


def shrink(harness, driver, pins, body, vec, category, deadline, etag=None):
    """greedy statement removal; for exception categories the failed assertion must stay the same
    (removing a shadowing declaration can make a program ill-typed, which is a different failure)"""
    def failing(b):
        lines = ser(b, [])
        if not closed(lines):
            return False
        res, errs = run_all(harness, driver, [("s", prog_text("s", pins, lines, [vec]))], "shrink", timeout=120)
        return any(c == category and (etag is None or exception_tag(str(d)) == etag) for c, d in compare_case(res, "s", "0"))
    cur = body
    progress = True
    while progress and time.time() < deadline:
        progress = False
        for v in variants(cur):
            if time.time() > deadline:
                break
            if failing(v):
                cur = v; progress = True
                break
    return cur


# --------------------------------------------------------------------------

def load_corpus():
    progs = []
    d = V.VERIF / "corpus" / CID
    for p in sorted(d.glob("*.txt")):
        lines = [l.rstrip("\n") for l in open(p) if l.strip() and not l.startswith("#")]
        cur = None
        for l in lines:
            if l.startswith("P "):
                cur = [l.split()[0] + " c_" + p.stem + "_" + l.split()[1]]
                progs.append((cur[0].split()[1], cur))
            else:
                cur.append(l)
    return progs


def prog_pieces(lines):
    pins = [(l.split()[1], int(l.split()[2])) for l in lines if l.startswith("pin ")]
    body = [l for l in lines if not l.startswith(("P ", "pin ", "V ", "I ")) and l != "E"]
    vecs = [l.split()[1:] for l in lines if l.startswith("I ")]
    return pins, body, vecs


def shape_of(lines):
    depth = maxd = 0; chain = maxc = 0; stack = []
    kinds = dict(decl=0, assign_full=0, assign_static=0, assign_bit=0, assign_dyn=0, assign_nested=0, read=0, ifs=0, elif_=0, else_if_space=0, else_=0, inner_decl=0)
    for l in lines:
        t = l.split()
        if t[0] == "IF":
            depth += 1; maxd = max(maxd, depth); stack.append(0); kinds["ifs"] += 1
        elif t[0] in ("ELIF", "ELSP"):
            stack[-1] += 1; maxc = max(maxc, stack[-1]); kinds["elif_" if t[0] == "ELIF" else "else_if_space"] += 1
        elif t[0] == "ELSE":
            kinds["else_"] += 1
        elif t[0] == "END":
            depth -= 1; stack.pop()
        elif t[0] in ("D", "DD"):
            kinds["decl"] += 1
            if t[0] == "DD": kinds["decl_default"] = kinds.get("decl_default", 0) + 1
            if depth: kinds["inner_decl"] += 1
        elif t[0] == "R":
            kinds["read"] += 1
        elif t[0] == "A":
            n = int(t[2])
            if n == 0: kinds["assign_full"] += 1
            else:
                if n > 1: kinds["assign_nested"] += 1
                if any(x in ("ds", "db", "dp") for x in t[3:]): kinds["assign_dyn"] += 1
                elif "sb" in t[3:]: kinds["assign_bit"] += 1
                else: kinds["assign_static"] += 1
    return maxd, maxc, kinds


def feature_tag(lines):
    """canonical feature of a (shrunk) failing program, used to match known: lines"""
    two_way = False
    for l in lines:
        t = l.split()
        if t and t[0] == "A":
            for i, x in enumerate(t):
                if x == "dp" and t[i + 1] == "2":
                    two_way = True
                if x == "db" and (t[i + 2] == "2" or t[i + 1] == "1"):
                    two_way = two_way or t[i + 2] == "2"
    neg = any(" not " in (" " + l + " ") for l in lines)
    if two_way and neg:
        return "two-way-dynamic-select-multibit-index"
    # two branches of one IF chain with textually identical conditions (the later one can never run)
    chains = []
    for l in lines:
        t = l.split(" ", 1)
        if t[0] == "IF":
            chains.append({t[1]})
        elif t[0] in ("ELIF", "ELSP") and chains:
            if t[1] in chains[-1] and not (t[0] == "ELSP" and t[1].startswith("s ") and len(t[1].split()) == 2):
                return "same-condition-twice-in-chain"
            chains[-1].add(t[1])
        elif t[0] == "END" and chains:
            chains.pop()
    # ELSE IF (with a space) whose condition is a bare variable reference
    if any(l.split()[0] == "ELSP" and len(l.split()) == 3 and l.split()[1] == "s" for l in lines if l.split()):
        return "else-if-same-condition-port"
    return "-"


def exception_tag(msg):
    """canonical key of an exception text: the failed assertion without file/line"""
    m = msg.split("Location:")[0]
    m = m.replace("EXCEPTION", "").replace("Assertion failed:", "").replace("Design failed:", "").strip()
    return "assert(" + m.replace(" ", "") + ")"


def main():
    tier = V.tier()
    rep = V.Report(CID)
    V.build_gatery()
    harness = V.build_harness("C05_cond")
    res_proof = V.check_properties(CID)
    driver = V.build_model(CID)
    if "--build-only" in sys.argv:
        sys.exit(0 if driver else 2)
    rep.add_proof(res_proof)
    forb = [h for h in V.scan_forbidden() if h.startswith("Frontend") or h.startswith("Properties_C05")]
    WORK.mkdir(parents=True, exist_ok=True)

    if "--replay" in sys.argv:
        rp = json.load(open(sys.argv[sys.argv.index("--replay") + 1]))
        lines = rp["program"]
        res, errs = run_all(harness, driver, [("r", ["P r"] + [l for l in lines if not l.startswith("P ")])], "replay")
        bad = []
        nv = len([l for l in lines if l.startswith("I ")])
        for k in range(nv):
            bad += [(k, c, d) for c, d in compare_case(res, "r", str(k))]
        for k, c, d in bad:
            print(f"replay: vector {k}: {c}: {json.dumps(d)}")
        print("replay:", "STILL FAILING" if bad or errs else "passes")
        sys.exit(1 if bad or errs else 0)

    quick = tier == "quick"
    nprog = 4000 if quick else 40000
    max_depth, max_chain = (4, 4) if quick else (6, 8)
    rng = random.Random(V.seed() * 7919 + (1 if quick else 2))

    progs = load_corpus()
    asts = {}
    acc_total = {}
    gstats = dict(inner_decl=0, dyn=0, nested_path=0, shadow=0, xconst=0, else_if_space=0, var_index=0, index_reassigned=0, dyn_read=0, defaults=0, default_overwritten=0,
                  cond_opens_scope_if=0, cond_opens_scope_elseif=0, cond_opens_scope_else_if_space=0)
    for i in range(nprog):
        budget = rng.choice([6, 10, 14, 20, 28] if quick else [8, 14, 22, 32, 45])
        g = Gen(rng, rng.randint(1, max_depth), rng.choice([1, 2, max_chain]), budget)
        body = g.program()
        nvec = rng.choice([8, 12, 16]) if quick else rng.choice([12, 16, 24])
        vecs = gen_vectors(rng, g.pins, nvec)
        pid = "g%d" % i
        progs.append((pid, prog_text(pid, g.pins, ser(body, []), vecs)))
        asts[pid] = (g.pins, body, vecs)
        for k in gstats:
            gstats[k] += 1 if g.stats.get(k) else 0
        for k, v in g.acc.items():
            acc_total[k] = acc_total.get(k, 0) + v

    t0 = time.time()
    res, errs = run_all(harness, driver if driver else None, progs, "main", timeout=1500 if not quick else 600)
    t_run = time.time() - t0
    if errs and not res:
        V.infra_error("harness/driver failed: " + "; ".join(errs)[:2000])

    # ---- compare
    mism = []          # (pid, k, category, detail)
    ncases = 0; distinct = set(); paths = set()
    hist_depth, hist_chain = {}, {}
    kinds_total = {}
    undef_seq = 0; oracle_def = 0; xvals = 0; dead_reads = live_reads = 0
    node_hist = {}
    ndef_loopy = ndef_final = 0
    samples = []
    for pid, lines in progs:
        pins, body, vecs = prog_pieces(lines)
        d, c, kinds = shape_of(body)
        hist_depth[d] = hist_depth.get(d, 0) + 1
        hist_chain[c] = hist_chain.get(c, 0) + 1
        for kk, vv in kinds.items():
            kinds_total[kk] = kinds_total.get(kk, 0) + vv
        mh = res.get((pid, "-", "MH"))
        if mh:
            for item in mh.split()[1].split(",") if len(mh.split()) > 1 else []:
                n, _, cnt = item.partition(":")
                node_hist[n] = node_hist.get(n, 0) + int(cnt)
        md, od = res.get((pid, "-", "MD")), res.get((pid, "-", "OD"))
        if md is not None:
            ndef_loopy += md.count("loopy"); ndef_final += md.count("final")
            if od is not None and od != md:
                mism.append((pid, "-", "default-classification-oracle-vs-model", dict(model=md, oracle=od)))
        if res.get((pid, "-", "MODEL-PARSE-ERROR")) is not None:
            mism.append((pid, "-", "model-parse-error", res[(pid, "-", "MODEL-PARSE-ERROR")]))
        bh = hashlib.sha1("\n".join(body).encode()).hexdigest()
        for k in range(len(vecs)):
            ncases += 1
            for cat, det in compare_case(res, pid, str(k)):
                mism.append((pid, k, cat, det))
            MS, ME, OR = res.get((pid, str(k), "MS")), res.get((pid, str(k), "ME")), res.get((pid, str(k), "OR"))
            if MS == "UNDEF": undef_seq += 1
            if OR not in (None, "U"): oracle_def += 1
            if ME:
                fm, rm = split_fr(ME)
                if any("X" in v for _, v in fm): xvals += 1
                dead_reads += sum(1 for x in rm if x[1] != "1"); live_reads += sum(1 for x in rm if x[1] == "1")
                if kinds["ifs"] and MS not in (None, "UNDEF"):
                    distinct.add((bh, " ".join(vecs[k])))
                    paths.add((bh, "".join(x[1] for x in rm), fm and fm[0][1]))
        if len(samples) < 3 and d >= 2 and c >= 1 and len(body) < 40:
            samples.append(dict(program=body, pins=pins, input=vecs[2] if len(vecs) > 2 else vecs[0],
                                impl_raw=res.get((pid, "2", "IR")), impl_post=res.get((pid, "2", "IP")),
                                model_elab=res.get((pid, "2", "ME")), model_seq=res.get((pid, "2", "MS")),
                                oracle=res.get((pid, "2", "OR"))))

    rep.cov["evaluations"] = ncases
    rep.cov["distinct_nontrivial"] = len(distinct)
    rep.cov["rule"] = ("case = (generated or corpus program, input vector); every case is built with the real frontend, "
                       "simulated raw and postprocessed, and compared bit for bit with the extracted model. Counted as "
                       "non-trivial: the program contains at least one IF scope and the sequential run is defined "
                       "(no undefined condition); distinct by (sha1 of program body, input vector).")
    rep.cov["samples"] = samples
    rep.cov["traces_validated_against_impl"] = ncases - len({(p, k) for p, k, c, _ in mism if c in ("impl-vs-model", "impl-exception")})
    rep.cov["programs"] = len(progs)
    rep.cov["distinct_control_paths_observed"] = len(paths)
    rep.cov["histogram"] = dict(
        nesting_depth={str(k): v for k, v in sorted(hist_depth.items())},
        max_elseif_chain={str(k): v for k, v in sorted(hist_chain.items())},
        statements=kinds_total,
        programs_with=dict(gstats),
        model_nodes=node_hist,
        cases_sequential_run_undefined=undef_seq,
        cases_oracle_defined=oracle_def,
        cases_with_undefined_final_bits=xvals,
        reads_live=live_reads, reads_dead=dead_reads,
        accessor_x_alias_kind_x_side=dict(sorted(acc_total.items())),
        default_nodes_keeping_constant=ndef_loopy, default_nodes_showing_final_value=ndef_final)
    rep.cov["run_seconds"] = round(t_run, 1)
    rep.cov["level_note"] = ("proof: elab_correct & co for all programs/inputs (default node outputs are free inputs of the theorem); "
                             "the transcription of defaultValueResolution (which default nodes keep their constant) and the "
                             "postprocessed-only observation of programs with defaults are differential (model + independent oracle)")
    rep.assumptions = [
        "modelled, not verified: FrontendDefs.elab_* is a hand transcription of ConditionalScope.cpp / BitVector.cpp / Bit.cpp / "
        "BitVectorSlice.cpp; node semantics (mux, rewire, logic, add, eq) transcribed from the simulateEvaluate functions; agreement is sampled (this run)",
        "elab_correct carries the hypothesis no_bare_else_if: the condition of an `ELSE IF` written with a space is not a bare "
        "variable reference; without it the frontend really deviates (theorem elab_else_if_same_condition_refuted, corpus case "
        "else_if_same_condition, KNOWN_FINDINGS known: line); IF/ELSEIF/ELSE programs are unrestricted",
        "raw [= postprocessed is only demanded where no multiplexer selector is undefined under the valuation (count MQ from the "
        "model driver): the reference simulator is not monotone for undefined selectors (DESIGN.md 3.1, Q6)",
        "programs are lexically scoped C++: a variable declared in a block is not used after the block (the model pops it like C++ destroys it)",
        "every variable is initialised at its declaration (an unassigned gatery signal is a forward reference / loop, outside this property)",
        "defaults (Bit x = BitDefault(d) / UInt via SliceableBitVector::operator=(UIntDefault)): the default node's output is an extra "
        "input of the elaborated circuit (elab_correct holds for every value of it); FrontendDefaultDefs.resolve_all transcribes "
        "defaultValueResolution (loop test on the node table, creation order, an already bypassed node is transparent) and "
        "resolved_rho gives the node its constant if loopy, else the FINAL value of the variable (gatery's forward reference "
        "semantics: earlier reads / IF conditions then see the later unconditional assignment, tests/frontend/defaults.cpp "
        "NonLoopWithDefault). Proved: elab_correct_resolved (circuit = software run started from the resolved values) and "
        "elab_correct_defaults (all nodes loopy => defaults are plain initial values). The agreement of resolve_all with the C++ pass "
        "and the non-loopy case are differential only: programs with defaults are observed after design.postprocess() only "
        "(Node_Default cannot be simulated) and compared with the model and with the harness oracle, whose classification is an "
        "independent structural dependency analysis on the AST (compared with the model's for every program). "
        "Not modelled: x = Default(..) on an already driven signal (a no-op), a defaulted variable used as a bare dynamic index, "
        "EnableScope side of ConditionalScope (registers / memory ports), width-expanding assignments, override=true scopes",
        "the scope bookkeeping logic is read as single four-state bits (theorem scope_logic_is_node_logic relates it to Node_Logic on width-1 ports)",
        "theorem quantifies over all s_nextId start values >= 1; the harness runs many designs per process so the counter really differs per program",
    ]
    if forb:
        mism.append(("-", "-", "forbidden-construct", forb))

    # ---- verdict
    proof_broken = (not res_proof["ok"]) or driver is None
    hard = [m for m in mism if m[2] in ("impl-vs-oracle", "impl-vs-sequential", "postprocess-changes-values", "postprocess-exception", "impl-exception")]
    info = [m for m in mism if m[2].startswith("info-")]
    rep.cov["histogram"]["cases_post_less_defined_under_undefined_selector"] = len(info)
    mism = [m for m in mism if not m[2].startswith("info-")]
    soft = [m for m in mism if m not in hard]
    known, _fixed = V.known_findings(CID)

    def replay_obj(pid, k, cat, det, lines_override=None):
        lines = lines_override or dict(progs)[pid]
        pins, body, vecs = prog_pieces(lines)
        vec = vecs[int(k)] if k != "-" else None
        return dict(property=CID, what_broke=cat, detail=det, program=[l for l in lines if not l.startswith(("V ", "I ")) and l != "E"] +
                    (["V 1", "I " + " ".join(vec), "E"] if vec else ["V 0", "E"]),
                    input=vec, expected_sequential_run=(res.get((pid, str(k), "MS")) if lines_override is None else None),
                    how_to_replay="python3 checks/C05.py --replay <this file>")

    known_progs = set()
    if hard:
        # concrete failing inputs.  One report per (category, feature) group, shrunk while time allows.
        def primary(cats):
            raw = [c for c in cats if c[0] in ("impl-vs-oracle", "impl-vs-sequential") and c[1].get("stage") == "un-postprocessed"]
            for name in ("impl-exception", "postprocess-exception"):
                for c in cats:
                    if c[0] == name: return c
            if raw: return raw[0]
            for name in ("postprocess-changes-values", "impl-vs-oracle", "impl-vs-sequential"):
                for c in cats:
                    if c[0] == name: return c
        percase = {}
        for pid, k, cat, det in hard:
            percase.setdefault((pid, k), []).append((cat, det))
        deadline = time.time() + (45 if quick else 300)
        groups = {}
        progd = dict(progs)
        done_prog = set()
        for (pid, k), cats in percase.items():
            if pid in done_prog:
                continue
            done_prog.add(pid)
            cat, det = primary(cats)
            lines = None
            pins, body, vecs = prog_pieces(progd[pid])
            if time.time() < deadline and len(groups) < 12:
                etag = exception_tag(str(det)) if cat in ("postprocess-exception", "impl-exception") else None
                sb = shrink(harness, driver, pins, parse_body(body), vecs[int(k)], cat, min(deadline, time.time() + 20), etag)
                cand = prog_text(pid, pins, ser(sb, []), [vecs[int(k)]])
                r2, _ = run_all(harness, driver, [(pid, cand)], "shrunk", timeout=120)
                dets = [d for c, d in compare_case(r2, pid, "0") if c == cat and (etag is None or exception_tag(str(d)) == etag)]
                if dets:
                    lines, det, k = cand, dets[0], 0
            ftag = exception_tag(det) if cat in ("postprocess-exception", "impl-exception") else feature_tag(lines or progd[pid])
            if (cat, ftag) in groups:
                groups[(cat, ftag)]["count"] += 1
                groups[(cat, ftag)]["pids"].add(pid)
                continue
            groups[(cat, ftag)] = dict(count=1, pid=pid, k=k, det=det, lines=lines, pids={pid})
        rep.cov["failing_groups"] = {f"{c} {t}": g["count"] for (c, t), g in groups.items()}
        for (cat, ftag), g in groups.items():
            txt = json.dumps(g["det"])
            if any(kf.split()[:2] == [cat, ftag] for kf in known):
                rep.known(f"{cat} {ftag}: {g['count']} program(s), e.g. {g['pid']} input {g['k']}: {txt[:300]}")
                known_progs.update(g["pids"])
            else:
                o = replay_obj(g["pid"], g["k"], cat, g["det"], g["lines"]); o["feature"] = ftag; o["programs_in_group"] = g["count"]
                rep.violation(o, tag=cat.replace("-", "_"))
    # disagreements of the model with itself / the implementation in programs that are known findings
    # are part of that finding (the model reproduces the deviation); everything else is a broken tie
    soft = [m for m in soft if m[0] not in known_progs]
    if rep.violations:
        pass
    elif soft or proof_broken or errs:
        # tie / proof broken without a directly failing input in the main run: search mode
        budget = 60 if quick else 600
        t_end = time.time() + budget
        found = None
        srng = random.Random(V.seed() * 104729 + 17)
        # start from the disagreeing programs themselves (fresh inputs), then fresh programs
        round_ = 0
        while time.time() < t_end and not found:
            batch = []
            for i in range(96):
                g = Gen(srng, srng.randint(1, max_depth), srng.choice([1, 2, max_chain]), srng.choice([6, 10, 14, 20]))
                if round_ == 0 and i < len(soft) and soft[i][0] in asts:
                    pins, body, _ = asts[soft[i][0]]
                    g.pins = pins
                else:
                    body = g.program(); pins = g.pins
                vecs = gen_vectors(srng, pins, 16)
                pid = "s%d_%d" % (round_, i)
                batch.append((pid, prog_text(pid, pins, ser(body, []), vecs)))
                asts[pid] = (pins, body, vecs)
            r2, _ = run_all(harness, None, batch, "search", timeout=300)
            for pid, lines in batch:
                pins, body, vecs = prog_pieces(lines)
                for k in range(len(vecs)):
                    IR, IP, OR = (r2.get((pid, str(k), t)) for t in ("IR", "IP", "OR"))
                    if OR in (None, "U") or IR is None or IP is None:
                        continue
                    fo, ro = split_fr(OR)
                    for stage, s in (("un-postprocessed", IR), ("postprocessed", IP)):
                        f_, r_ = split_fr(s)
                        if fo != f_ or ro != [x for x in r_ if x[1] == "1"]:
                            found = (pid, k, "impl-vs-oracle", dict(expected=OR, observed=s, stage=stage), lines)
                            break
                    if found: break
                if found: break
            round_ += 1
        what = []
        if proof_broken:
            what.append("proof obligations failed: " + ",".join(res_proof["failed"]) if res_proof["failed"] else "Properties_C05.v / extraction no longer compiles")
        if soft:
            cats = sorted({m[2] for m in soft})
            what.append(f"correspondence broken ({len(soft)} lines): " + ",".join(cats))
        if errs:
            what.append("tool errors: " + "; ".join(errs)[:500])
        if found:
            pid, k, cat, det, lines = found
            o = replay_obj(pid, k, cat, det, lines); o["context"] = what
            rep.violation(o, tag="search_hit")
        else:
            first = soft[0] if soft else None
            o = dict(property=CID, what_broke=what, searched_seconds=budget,
                     first_disagreement=(replay_obj(first[0], first[1], first[2], first[3]) if first and first[0] in dict(progs) else None),
                     proof_log=res_proof["log"][-1500:] if proof_broken else None)
            rep.violation(o, nofail=True, tag="tie")
    rep.cov["disagreements"] = len(mism)
    cats = {}
    for m_ in mism:
        cats[m_[2]] = cats.get(m_[2], 0) + 1
    rep.cov["disagreement_categories"] = cats
    if mism:
        print("disagreements:", cats, "first:", [(m_[0], m_[1], m_[2]) for m_ in mism[:5]])
    rep.finish()


if __name__ == "__main__":
    main()
