#!/usr/bin/env python3
"""C15 -- the library FIFO is a loss-free, duplicate-free, order-preserving queue.

Pipeline (AGENT_BRIEF.md): build gatery + harness from the current /repo tree, re-check the
Coq theorems (Properties_C15.v), extract the FIFO machine (FifoDefs.v), run the REAL
scl::Fifo and the extracted machine on the same schedules and diff cycle-accurately.
Any broken obligation / tie difference -> search mode: plain-queue oracle (this file,
independent of the Coq model) over the real implementation's traces.
TransactionalFifo (single clock): second Coq machine (FifoTxDefs.v), diffed the same way.
strm::fifo (every FifoLatency option, 0 = fall-through, depths up to 512): third Coq machine (FifoStrmDefs.v),
diffed the same way; the side condition of its theorem (fall-through needs inner latency 1) is checked against
the latency the implementation selects; table of all selected latencies (request x depth x device).
FifoArray: differential against a python oracle only.
"""
import sys, os
sys.path.insert(0, os.path.join(os.path.dirname(os.path.abspath(__file__)), "..", "lib"))
import vcommon as V
import json, time, collections, hashlib, glob, subprocess
from concurrent.futures import ThreadPoolExecutor

CID = "C15"
WORK = V.BUILD / "work" / CID


# ----------------------------------------------------------------------------- parsing
def parse_kv(tokens):
    d = {}
    for t in tokens:
        if "=" in t:
            k, v = t.split("=", 1)
            d[k] = v
    return d


def read_cases(path):
    """yields (case_line, params dict, [event lines]) ; also ('X', line) for harness-side exceptions"""
    cur = None
    with open(path) as f:
        for line in f:
            line = line.rstrip("\n")
            if not line:
                continue
            if line[0] == "C":
                if cur:
                    yield cur
                cur = (line, parse_kv(line.replace("|", " ").split()[2:]), [])
            elif line[0] == "E" and cur:
                cur[2].append(line)
            elif line[0] == "X":
                if cur:
                    yield cur
                    cur = None
                yield (line, None, None)
    if cur:
        yield cur


def expected_latency(p):
    """Independent reading of FifoCapabilities::select + Fifo::finalFifoSelection."""
    kind, val, dual = p["lat"][0], int(p["lat"][1:]), p["reqDual"] == "1"
    if not dual:
        return {"S": val, "D": 2, "L": max(val, 2), "M": min(val, 2)}[kind]
    if kind == "S":
        return val            # harness only asks for >= 4
    if kind == "D":
        return 4
    if kind == "L":
        return max(val, 4)
    return 4                  # AtMost(n >= 4) merged with AtLeast(4) -> specific 4


# ----------------------------------------------------------------------------- plain queue oracle
def oracle_case(params, events):
    """Checks one trace of the real scl::Fifo against a plain bounded queue.
    Returns (violation or None, stats dict)."""
    k = int(params["k"]); L = int(params["L"]); cap = 1 << k
    lvlF = int(params["lvlF"]); lvlE = int(params["lvlE"])
    q = collections.deque()      # (data, pop-edge index at acceptance)
    st = collections.Counter()
    popEdges = 0
    seen_full = False
    full_then_empty = False
    for idx, line in enumerate(events):
        lhs, rhs = line.split("|")
        _, kind, pr, data, po = lhs.split()
        full, af, empty, ae, peek, acc, dl = rhs.split()
        pe = kind in "PB"; oe = kind in "OB"
        st["ev_" + kind] += 1
        if "X" in (full, empty, af, ae) or "!" in peek:
            return dict(event=idx, what="undefined or incoherent flag", line=line), st
        if empty == "0":
            if not q:
                return dict(event=idx, what="empty=0 while the queue holds no item (would yield an item it does not hold)", line=line), st
            if peek != str(q[0][0]):
                return dict(event=idx, what=f"peek shows {peek}, head of queue is {q[0][0]} (loss / duplication / reordering)", line=line), st
        elif q and oe and popEdges - q[0][1] >= L - 1:
            # configured latency: the head must be visible from the (L-1)th pop-clock edge after its acceptance on
            return dict(event=idx, what=f"head item accepted {popEdges - q[0][1]} pop-clock edges ago is still not visible (configured latency {L})", line=line), st
        if af == "0" and lvlF < cap and not (len(q) + lvlF < cap):
            return dict(event=idx, what=f"almostFull({lvlF}) low with {len(q)} of {cap} used", line=line), st
        if ae == "0" and not (len(q) > lvlE):
            return dict(event=idx, what=f"almostEmpty({lvlE}) low with {len(q)} items", line=line), st
        n_before = len(q)
        delivered = oe and po == "1" and empty == "0"
        accepted = pe and pr == "1" and full == "0"
        if full == "1":
            seen_full = True
            if pe and pr == "1":
                st["push_refused_full"] += 1
        if empty == "1" and oe and po == "1":
            st["pop_refused_empty"] += 1
        if empty == "1" and seen_full and not q:
            full_then_empty = True
        if delivered:
            q.popleft(); st["delivered"] += 1
            if n_before == 1:
                st["pop_last_item"] += 1
        if accepted:
            if n_before >= cap:
                return dict(event=idx, what=f"push accepted while the queue already holds its capacity {cap}", line=line), st
            q.append((int(data), popEdges + (1 if oe else 0))); st["accepted"] += 1
            if n_before == cap - 1:
                st["push_fills_last_slot"] += 1
        if accepted and delivered:
            st["push_and_pop_same_instant"] += 1
            if n_before == cap:
                st["simultaneous_at_full"] += 1
            if n_before == 1:
                st["simultaneous_at_one"] += 1
        if full == "1" and pe and pr == "1" and oe and po == "1" and empty == "0":
            st["push_refused_while_pop_at_full"] += 1
        if oe:
            popEdges += 1
    st["wraps"] = st["accepted"] >> (k + 1)
    st["nontrivial"] = 1 if (st["accepted"] and st["delivered"] and full_then_empty) else 0
    return None, st


# ----------------------------------------------------------------------------- other FIFO flavours (differential only)
def oracle_other(path):
    """T-header + t/s/a lines.  Returns (n_cases, n_events, violations[list], errors[list], per-kind counter)."""
    viol, errs = [], []
    kinds = collections.Counter()
    ncase = nev = 0
    hdr = None; state = None

    def start(h):
        p = parse_kv(h.split()[2:])
        kind = p.get("kind")
        if kind in ("transactional", "transactional_cutoff"):
            return dict(kind=kind, cap=int(p["depth"]), Q=collections.deque(), S=[], r=0, delivered=0)
        if kind in ("strm_fifo", "strm_fifo_fallthrough"):
            return dict(kind=kind, Q=collections.deque(), delivered=0)
        if kind == "fifo_array":
            return dict(kind=kind, n=int(p["n"]), per=int(p["per"]), Q=[collections.deque() for _ in range(int(p["n"]))],
                        pending=None, delivered=0)
        return dict(kind=kind)

    with open(path) as f:
        for ln, line in enumerate(f):
            line = line.rstrip("\n")
            if not line:
                continue
            if line[0] == "T":
                hdr = line; ncase += 1
                if "error=" in line:
                    errs.append(line); state = None
                else:
                    state = start(line); kinds[state["kind"]] += 1
                continue
            if state is None or state.get("bad"):
                continue
            nev += 1
            lhs, rhs = line.split("|")
            a = lhs.split(); o = rhs.split()
            bad = None
            if a[0] == "t":
                pr, data, po, pc, cut, prb, oc, orb = int(a[1]), int(a[2]), int(a[3]), int(a[4]), int(a[5]), int(a[6]), int(a[7]), int(a[8])
                full, empty, peek = o
                Q, S = state["Q"], state["S"]
                if "X" in (full, empty):
                    bad = "undefined flag"
                visible = len(Q) - state["r"]
                if not bad and empty == "0":
                    if visible <= 0:
                        bad = "empty=0 but no committed item is left to pop"
                    elif peek != str(Q[state["r"]]):
                        bad = f"peek {peek} != committed item {Q[state['r']]}"
                if not bad:
                    if pr and full == "0":
                        if len(Q) + len(S) >= state["cap"]:
                            bad = "push accepted beyond capacity"
                        S.append(data)
                    if prb and not pc:
                        S.clear()
                    if pc:
                        if cut > len(S):
                            cut = len(S)   # harness keeps cutoff legal; defensive
                        keep = S[:len(S) - cut] if cut else S[:]
                        Q.extend(keep); S.clear()
                    if po and empty == "0":
                        state["r"] += 1; state["delivered"] += 1
                    if orb and not oc:
                        state["r"] = 0
                    if oc:
                        for _ in range(state["r"]):
                            Q.popleft()
                        state["r"] = 0
            elif a[0] == "s":
                v, data, r = int(a[1]), int(a[2]), int(a[3])
                rdy, vo, do = o
                Q = state["Q"]
                if "X" in (rdy, vo):
                    bad = "undefined handshake"
                if not bad and vo == "1":
                    # fall-through: the beat offered right now may appear at the output
                    head = Q[0] if Q else (data if (state["kind"] == "strm_fifo_fallthrough" and v) else None)
                    if head is None:
                        bad = "valid output with nothing stored"
                    elif do != str(head):
                        bad = f"output {do} != oldest stored beat {head}"
                if not bad:
                    took_in = v and rdy == "1"
                    took_out = vo == "1" and r
                    if took_in:
                        Q.append(data)
                    if took_out:
                        if Q:
                            Q.popleft(); state["delivered"] += 1
                        else:
                            bad = "output beat taken although nothing is stored or offered"
            elif a[0] == "a":
                pe, ps, data, oe, os_ = int(a[1]), int(a[2]), int(a[3]), int(a[4]), int(a[5])
                full, empty, pd = o
                if state["pending"] is not None and pd != str(state["pending"]):
                    bad = f"registered peek {pd} != head {state['pending']} of the fifo selected in the previous cycle"
                state["pending"] = None
                Qp, Qo = state["Q"][ps], state["Q"][os_]
                if not bad and "X" in (full, empty):
                    bad = "undefined flag"
                if not bad and (empty == "1") != (len(Qo) == 0):
                    bad = f"empty={empty} but selected fifo holds {len(Qo)}"
                if not bad and (full == "1") != (len(Qp) == state["per"]):
                    bad = f"full={full} but selected fifo holds {len(Qp)} of {state['per']}"
                if not bad:
                    if empty == "0":
                        state["pending"] = Qo[0]
                        if oe:
                            Qo.popleft(); state["delivered"] += 1
                    if pe and full == "0":
                        Qp.append(data)
            if bad:
                state["bad"] = True
                viol.append(dict(case=hdr, line_no=ln, line=line, what=bad))
    return ncase, nev, viol, errs, kinds


# ----------------------------------------------------------------------------- strm::fifo (all latency options incl. fall-through)
def nextpow2(n):
    d = 1
    while d < n:
        d <<= 1
    return d


def strm_expected_latency(p):
    """strm::fifo(in, minDepth, lat): latency 0 (fall-through) builds an inner FifoLatency(1) FIFO;
    otherwise the single-clock rules of FifoCapabilities::select."""
    kind, val = p["lat"][0], int(p["lat"][1:])
    if kind == "S":
        return 1 if val == 0 else val
    return {"D": 2, "L": max(val, 2), "M": min(val, 2)}[kind]


def oracle_strm(p, lines):
    """one strm::fifo trace against a plain queue at the stream interface (independent of the Coq model).
    Returns (violation or None, stats)."""
    cap = 1 << int(p["k"]); L = int(p["L"]); ft = p["ft"] == "1"
    Q = collections.deque()     # (data, cycle of entry)
    st = collections.Counter()
    prev_stored_into_empty = False
    for idx, line in enumerate(lines):
        lhs, rhs = line.split("|")
        _, v, data, r = lhs.split()
        rdy, vo, do = rhs.split()
        v = v == "1"; r = r == "1"
        if "X" in (rdy, vo):
            return dict(event=idx, what="undefined handshake signal", line=line), st
        in_fire = v and rdy == "1"
        if in_fire and len(Q) >= cap:
            return dict(event=idx, what=f"beat accepted while {len(Q)} of {cap} are stored", line=line), st
        qa = list(Q) + ([(int(data), idx)] if in_fire else [])
        if vo == "1":
            if not qa:
                return dict(event=idx, what="valid output although nothing is stored or entering", line=line), st
            if do != str(qa[0][0]):
                return dict(event=idx, what=f"output shows {do} but the oldest undelivered beat is {qa[0][0]} (order violated / loss / duplication)", line=line), st
        elif Q and idx - Q[0][1] >= L:
            return dict(event=idx, what=f"oldest beat entered {idx - Q[0][1]} cycles ago and is still not offered (inner latency {L})", line=line), st
        out_fire = vo == "1" and r
        if in_fire:
            st["beats_in"] += 1
        if out_fire:
            st["beats_out"] += 1
            if in_fire and not Q:
                st["bypassed_same_cycle"] += 1
        # the aimed scenario: beat A stored into the empty FIFO (consumer stalled), next cycle beat B offered with ready consumer
        if prev_stored_into_empty and v and r:
            st["window_A_stalled_then_B_ready"] += 1
        prev_stored_into_empty = in_fire and not Q and not out_fire
        if in_fire and len(Q) == cap - 1 and not out_fire:
            st["fills"] += 1
        Q = collections.deque(qa[1:] if out_fire else qa)
    st["nontrivial"] = 1 if st["beats_out"] > 0 else 0
    return None, st


def read_strm(path):
    cur = None
    with open(path) as f:
        for line in f:
            line = line.rstrip("\n")
            if not line:
                continue
            if line[0] == "S":
                if cur:
                    yield cur
                cur = (line, parse_kv(line.replace("|", " ").split()[2:]), [])
            elif line[0] == "s" and cur:
                cur[2].append(line)
            elif line[0] == "X":
                if cur:
                    yield cur
                    cur = None
                yield (line, None, None)
    if cur:
        yield cur


def strm_check(implp, modelp, acc):
    """diff + oracle + premise + selected latency for every case of one strm trace file"""
    mcases = read_strm(modelp) if modelp else None
    for case in read_strm(implp):
        mcase = next(mcases, None) if mcases else None
        if case[1] is None:
            acc["xlines"].append(case[0]); continue
        cline, p, lines = case
        acc["cases"] += 1; acc["events"] += len(lines)
        acc["hash"].add(hashlib.sha1(("\n".join(lines)).encode()).hexdigest())
        acc["grid"][f"lat={p['lat']} depth={p['depth']}"] += 1
        acc["by_latency_option"]["fall-through(0)" if p["ft"] == "1" else p["lat"]] += 1
        exp = strm_expected_latency(p)
        if int(p["L"]) != exp or int(p["L2"]) != exp or int(p["depth"]) != nextpow2(int(p["minDepth"])) or p["single"] != "1":
            acc["lat_viol"].append(dict(case=cline, what=f"strm::fifo built an inner FIFO with depth={p['depth']} L={p['L']}/{p['L2']}, expected depth={nextpow2(int(p['minDepth']))} L={exp}"))
        if p["ft"] == "1" and int(p["L"]) != 1:
            acc["premise"].append(dict(case=cline, what=f"fall-through strm::fifo on an inner FIFO of write-to-empty latency {p['L']}: the side condition c_lat = 1 of strm_fifo_refines_queue does not hold (strm_fallthrough_latency2_refuted shows it is necessary)"))
        if mcase is not None and mcase[1] is not None:
            ml = mcase[2]
            if len(ml) != len(lines):
                acc["mismatches"].append(dict(case=cline, event=min(len(ml), len(lines)), observed="<length>", expected="<length>"))
            else:
                for i, (a, b) in enumerate(zip(lines, ml)):
                    if a != b:
                        acc["mismatches"].append(dict(case=cline, event=i, observed=a, expected=b, context=lines[max(0, i - 6):i + 1])); break
        v, st = oracle_strm(p, lines)
        for kk, vv in st.items():
            acc["classes"][kk] += vv
        if p["ft"] == "1":
            acc["classes"]["fallthrough_window_hits"] += st.get("window_A_stalled_then_B_ready", 0)
            if int(p["depth"]) > 64:
                acc["classes"]["fallthrough_window_hits_depth_gt_64"] += st.get("window_A_stalled_then_B_ready", 0)
        if v:
            v["case"] = cline
            acc["viol"].append(v)
        if len(acc["samples"]) < 2 and p["ft"] == "1" and int(p["depth"]) > 64:
            acc["samples"].append(dict(case=cline, first_cycles=lines[:10]))


def new_sacc():
    return dict(cases=0, events=0, hash=set(), grid=collections.Counter(), by_latency_option=collections.Counter(), classes=collections.Counter(),
                mismatches=[], viol=[], premise=[], lat_viol=[], xlines=[], samples=[], errors=[])


def strm_run(exe, drv, harness_args, tag, acc):
    impl = WORK / f"{tag}.txt"; model = WORK / f"{tag}_model.txt"
    rc, out = run_harness(exe, harness_args(str(impl)))
    if rc != 0:
        acc["errors"].append(f"harness {tag} rc={rc}: {out[-500:]}"); return
    if drv:
        rc, out = V.run([drv, str(impl), str(model)], timeout=3000)
        if rc != 0:
            acc["errors"].append(f"model driver ({tag}) rc={rc}: {out[-500:]}"); return
    strm_check(impl, model if drv else None, acc)


# ----------------------------------------------------------------------------- table of selected latencies
def lat_table(exe, tag="lat"):
    """every (device, clocking, requested latency option, minDepth): what FifoCapabilities::select reports.
    Returns (rows, explicit_violations, other_violations, errors)."""
    path = WORK / f"{tag}.txt"
    rc, out = run_harness(exe, ["lat", str(path)])
    if rc != 0:
        return 0, [], [], [f"harness lat rc={rc}: {out[-500:]}"], {}
    rows = 0; explicit = []; other = []; errs = []; hist = collections.Counter()
    for line in open(path):
        line = line.strip()
        if not line.startswith("Q"):
            continue
        rows += 1
        p = parse_kv(line.replace("|", " ").split()[1:])
        if "error" in p or "depth" not in p:
            errs.append(line); continue
        dual = p["dual"] == "1"; kind, val = p["lat"][0], int(p["lat"][1:])
        got = [int(p[x]) for x in ("we", "rf", "wae", "raf")]
        hist[f"{p['dev']}/{'dual' if dual else 'single'}/{kind}"] += 1
        x7 = p["dev"] == "direct_xilinx7"
        pref = 1 if x7 else 2      # resolveToPreferredMinimum(1) in Xilinx7SeriesFifoCapabilities, (2) in the default
        if dual:
            exp = {"S": val, "D": max(4, pref), "L": max(val, 4), "M": 4}[kind]
        else:
            exp = {"S": val, "D": pref, "L": max(val, pref), "M": min(val, pref)}[kind]
        md = int(p["minDepth"])
        expd = nextpow2(max(512, md)) if x7 else nextpow2(md)
        if kind == "S" and any(g != val for g in got):
            explicit.append(dict(case=line, what=f"latency {val} was requested explicitly, the implementation selected write-to-empty/read-to-full/almost = {got}"))
        elif any(g != exp for g in got) or int(p["depth"]) != expd or (p["single"] == "1") == dual:
            other.append(dict(case=line, what=f"selected latencies {got} depth {p['depth']} single={p['single']}, expected {exp} / {expd}"))
    return rows, explicit, other, errs, dict(hist)


# ----------------------------------------------------------------------------- running
def run_harness(exe, args, timeout=3000):
    rc, out = V.run([exe] + args, timeout=timeout)
    return rc, out


def tie_shard(exe, drv, seed, tiername, tag, mode="tie"):
    impl = WORK / f"impl_{tag}.txt"; model = WORK / f"model_{tag}.txt"
    rc, out = run_harness(exe, [mode, str(seed), tiername, str(impl)])
    if rc != 0:
        return dict(tag=tag, error=f"harness tie rc={rc}: {out[-800:]}")
    if drv:
        rc, out = V.run([drv, str(impl), str(model)], timeout=3000)
        if rc != 0:
            return dict(tag=tag, error=f"model driver rc={rc}: {out[-800:]}", impl=str(impl))
    return dict(tag=tag, impl=str(impl), model=str(model) if drv else None)


def compare(implp, modelp, agg, mismatches, oracle_viol, lat_viol, xlines, samples, always_oracle=True):
    """line-by-line diff of one shard + oracle + coverage"""
    model_cases = None
    if modelp:
        model_cases = read_cases(modelp)
    for case in read_cases(implp):
        mcase = next(model_cases, None) if model_cases else None
        if case[1] is None:
            xlines.append(case[0]); continue
        cline, p, evs = case
        if mcase is not None and mcase[1] is None:
            mcase = None
        agg["cases"] += 1; agg["events"] += len(evs)
        key = f"k={p['k']} L={p['L']} dual={p['dual']}"
        agg["cfg"][key] += 1
        agg["hash"].add(hashlib.sha1(("\n".join(evs)).encode()).hexdigest())
        agg["ratio"][f"{p['fp']}:{p['fo']} {p['trP']}{p['trO']}" if p["dual"] == "1" else "single"] += 1
        agg["pp"][p["pp"]] += 1
        agg["lat_opt"][p["lat"][0] + ("/dual" if p["reqDual"] == "1" else "/single")] += 1
        # latency selection, depth rounding, clock mode
        exp = expected_latency(p)
        md = int(p["minDepth"]); d = 1
        while d < md:
            d <<= 1
        if int(p["L"]) != exp or int(p["L2"]) != exp or int(p["depth"]) != d or p["dual"] != p["reqDual"]:
            lat_viol.append(dict(case=cline, what=f"configuration resolved to depth={p['depth']} L={p['L']}/{p['L2']} dual={p['dual']}, expected depth={d} L={exp} dual={p['reqDual']}"
                                 + (" -- push and pop clock differ in pin or trigger event, the FIFO must be the dual-clock (synchroniser) variant" if p["reqDual"] == "1" and p["dual"] != "1" else "")))
        # structure: clocks that differ in clock pin OR trigger event need clock-crossing synchronisers (2 Node_CDC: put and get pointer)
        if "cdc" in p:
            agg["relation"][f"{p.get('rel')}/gen={p.get('gen')}/mid={p.get('mid')}"] += 1
            if (p["reqDual"] == "1") != (int(p["cdc"]) >= 2):
                lat_viol.append(dict(case=cline, what=f"{p['cdc']} clock-domain-crossing nodes in a FIFO whose push/pop clocks relate as '{p.get('rel')}' (expected {'>= 2: gray-code synchronisers for both pointers' if p['reqDual'] == '1' else '0'})"))
        if mcase is not None:
            mevs = mcase[2]
            if len(mevs) != len(evs):
                mismatches.append(dict(case=cline, event=min(len(mevs), len(evs)), observed="<length>", expected="<length>"))
            else:
                for i, (a, b) in enumerate(zip(evs, mevs)):
                    if a != b:
                        mismatches.append(dict(case=cline, event=i, observed=a, expected=b,
                                               context=evs[max(0, i - 6):i + 1]))
                        break
        if always_oracle:
            v, st = oracle_case(p, evs)
            for kk, vv in st.items():
                agg["classes"][kk] += vv
            if v:
                v["case"] = cline
                oracle_viol.append(v)
        if len(samples) < 3 and len(evs) > 30:
            samples.append(dict(case=cline, first_events=evs[8:20]))


def other_run(exe, drv, seed, tiername, tag="other"):
    """TransactionalFifo / strm::fifo / FifoArray run.  Python oracles for all of them; the
    TransactionalFifo traces are additionally diffed against the extracted machine of FifoTxDefs.v."""
    oimpl = WORK / f"{tag}.txt"; omodel = WORK / f"{tag}_model.txt"
    rc, out = run_harness(exe, ["other", str(seed), tiername, str(oimpl)])
    if rc != 0:
        return dict(error=f"harness other rc={rc}: {out[-500:]}")
    nc, ne, viol, oerrs, kinds = oracle_other(oimpl)
    mism = []; tx_lines = 0
    if drv:
        rc, out = V.run([drv, str(oimpl), str(omodel)], timeout=1200)
        if rc != 0:
            return dict(error=f"model driver (other) rc={rc}: {out[-500:]}")
        hdr = None; idx = 0; bad_hdr = None
        with open(oimpl) as fa, open(omodel) as fb:
            for a, b in zip(fa, fb):
                a = a.rstrip("\n"); b = b.rstrip("\n")
                if a.startswith("T"):
                    hdr = a; idx = 0; continue
                if a.startswith("t "):
                    tx_lines += 1
                    if a != b and bad_hdr != hdr:
                        bad_hdr = hdr
                        mism.append(dict(case=hdr, event=idx, observed=a, expected=b))
                idx += 1
    return dict(cases=nc, events=ne, kinds=dict(kinds), construction_errors=oerrs[:5], viol=viol, mismatches=mism,
                transactional_cycles_diffed_against_coq_machine=tx_lines)


def replay_one(exe, drv, cline, tag="replay"):
    impl = WORK / f"{tag}_impl.txt"; model = WORK / f"{tag}_model.txt"
    rc, out = run_harness(exe, ["replay", str(impl)] + cline.replace("|", " ").split())
    if rc != 0:
        return None, None, f"harness replay rc={rc}: {out[-500:]}"
    if drv:
        V.run([drv, str(impl), str(model)], timeout=600)
    return impl, (model if drv else None), None


def main():
    t0 = time.time()
    tiername = V.tier()
    seed = V.seed()
    WORK.mkdir(parents=True, exist_ok=True)
    V.build_gatery()
    exe = V.build_harness("C15_fifo")
    res = V.check_properties(CID)
    drv = V.build_model(CID)
    if "--build-only" in sys.argv:
        sys.exit(0)
    rep = V.Report(CID)
    rep.add_proof(res)

    # ---------------- replay mode
    if "--replay" in sys.argv:
        rp = json.load(open(sys.argv[sys.argv.index("--replay") + 1]))
        cline = rp.get("case")
        still = []
        if cline and cline.startswith("C"):
            impl, model, err = replay_one(exe, drv, cline)
            if err:
                still.append(err)
            else:
                agg = new_agg(); mm, ov, lv, xl, sm = [], [], [], [], []
                compare(impl, model, agg, mm, ov, lv, xl, sm)
                still = mm + ov + lv + xl
        elif cline and cline.startswith("T"):
            # other FIFO flavours are regenerated from (seed, tier) by the harness' `other` mode
            orr = other_run(exe, drv, rp.get("seed", seed), rp.get("tier", tiername), tag="replay_other")
            if "error" in orr:
                still.append(orr["error"])
            else:
                still = [v for v in orr["viol"] + orr["mismatches"] if v["case"] == cline]
        elif cline and cline.startswith("S"):
            acc = new_sacc()
            strm_run(exe, drv, lambda o: ["sreplay", o] + cline.replace("|", " ").split(), "replay_strm", acc)
            still = acc["errors"] + acc["viol"] + acc["mismatches"] + acc["premise"] + acc["lat_viol"] + acc["xlines"]
        elif cline and cline.startswith("Q"):
            rows, explicit, otherv, lerrs, _ = lat_table(exe, tag="replay_lat")
            key = cline.split("|")[0].strip()
            still = [v for v in explicit + otherv if v["case"].split("|")[0].strip() == key] + lerrs
        else:
            still.append("replay names no concrete case (theorem / build level failure): run the check itself")
        print(json.dumps(dict(replay=cline, still_failing=bool(still), details=still[:2]), indent=1, default=str))
        sys.exit(1 if still else 0)

    agg = new_agg()
    mismatches, oracle_viol, lat_viol, xlines, samples, errors = [], [], [], [], [], []

    # ---------------- corpus first
    corpus = sorted(glob.glob(str(V.VERIF / "corpus" / CID / "*.txt")))
    ncorpus = 0
    sacc = new_sacc()
    for cf in corpus:
        for line in open(cf):
            line = line.strip()
            if line.startswith("S "):
                ncorpus += 1
                strm_run(exe, drv, lambda o, line=line: ["sreplay", o] + line.split(), f"corpus_s{ncorpus}", sacc)
                continue
            if not line.startswith("C "):
                continue
            ncorpus += 1
            impl, model, err = replay_one(exe, drv, line, tag=f"corpus{ncorpus}")
            if err:
                errors.append(err); continue
            compare(impl, model, agg, mismatches, oracle_viol, lat_viol, xlines, samples)

    # ---------------- generated cases (tie)
    nshards = 1 if tiername == "quick" else 8
    with ThreadPoolExecutor(max_workers=nshards) as ex:
        futs = [ex.submit(tie_shard, exe, drv, seed * 100 + i if nshards > 1 else seed, tiername, f"{tiername}{i}") for i in range(nshards)]
        shards = [f.result() for f in futs]
    for sh in shards:
        if "error" in sh:
            errors.append(sh["error"])
            if "impl" not in sh:
                continue
        compare(sh["impl"], sh.get("model"), agg, mismatches, oracle_viol, lat_viol, xlines, samples)

    # clock-relation family: same pin / other trigger edge, derived with multiplier, root clocks x scope of generate() x mid-cycle requests
    for i in range(1 if tiername == "quick" else 2):
        sh = tie_shard(exe, drv, seed * 10 + i, tiername, f"rel_{tiername}{i}", mode="rel")
        if "error" in sh:
            errors.append(sh["error"])
        if "impl" in sh:
            compare(sh["impl"], sh.get("model"), agg, mismatches, oracle_viol, lat_viol, xlines, samples)

    # gray code
    gimpl = WORK / "gray_impl.txt"; gmodel = WORK / "gray_model.txt"
    rc, out = run_harness(exe, ["gray", str(gimpl)])
    gray_n = 0; gray_mm = []
    if rc != 0:
        errors.append(f"harness gray rc={rc}: {out[-500:]}")
    else:
        # independent definition of the binary-reflected gray code
        for line in open(gimpl):
            _, w, x, _, e, d = line.split()
            w, x = int(w), int(x); gray_n += 1
            dec = 0; y = x
            while y:
                dec ^= y; y >>= 1
            if e != str(x ^ (x >> 1)) or d != str(dec):
                oracle_viol.append(dict(case=f"gray w={w} x={x}", event=0, what=f"grayEncode/Decode gave {e}/{d}, definition {x ^ (x >> 1)}/{dec}", line=line.strip()))
                break
        if drv:
            V.run([drv, str(gimpl), str(gmodel)], timeout=600)
            for a, b in zip(open(gimpl), open(gmodel)):
                if a.strip() != b.strip():
                    gray_mm.append(dict(case="gray", event=gray_n, observed=a.strip(), expected=b.strip())); break
    mismatches += gray_mm

    # ---------------- other FIFO flavours: differential against plain queues only
    other = dict(cases=0, events=0, kinds={}, construction_errors=[])
    other_viol = []; tx_mismatches = []
    orr = other_run(exe, drv, seed, tiername)
    if "error" in orr:
        errors.append(orr["error"])
    else:
        other_viol = orr.pop("viol"); tx_mismatches = orr.pop("mismatches")
        other = orr
    mismatches += tx_mismatches

    # ---------------- strm::fifo: every latency option (0 = fall-through) x depth, tie + oracle + side condition
    nsh = 1 if tiername == "quick" else 4
    for i in range(nsh):
        strm_run(exe, drv, lambda o, i=i: ["strm", str(seed * 10 + i if nsh > 1 else seed), tiername, o], f"strm_{tiername}{i}", sacc)
    errors += sacc["errors"]
    mismatches += sacc["mismatches"]
    xlines += sacc["xlines"]
    lat_viol += sacc["lat_viol"]
    strm_viol = sacc["viol"]; premise_viol = sacc["premise"]

    # ---------------- the latencies FifoCapabilities::select reports, as a table
    lat_rows, lat_explicit, lat_other, lat_errs, lat_hist = lat_table(exe)
    errors += lat_errs
    lat_viol += lat_other

    # ---------------- verdict
    tie_broken = (bool(mismatches) or drv is None or not res["ok"] or bool(errors) or bool(xlines) or bool(lat_viol)
                  or bool(premise_viol) or bool(lat_explicit))
    search_info = {}
    strm_suspect = bool(premise_viol) or any(m["case"].startswith("S") for m in mismatches) or any(v["case"].startswith(("S", "Q")) for v in lat_viol + lat_explicit)
    if tie_broken and strm_suspect and not strm_viol:
        # search mode for the stream wrapper: more strm::fifo runs against the plain queue
        budget = 60 if tiername == "quick" else 600
        ts = time.time(); rounds = 0
        while time.time() - ts < budget and not strm_viol and rounds < (3 if tiername == "quick" else 20):
            a2 = new_sacc()
            strm_run(exe, None, lambda o, rounds=rounds: ["strm", str(seed * 7 + 500 + rounds), "search", o], f"search_strm{rounds}", a2)
            strm_viol = a2["viol"]; rounds += 1
            search_info["extra_strm_cases"] = search_info.get("extra_strm_cases", 0) + a2["cases"]
        search_info["strm_rounds"] = rounds
    if tie_broken and not oracle_viol and not other_viol and not strm_viol:
        # search mode: more of the real implementation against the plain queue (the traces above were
        # already checked by the oracle); budget quick 60 s / thorough 10 min
        budget = 60 if tiername == "quick" else 600
        ts = time.time(); rounds = 0
        only_tx = bool(mismatches) and all(m["case"].startswith("T") for m in mismatches) and res["ok"] and drv and not errors and not xlines and not lat_viol
        while time.time() - ts < budget and not oracle_viol and not other_viol and rounds < (2 if tiername == "quick" else 20):
            if only_tx:
                # the disagreement is in TransactionalFifo: hunt there
                o2 = other_run(exe, None, seed * 7 + 1000 + rounds, "thorough", tag=f"search_other{rounds}")
                if "error" not in o2:
                    other_viol = o2["viol"]
                    search_info["extra_cases"] = search_info.get("extra_cases", 0) + o2["cases"]
            else:
                sh = tie_shard(exe, None, seed * 7 + 1000 + rounds, "search", f"search{rounds}", mode=("rel" if rounds % 2 == 0 and any("rel=" in v["case"] for v in lat_viol + mismatches if isinstance(v.get("case"), str)) else "tie"))
                if "impl" in sh:
                    a2 = new_agg(); sm2 = []
                    compare(sh["impl"], None, a2, [], oracle_viol, [], [], sm2)
                    search_info["extra_cases"] = search_info.get("extra_cases", 0) + a2["cases"]
            rounds += 1
        search_info["rounds"] = rounds

    known, _fixed = V.known_findings(CID)

    def emit(obj, nofail=False, tag=None):
        txt = json.dumps(obj, sort_keys=True, default=str)
        for kf in known:
            if kf in txt:
                rep.known(kf); return
        rep.violation(obj, nofail=nofail, tag=tag)

    if oracle_viol:
        v = oracle_viol[0]
        emit(dict(property=CID, kind="queue-oracle", case=v["case"], event=v.get("event"), what=v["what"], observed=v.get("line"),
                  expected="behaviour of a bounded FIFO queue (items out == items in, in order; no accept at capacity; no item when empty; almost flags conservative)",
                  how_to_replay="checks/C15.py --replay <this file>",
                  broke=("correspondence with the Coq machine also differs" if mismatches else "plain-queue oracle on the real scl::Fifo")), tag="oracle")
    elif tie_broken:
        if mismatches:
            m = mismatches[0]
            emit(dict(property=CID, kind="tie-mismatch", case=m["case"], event=m["event"], observed=m["observed"], expected=m["expected"],
                      context=m.get("context"), n_mismatching_cases=len(mismatches),
                      what="the real FIFO (scl::Fifo for C cases, scl::TransactionalFifo for T cases) and the extracted Coq machine (FifoDefs.v / FifoTxDefs.v) disagree cycle-accurately on this schedule; the theorems of Properties_C15.v no longer describe the implementation",
                      theorems_failed=res["failed"], model_extracts=drv is not None,
                      search=search_info, how_to_replay="checks/C15.py --replay <this file>"), nofail=True, tag="tie")
        elif lat_viol:
            emit(dict(property=CID, kind="configuration", **lat_viol[0], search=search_info), nofail=True, tag="cfg")
        elif xlines:
            emit(dict(property=CID, kind="construction-error", case=xlines[0], what="the real scl::Fifo threw for a legal configuration", search=search_info), nofail=True, tag="throw")
        elif not res["ok"]:
            emit(dict(property=CID, kind="proof", failed=res["failed"], log=res["log"][-1500:], what="theorems of Properties_C15.v no longer check", search=search_info), nofail=True, tag="proof")
        elif drv is None:
            emit(dict(property=CID, kind="model", what="Extract_C15.v no longer compiles", log=V.last_model_log[-1500:], search=search_info), nofail=True, tag="model")
        else:
            emit(dict(property=CID, kind="harness", what="harness run failed", errors=errors[:3], search=search_info), nofail=True, tag="harness")
    if strm_viol:
        v = strm_viol[0]
        emit(dict(property=CID, kind="strm-fifo-oracle", case=v["case"], event=v.get("event"), what=v["what"], observed=v.get("line"),
                  expected="strm::fifo delivers the beats that entered, in order (bounded queue at the stream interface; fall-through may deliver in the entry cycle)",
                  side_condition_broken=[x["what"] for x in premise_viol[:1]], latency_table=[x["what"] for x in lat_explicit[:1]],
                  how_to_replay="checks/C15.py --replay <this file>"), tag="strm")
    elif premise_viol:
        emit(dict(property=CID, kind="theorem-premise", **premise_viol[0], search=search_info, how_to_replay="checks/C15.py --replay <this file>"), nofail=True, tag="premise")
    if lat_explicit:
        v = lat_explicit[0]
        emit(dict(property=CID, kind="latency-table", case=v["case"], what=v["what"], n_rows_violating=len(lat_explicit),
                  expected="an explicitly requested FifoLatency is the latency the implementation reports (FifoCapabilities::select)",
                  how_to_replay="checks/C15.py --replay <this file>"), tag="lat")
    if other_viol:
        v = other_viol[0]
        emit(dict(property=CID, kind="other-fifo-oracle", case=v["case"], line_no=v["line_no"], observed=v["line"], what=v["what"],
                  expected="queue (with checkpoints for TransactionalFifo) semantics", n=len(other_viol), seed=seed, tier=tiername,
                  how_to_replay="checks/C15.py --replay <this file>"), tag="other")

    # ---------------- evidence
    cov = rep.cov
    cov["evaluations"] = agg["cases"] + gray_n + other["cases"] + sacc["cases"] + lat_rows
    cov["distinct_nontrivial"] = min(len(agg["hash"]), agg["classes"].get("nontrivial", 0))
    cov["rule"] = ("a case = one FIFO configuration (depth, latency option, single/dual clock with frequency ratio and trigger edges, "
                   "postprocess on/off, almost-levels, payload width) simulated under one seeded 8-phase request schedule (fill/drain, both-always, "
                   "boundary hugging, random); non-trivial = the trace accepts and delivers items, reaches full=1 and afterwards drains to an empty queue; "
                   "distinct = distinct event traces (sha1). distinct_nontrivial = min(#distinct traces, #non-trivial cases).")
    cov["samples"] = samples
    cov["traces_validated_against_impl"] = agg["cases"] + sacc["cases"]
    cov["events_compared"] = agg["events"]
    cov["tie_mismatching_cases"] = len(mismatches)
    cov["corpus_cases"] = ncorpus
    cov["gray_code_points"] = gray_n
    cov["config_histogram"] = dict(sorted(agg["cfg"].items()))
    cov["clock_relation_histogram"] = dict(agg["ratio"])
    cov["postprocess_histogram"] = dict(agg["pp"])
    cov["clock_relation_family_histogram"] = dict(agg["relation"])
    cov["latency_option_histogram"] = dict(agg["lat_opt"])
    cov["case_classes"] = dict(agg["classes"])
    cov["model_branches"] = dict(step_single=sum(v for kk, v in agg["cfg"].items() if kk.endswith("dual=0")),
                                 step_push=agg["classes"].get("ev_P", 0), step_pop=agg["classes"].get("ev_O", 0),
                                 step_both_or_single=agg["classes"].get("ev_B", 0),
                                 latency1_write_first_cases=sum(v for kk, v in agg["cfg"].items() if " L=1 " in kk))
    cov["other_fifos"] = other
    cov["strm_fifo"] = dict(cases=sacc["cases"], cycles_diffed_against_coq_machine=sacc["events"], distinct_traces=len(sacc["hash"]),
                            by_latency_option=dict(sacc["by_latency_option"]), grid_latency_x_depth=dict(sorted(sacc["grid"].items())),
                            classes=dict(sacc["classes"]), samples=sacc["samples"],
                            fallthrough_side_condition_violations=len(premise_viol))
    cov["latency_table"] = dict(rows=lat_rows, explicit_request_not_honoured=len(lat_explicit), other_deviations=len(lat_other), histogram=lat_hist)
    cov["search_mode"] = search_info
    cov["explanation"] = ("Theorems are universal (all depths 2^k, latencies, schedules, dual-clock interleavings incl. both metastable capture outcomes). "
                          "The sampled part is only the correspondence FifoDefs.v <-> scl::Fifo and FifoTxDefs.v <-> scl::TransactionalFifo (single clock). "
                          "strm::fifo incl. its fall-through mode: FifoStrmDefs.v, diffed cycle-accurately; its theorem needs inner latency 1 for fall-through, "
                          "which is checked against the latency the implementation selects (FifoMeta) on every case and in the latency table. "
                          "FifoArray and the dual-clock TransactionalFifo have NO Coq machine: they are exercised against python queue oracles only "
                          "(dual-clock TransactionalFifo not at all: its only test in the repository is commented out).")
    rep.assumptions += [
        "FifoDefs.v is a hand transcription of Fifo.h/cdc.cpp; its agreement with the code is established by the sampled cycle-accurate diff only",
        "reference simulator semantics (registers, memory ports, clock edge ordering) are taken as the meaning of the generated circuit (C01/C04/C07 cover them)",
        "dual clock: a synchroniser is an exact delay line, or at coincident edges captures old/new value (gray_one_bit); analogue metastability resolution time is not modelled",
        "device specific FIFO primitives (arch/xilinx/FifoPattern.cpp, Intel) replace scl_fifo by vendor macros and are not covered",
        "almostFull(level) is proved conservative for level < depth only (level = depth: reset value '0' is wrong for one cycle, also in the real FIFO)",
        "single clock: generate() must be called in the clock scope of push/pop (its delay registers use the ambient clock)",
        "acc/del columns of the trace are derived from request & flag (the interface contract); real acceptance is observed through the later flags/peek",
    ]
    cov["wall_tie_s"] = round(time.time() - t0, 1)
    rep.finish()


def new_agg():
    return dict(cases=0, events=0, cfg=collections.Counter(), hash=set(), ratio=collections.Counter(), pp=collections.Counter(), relation=collections.Counter(),
                lat_opt=collections.Counter(), classes=collections.Counter())


if __name__ == "__main__":
    main()
