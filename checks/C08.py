#!/usr/bin/env python3
"""C08 (node level): a value the simulator reports as defined is never wrong.

  1. rebuild gatery + harness/C03_node.cpp (shared with C03),
  2. re-check coq/Gatery/Properties_C08.v (eval_compat / eval_mono / C08_constfold / registers),
  3. extracted model (shared with C03: coq/extract/Extract_C03.v + ocaml/C03_driver.ml),
  4. correspondence of the model with the real nodes on cases that are rich in undefined bits,
  5. the independent oracle of this property, on the REAL implementation only: every abstract case
     (operands with X bits) is run together with its concretisations (all 2^k if k <= 6, else
     sampled) and with partial refinements; the abstract result must never contradict a more
     defined run (compat), must be below it when the node is monotone (every kind except
     multiplexers with fewer than 2^selwidth inputs), and must not depend on the hidden VALUE
     plane of undefined bits.
"""
import sys, os; sys.path.insert(0, os.path.join(os.path.dirname(os.path.abspath(__file__)), "..", "lib"))
import vcommon as V
import importlib.util, json, random, time, collections, itertools
from pathlib import Path

_spec = importlib.util.spec_from_file_location("C03", os.path.join(os.path.dirname(os.path.abspath(__file__)), "C03.py"))
C3 = importlib.util.module_from_spec(_spec); _spec.loader.exec_module(C3)

CID = "C08"

# ----------------------------------------------------------------------------

def x_positions(case):
    """indices (in the case line) of undefined operand bits, i.e. X/x after the '|'"""
    bar = case.index("|")
    return [i for i in range(bar + 1, len(case)) if case[i] in "Xx"]

def substitute(case, pos, bits):
    s = list(case)
    for p, b in zip(pos, bits): s[p] = b
    return "".join(s)

def flip_hidden(case):
    bar = case.index("|")
    return case[:bar] + case[bar:].translate(str.maketrans("Xx", "xX"))

def contradiction(abstract, concrete):
    """first position where a defined abstract bit differs from a defined concrete bit"""
    if len(abstract) != len(concrete): return ("length", abstract, concrete)
    for i, (a, c) in enumerate(zip(abstract, concrete)):
        if a in "01" and c in "01" and a != c: return i
        if (a in "01X") != (c in "01X"): return ("shape", i)
    return None

def not_below(abstract, concrete):
    """first position where the abstract result is defined but the refined one differs (not a [= c)"""
    if len(abstract) != len(concrete): return ("length", abstract, concrete)
    for i, (a, c) in enumerate(zip(abstract, concrete)):
        if a in "01" and c != a: return i
    return None

def monotone_kind(case):
    """eval_mono's side condition total_mux: every kind except a multiplexer whose selector can be out of range"""
    kind, par, ops = C3.parse_case(case)
    if kind != "mux": return True
    sel = ops[0]
    if sel == "-": return True
    return (1 << (len(sel) - 1)) <= int(par[0])

def usable(case):
    """cases with undefined operand bits whose harness run cannot throw"""
    return len(x_positions(case)) > 0

def refinements(case, rnd, max_enum=6, nsample=10):
    """list of (tag, refined case): all concretisations when few X, else samples; plus partial refinements"""
    pos = x_positions(case)
    out = []
    k = len(pos)
    if k <= max_enum:
        for bits in itertools.product("01", repeat=k):
            out.append(("concrete", substitute(case, pos, bits)))
    else:
        out.append(("concrete", substitute(case, pos, "0" * k)))
        out.append(("concrete", substitute(case, pos, "1" * k)))
        for _ in range(nsample):
            out.append(("concrete", substitute(case, pos, [rnd.choice("01") for _ in range(k)])))
    for _ in range(2 if k > 1 else 0):                      # partial refinements: keep some X
        sub = [p for p in pos if rnd.random() < 0.5]
        if sub and len(sub) < k:
            out.append(("partial", substitute(case, sub, [rnd.choice("01") for _ in sub])))
    return out

def oracle_run(harness, cases, rnd, tag):
    """runs abstract cases + refinements on the real implementation; returns (violations, stats)"""
    batch, index = [], []              # index: (abstract idx in batch, refined idx, tag)
    for c in cases:
        ai = len(batch); batch.append(c)
        hi = len(batch); batch.append(flip_hidden(c)); index.append((ai, hi, "hidden"))
        for t, rc in refinements(c, rnd):
            ri = len(batch); batch.append(rc); index.append((ai, ri, t))
    res, rc = C3.run_harness(harness, "direct", batch, tag)
    viol, st = [], collections.Counter()
    st["harness_evaluations"] = len(batch)
    for ai, ri, t in index:
        a, r = res[ai], res[ri]
        # a forwarding SIGNAL/ATTR case is SKIPped by the direct mode on both sides
        if a.startswith(("EXC", "MISSING", "WIDTH")) or r.startswith(("EXC", "MISSING", "WIDTH")):
            viol.append({"what": "harness failure", "abstract_case": batch[ai], "refined_case": batch[ri], "abstract_out": a, "refined_out": r}); continue
        if t == "hidden":
            st["hidden_plane_pairs"] += 1
            if a != r:
                viol.append({"what": "result depends on the hidden VALUE plane of undefined bits", "abstract_case": batch[ai],
                             "refined_case": batch[ri], "abstract_out": a, "refined_out": r})
            continue
        st["compat_pairs:" + t] += 1
        c = contradiction(a, r)
        if c is not None:
            viol.append({"what": "a bit reported as defined is contradicted by a more defined run (C08)", "position": c,
                         "abstract_case": batch[ai], "refined_case": batch[ri], "abstract_out": a, "refined_out": r})
            continue
        if monotone_kind(batch[ai]):
            st["mono_pairs"] += 1
            nb = not_below(a, r)
            if nb is not None:
                viol.append({"what": "making inputs more defined made a defined output bit undefined (monotonicity, total_mux holds)", "position": nb,
                             "abstract_case": batch[ai], "refined_case": batch[ri], "abstract_out": a, "refined_out": r})
        else:
            st["non_total_mux_pairs"] += 1
            if not_below(a, r) is not None: st["non_total_mux_nonmonotone_observed"] += 1
    return viol, st, dict(zip(range(len(batch)), zip(batch, res)))

def x_class(k):
    return "1" if k == 1 else "2-6" if k <= 6 else "7-32" if k <= 32 else "33+"

def gen_cases(tier, seed):
    """abstract cases: the C03 generator restricted to cases with undefined operand bits, plus exhaustive small ones"""
    g = C3.Gen(seed * 31 + 8)
    cases = C3.corpus_cases(CID)
    ncorpus = len(cases)
    n = 60000 if tier == "thorough" else 5000
    cases += [c for c in C3.exhaustive_cases(3 if tier == "thorough" else 2, "01X") if usable(c)]
    tries = 0
    pool = []
    while len(pool) < n and tries < 40:
        pool += [c for c in g.random_cases(n) if usable(c)]; tries += 1
    cases += pool[:n]
    return cases, ncorpus

def replay(path, harness):
    obj = json.loads(Path(path).read_text())
    cs = [obj["abstract_case"], obj["refined_case"]]
    res, _ = C3.run_harness(harness, "direct", cs, "replay08")
    print("abstract:", cs[0], "->", res[0]); print("refined :", cs[1], "->", res[1])
    bad = contradiction(res[0], res[1]) is not None or (cs[1] == flip_hidden(cs[0]) and res[0] != res[1]) \
        or (monotone_kind(cs[0]) and not_below(res[0], res[1]) is not None and cs[1] != flip_hidden(cs[0]))
    print("REPLAY", "STILL FAILS" if bad else "passes")
    return 1 if bad else 0

def tb(v, d):
    return ("1" if v else "0") if d else "X"


def logic4(op, a, b):
    """independent 4-state definition of the logic operations (python, not derived from the model)"""
    def and4(x, y): return "0" if "0" in (x, y) else ("1" if x == y == "1" else "X")
    def not4(x): return {"0": "1", "1": "0", "X": "X"}[x]
    def or4(x, y): return not4(and4(not4(x), not4(y)))
    def xor4(x, y): return "X" if "X" in (x, y) else ("1" if x != y else "0")
    return {"AND": lambda: and4(a, b), "NAND": lambda: not4(and4(a, b)), "OR": lambda: or4(a, b), "NOR": lambda: not4(or4(a, b)),
            "XOR": lambda: xor4(a, b), "EQ": lambda: not4(xor4(a, b)), "NOT": lambda: not4(a)}[op]()


def logic_src_counterexamples():
    """the source-regenerated theorems broke: enumerate the 7 x 16 plane combinations of the formulas the
    translator reads from the CURRENT Node_Logic.cpp and compare with the 4-state definition"""
    rc, out = V.run([sys.executable, str(V.VERIF / "translate" / "C08_logicplanes.py"), "--table", str(V.REPO)], timeout=60)
    if rc != 0:
        return []
    bad = []
    for r in json.loads(out):
        a, b = tb(r["left"], r["leftDefined"]), tb(r["right"], r["rightDefined"])
        got, want = tb(r["result"], r["resultDefined"]), logic4(r["op"], a, b)
        # C08: a defined result must be the 4-state definition's value (which is the value every concretisation gives)
        if got != want:
            bad.append(dict(r, operand_a=a, operand_b=b, source_formula_result=got, four_state_definition=want,
                            note="hidden VALUE-plane bit under an undefined operand: left=%d right=%d" % (r["left"], r["right"])))
    return bad


def main():
    tier = V.tier()
    rep = V.Report(CID)
    V.build_gatery()
    harness = V.build_harness("C03_node")
    res = V.check_properties(CID)
    # S3: regenerate the plane formulas of Node_Logic::simulateEvaluate from the current source (fail closed)
    gen = V.COQ / "Gatery" / "gen" / "LogicSrc.v"
    with V.Lock("coq_C08_gen"):
        trc, tout = V.run([sys.executable, str(V.VERIF / "translate" / "C08_logicplanes.py"), str(V.REPO), str(gen)], timeout=120)
        if trc != 0:
            for f in (V.COQ / "Gatery" / "gen").glob("LogicSrc.*"):
                try: f.unlink()
                except OSError: pass
        res_src = V.check_properties(CID + "src")
    driver = V.build_model("C03")
    if "--build-only" in sys.argv: sys.exit(0)
    if "--replay" in sys.argv: sys.exit(replay(sys.argv[sys.argv.index("--replay") + 1], harness))
    rep.add_proof(res)
    rep.add_proof(res_src, checker_cmd="translate/C08_logicplanes.py /repo coq/Gatery/gen/LogicSrc.v && make -C coq -k Gatery/Properties_C08.vo Gatery/Properties_C08src.vo  (coqc 8.16.1, full .vo build, Print Assumptions per theorem)")
    rep.cov["source_regenerated"] = dict(translator="translate/C08_logicplanes.py", output="coq/Gatery/gen/LogicSrc.v", status=tout.strip()[:300],
                                         theorems=res_src["obligations"], discharged=res_src["discharged"])
    src_broken = (trc != 0) or not res_src["ok"]
    src_cex = logic_src_counterexamples() if src_broken else []
    rnd = random.Random(V.seed() * 77 + 5)

    cases, ncorpus = gen_cases(tier, V.seed())
    # (4) correspondence model <-> implementation on the abstract cases
    impl, _ = C3.run_harness(harness, "direct", cases, CID)
    impl_static, _ = C3.run_harness(harness, "static", cases, CID)
    model = C3.run_model(driver, cases, CID)[0] if driver else None
    problems = []
    if not res["ok"]: problems.append("proof obligations failed: %s\n%s" % (res["failed"], res["log"][-1500:]))
    if driver is None: problems.append("extracted model no longer builds: " + V.last_model_log[-800:])
    dis, cnt = C3.compare(cases, impl, impl_static, model if model else impl, oracle=False)
    if model is None: dis = []

    # (5) the oracle on the real implementation
    viol, st, _ = oracle_run(harness, cases, rnd, CID + "_oracle")
    searched = 0.0
    if (problems or dis) and not viol:
        # search mode: start from the disagreeing cases (already part of `cases`), then fresh ones
        budget = 60 if tier == "quick" else 600
        t0 = time.time(); g = C3.Gen(V.seed() + 4242)
        while not viol and time.time() - t0 < budget:
            extra = [c for c in g.random_cases(6000) if usable(c)]
            v2, st2, _ = oracle_run(harness, extra, rnd, CID + "_search")
            st.update(st2); viol += v2
        searched = time.time() - t0

    if viol:
        viol.sort(key=lambda v: len(v["abstract_case"]))
        seen = set()
        for v in viol:
            k = (v["what"], " ".join(v["abstract_case"].split("|")[0].split()[:2]))
            if k in seen or len(seen) >= 5: continue
            seen.add(k)
            v.update({"property": CID, "broke": problems + (["%d model/implementation lines differ" % len(dis)] if dis else []),
                      "replay_cmd": "python3 checks/C08.py --replay <this file>", "total_violating_pairs": len(viol)})
            rep.violation(v)
    elif problems or dis:
        rep.violation({"property": CID, "no_failing_input_found": True, "searched_s": round(searched, 1),
                       "broke": problems + ["%d model/implementation lines differ; first: %r" % (len(dis), [(cases[d[0]],) + d[1:] for d in dis[:3]])]},
                      nofail=True)

    # ---- evidence --------------------------------------------------------------
    hist = collections.Counter(); distinct = set()
    for c, d in zip(cases, impl):
        name, wcls, dcls, branch = C3.classify(c, d)
        outc = "out-all-X" if not any(ch in d for ch in "01") else "out-all-defined" if "X" not in d else "out-partly-defined"
        hist["%s|X=%s|%s%s" % (name, x_class(len(x_positions(c))), outc, ("|" + branch) if branch else "")] += 1
        if any(ch in d for ch in "01"): distinct.add(c)
    rep.cov["evaluations"] = st["harness_evaluations"] + 2 * len(cases)
    rep.cov["distinct_nontrivial"] = len(distinct)
    rep.cov["rule"] = ("abstract cases = corpus + exhaustive small widths + seeded random cases (generator of C03) that contain at least one undefined "
                       "operand bit; each is run with its hidden-plane twin, all 2^k concretisations (k <= 6) or 12 sampled ones, and partial "
                       "refinements. distinct non-trivial = distinct abstract case lines whose abstract result has at least one DEFINED bit "
                       "(only those constrain C08)")
    rep.cov["samples"] = [{"abstract": cases[i], "impl": impl[i], "model": model[i] if model else None}
                          for i in sorted(set([ncorpus, len(cases) // 3, len(cases) // 2, len(cases) - 1])) if i < len(cases)]
    rep.cov["traces_validated_against_impl"] = len(cases) + cnt["static:compared"]
    rep.cov["abstract_cases"] = len(cases)
    rep.cov["corpus_cases"] = ncorpus
    rep.cov["oracle"] = dict(st)
    rep.cov["static_mode"] = dict(cnt)
    rep.cov["disagreements"] = len(dis)
    rep.cov["histogram_kind_xcount_outcome_branch"] = dict(sorted(hist.items()))
    rep.cov["exhaustive"] = False
    rep.assumptions = [
        "modelled, not verified: NodeSemDefs.v/NodeSemReg.v are hand transcriptions; agreement with the C++ is established by sampled differential runs (here and in C03)",
        "circuit level: run_compat / mrun_compat lift eval_compat / reg_*_compat / mem_*_compat over evaluation order and cycles (NetRefine.v, NetMemRefine.v); checks/C08b.py runs abstract vs refined stimuli on the real simulator",
        "refinement of parameters (constants with undefined bits, register reset values) is not enumerated, only operand bits",
        "memory ports at node level: C07's mem_compat / mem_read_compat; at circuit level NetMemRefine.v (C08_circuit_with_memories) over the cycle semantics NetMemDefs.v, which C07's certificate tie validates against the real simulator",
        "circuit-level theorems assume the ports of a memory agree on the word width and previous-write-port lists name ports of the same memory (mnl_wf, decidable: mnl_wfb); undefined power-on memory contents cannot be concretised through the simulator API, so the differential run refines stimuli only",
    ]
    import C08b
    C08b.run(rep)
    if src_broken:
        if src_cex:
            rep.violation({"property": CID, "kind": "source formulas of Node_Logic::simulateEvaluate (regenerated by the translator) contradict the 4-state definition",
                           "failing_inputs": src_cex[:8], "n": len(src_cex), "theorems_failed": res_src["failed"],
                           "how_to_replay": "a Node_Logic of that operation, width 1, operand planes as given (VALUE bit under an undefined operand set through the state vector): see checks/C08.py direct mode with hidden-plane twins"},
                          tag="logicsrc")
        else:
            rep.violation({"property": CID, "no_failing_input_found": True, "kind": "source-regenerated theorems no longer check",
                           "translator": tout.strip()[:500], "theorems_failed": res_src["failed"], "log": res_src["log"][-1500:]}, nofail=True, tag="logicsrc")
    rep.finish()


if __name__ == "__main__":
    main()
