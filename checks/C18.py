#!/usr/bin/env python3
"""C18 -- the four-state bit-vector container behaves like a plain array of bits.

Pipeline (AGENT_BRIEF.md): rebuild gatery + harness from /repo's working tree, re-check
coq/Gatery/Properties_C18.v, extract the word-level model, generate operation sequences
(seeded; aimed at offset mod 64 in {0,1,7,8,56,63} and sizes {0,1,7,8,63,64,65,127,128,129,200}),
run them on the real DefaultBitVectorState / ExtendedBitVectorState (harness/C18_bvs.cpp) and
on the extracted Coq model (ocaml/C18_driver.ml), diff line by line.  If anything breaks:
search mode = the same harness against its std::vector<bool> oracle (independent of the Coq
model) to find a concrete failing input.

CLI: checks/C18.py [--tier quick|thorough] [--replay <file>] [--build-only]
"""
import sys, os
sys.path.insert(0, os.path.join(os.path.dirname(os.path.abspath(__file__)), "..", "lib"))
import vcommon as V
import json, random, time, re, glob, subprocess
from collections import Counter
from pathlib import Path

CID = "C18"
OFFM = [0, 1, 7, 8, 56, 63]
SIZES = [0, 1, 7, 8, 63, 64, 65, 127, 128, 129, 200]
EQ_SIZES = [0, 1, 63, 64, 65, 127, 128, 129, 192, 256]
# operations whose result is a yes/no answer: the evidence tallies how often each answer was observed
PREDICATES = ("get", "eq", "cmp", "allone", "allzero", "anydef", "alldef", "alldefns", "cmpval", "eqdef", "canrep", "eqbytes")
PRED_SIZES = [1, 7, 63, 64, 65, 127, 128, 129, 130]
WORK = V.BUILD / "c18"

# Deviations of the real library from the array-of-bits reading that were confirmed while this check
# was built.  Each is probed on the real library on every run:
#   * still present and KNOWN_FINDINGS.txt has a `known:` line containing `key`  -> KNOWN-FINDING
#   * still present (or back again) without such a line                           -> VIOLATION with the concrete input
#   * fixed in /repo (`fixed:` lines) and absent                                  -> nothing, the probe is a regression guard
# Any other oracle mismatch is a violation.
FINDINGS = {
    "octal22": dict(
        key="octal",
        text=("parseBitVector must accept octal literals of 22 and more digits (digit 21 occupies bits 63..65, digit 42 "
              "bits 126..128), also with X digits and a width prefix (regression of /repo 659d324)"),
        probe=["S probe 2 1",
               "parse 0 o0000000000000000000000", "resize 0 1",
               "parse 0 o7000000000000000000001", "resize 0 1",
               "parse 0 o12345670123456701234567", "resize 0 1",
               "parse 0 o5x0000000000000000000X3", "resize 0 1",
               "parse 0 o1234567012345670123456701234567012345670123", "resize 0 1",
               "parse 0 o7X34567012345670123456x01234567012345670127", "resize 0 1",
               "parse 0 130o1234567012345670123456701234567012345670123", "resize 0 1",
               "parse 0 66o1234567012345670123456", "E"]),
    "random_then_resize_exposes_stale_bits": dict(
        key="createRandom",
        text=("createRandomDefaultBitVectorState(10) leaves random bits above size() in the last word: a copy that "
              "compares equal differs after both are resize(30)d (regression of /repo 0690f16; "
              "harness: build/harness/C18_bvs probe)"),
        probe=None),
    "fmt16_decimal_digits": dict(
        key="formatState",
        text=("formatState(base 16) does not print one hex digit per nibble: 16-bit 0x00AB must print \"AB\"/\"00AB\" "
              "and 0x1011 \"1011\" (regression of /repo b90a265)"),
        probe=["S probe 2 1", "resize 0 16", "setrange 0 1 0 16 1", "insw 0 0 0 16 ab", "fmt 0 16 1", "fmt 0 16 0",
               "insw 0 0 0 16 1011", "fmt 0 16 1", "E"]),
}



# Public interface of BitVectorState.h / BitVectorState.cpp versus what this check covers.
# level: T = universal Coq theorem (Properties_C18.v), M = Coq model compared with the real library on every
# generated case (tie), O = additionally compared with the harness's own bit-array oracle.
# `ops` are the operation-file tokens; their executed counts are added to the evidence at run time.
PUBLIC_API = [
    ("BitVectorState::resize", ["resize"], "TMO", "C18_resize, C18_resize_keeps_prefix"),
    ("BitVectorState::size", [], "MO", "part of every contents dump"),
    ("BitVectorState::clear() followed by resize", ["clearresize"], "TMO", "C18_clear_then_resize; clear() alone leaves size() unchanged with empty storage, see observations"),
    ("BitVectorState::get", ["get"], "TMO", "C18_get"),
    ("BitVectorState::set(plane,idx) / set(plane,idx,bit) / clear(plane,idx) / toggle", ["set1", "setb", "clear", "toggle"], "TMO", "C18_set1/_set/_clear/_toggle"),
    ("BitVectorState::setRange (3 overloads) / clearRange", ["setrange"], "TMO", "C18_setRange"),
    ("BitVectorState::copyRange", ["copy"], "TMO", "C18_copyRange (source and destination distinct objects)"),
    ("BitVectorState::compareRange (DefaultConfig, ExtendedConfig specialisations)", ["cmp"], "TMO", "C18_compareRange_default/_extended"),
    ("BitVectorState::data (read)", [], "M", "every contents dump reads the words through data()"),
    ("BitVectorState::asBytes", ["asbytes"], "TMO", "C18_asBytes"),
    ("BitVectorState::extract(start,size)", ["exts"], "TMO", "C18_extract_state"),
    ("BitVectorState::insert(state,offset,size)", ["inss"], "TMO", "C18_insert_state"),
    ("BitVectorState::extract(plane,offset,size) / extractNonStraddling / head", ["extw", "extns", "head"], "TMO", "C18_extract_word, C18_extractNonStraddling, C18_head"),
    ("BitVectorState::insert(plane,offset,size,value) / insertNonStraddling", ["insw", "insns"], "TMO", "C18_insert_word, C18_insertNonStraddling"),
    ("BitVectorState::range + iterator (prefix ++, !=, stepWidth, *it read, *it = v)", ["iterread", "iterwrite"], "TMO", "C18_iterator_read/_write"),
    ("BitVectorState::operator== and != (both configs)", ["eq"], "TMO", "C18_equal, C18_equal_iff (true iff same size and all planes bit-wise equal)"),
    ("BitVectorState::append", ["append"], "TMO", "C18_append"),
    ("copy construction / copy assignment / move assignment / std::swap", ["assign", "move", "swap"], "TMO", "constructors OAssign/OMove/OSwap of C18_step"),
    ("allDefinedNonStraddling", ["alldefns"], "TMO", "C18_allDefinedNonStraddling"),
    ("allOne / allZero / allDefined / anyDefined", ["allone", "allzero", "alldef", "anydef"], "TMO", "C18_allOne/_allZero/_anyDefined (allDefined = allOne on DEFINED)"),
    ("compareValues / equalOnDefinedValues / canBeReplacedWith", ["cmpval", "eqdef", "canrep"], "TMO", "C18_compareValues/_equalOnDefinedValues/_canBeReplacedWith"),
    ("mergeUndefinedSelection", ["merge"], "TMO", "C18_mergeUndefinedSelection"),
    ("extractBigInt(vec) / extractBigInt(vec,offset,size) / insertBigInt", ["extbigall", "extbig", "insbig"], "TMO", "C18_extractBigInt/_insertBigInt/_bigint_roundtrip"),
    ("bitwiseNegation", ["bitneg"], "MO", "value 2^(64L)-1-|v| proved as lemma bitwiseNegation_value (BvsBig.v)"),
    ("operator==(DefaultBitVectorState, span<const byte>) and !=", ["eqbytes"], "TMO", "C18_equal_bytes"),
    ("asData", ["asdata"], "MO", ""),
    ("convertToExtended / tryConvertToDefault", ["convext", "convdef"], "MO", ""),
    ("parseBit(char) / parseBit(bool)", ["parsebit"], "MO", ""),
    ("parseBitVector(string_view)", ["parse"], "TMO", "C18_parse_binary/_hex/_octal_literal (no width prefix), C18_parse_print_roundtrip; d / s bodies and width prefixes: MO only"),
    ("parseBitVector(uint64_t value, size_t width)", ["pbv"], "MO", ""),
    ("createDefaultBitVectorState(bitWidth, size_t value)", ["cdv"], "MO", "generated under the precondition value < 2^bitWidth, see observations"),
    ("createDefaultBitVectorState(bitWidth, const void *data) / (span<const byte>)", ["cdd"], "MO", "generated under the precondition that the padding bits of the last byte are zero, see observations"),
    ("createRandomDefaultBitVectorState / createDefinedRandomDefaultBitVectorState", [], "probe", "regression probe only (tail bits zero after a later resize)"),
    ("operator<<(ostream, state)", ["print"], "TMO", "C18_print_binary (binary branch); hex branch MO"),
    ("formatState", ["fmt"], "TMO", "C18_formatState_hex (base 16, dropLeadingZeros=false); other modes MO"),
    ("formatRange", ["fmtr"], "MO", ""),
]
NOT_COVERED = [
    ("BitVectorState::getNumBlocks", "not observed directly (implied by the dumps)"),
    ("BitVectorState::data (write) / asWritableBytes", "raw storage access: the caller can break the tail-bits-zero invariant; out of scope"),
    ("iterator::operator++(int) / iterator::mask", "postfix ++ returns an advanced copy without advancing *this; mask() shifts by 64 for a full chunk (undefined behaviour); neither is used in /repo/source"),
    ("parseExtendedBit / parseExtendedBitVector", "same digit loop as parseBitVector with two more planes; not modelled"),
    ("createBitVectorState / createDefaultBitVectorState(numWords, wordSize, functor)", "template over a user functor; composed of insert/insertNonStraddling which are covered"),
    ("createExtendedBitVectorState(bitWidth, data) / (span)", "same memcpy as the DefaultConfig version; not modelled"),
    ("operator==/!=(DefaultBitVectorState, span<const T>)", "one-line wrappers around the span<const byte> version"),
    ("compareRange generic template", "never instantiated: both configurations are specialised"),
]

# --------------------------------------------------------------------------
# generator
# --------------------------------------------------------------------------
class Gen:
    """Emits op lines; tracks only the register sizes (never the contents)."""

    def __init__(self, rng):
        self.rng = rng
        self.lines = []
        self.hist = Counter()
        self.nops = 0
        self.nseq = 0
        self.nontrivial = set()
        self.samples = []
        self.pred_class = {}

    # ---- directed choices ----
    def off_in(self, lo, hi):
        """offset in [lo,hi], biased towards offset mod 64 in OFFM"""
        if hi <= lo:
            return lo
        r = self.rng
        if r.random() < 0.8:
            c = [64 * k + m for k in range(lo // 64, hi // 64 + 1) for m in OFFM if lo <= 64 * k + m <= hi]
            if c:
                return r.choice(c)
        return r.randint(lo, hi)

    def len_in(self, hi):
        r = self.rng
        if hi <= 0:
            return 0
        if r.random() < 0.8:
            c = [s for s in SIZES if s <= hi] + [hi]
            return r.choice(c)
        return r.randint(0, hi)

    def rng_range(self, sz, maxlen=None):
        """(off, len) with off+len <= sz"""
        n = self.len_in(sz if maxlen is None else min(sz, maxlen))
        return self.off_in(0, sz - n), n

    def value(self):
        r = self.rng
        k = r.random()
        if k < 0.5:
            return r.getrandbits(64)
        if k < 0.6:
            return 0xFFFFFFFFFFFFFFFF
        if k < 0.7:
            return 0
        if k < 0.8:
            return 0xAAAAAAAAAAAAAAAA
        if k < 0.9:
            return 0x8000000000000001
        return r.getrandbits(8)

    # ---- emission ----
    def start(self, sid, np_, nr):
        self.sid, self.np, self.nr = sid, np_, nr
        self.sz = [0] * nr
        self.lines.append(f"S {sid} {np_} {nr}")
        self.nseq += 1
        self.cur = []

    def end(self):
        self.lines.append("E")
        if len(self.samples) < 4:
            self.samples.append({"seq": self.sid, "planes": self.np, "ops": self.cur[-8:]})

    def emit(self, line, classes, nontrivial=True):
        self.lines.append(line)
        self.cur.append(line)
        self.nops += 1
        for c in classes:
            self.hist[c] += 1
        if nontrivial:
            self.nontrivial.add((self.np, tuple(self.sz), line))
        if line.split()[0] in PREDICATES and classes:
            self.pred_class[(self.sid, len(self.cur) - 1)] = classes[0]

    # ---- single operations (each returns False if not applicable at the current sizes) ----
    def op_resize(self, r=None, n=None):
        r = self.rng.randrange(self.nr) if r is None else r
        if n is None:
            n = self.rng.choice(SIZES + [130, 192, 256, 260]) if self.rng.random() < 0.8 else self.rng.randint(0, 300)
        old = self.sz[r]
        cl = ["resize:" + ("grow" if n > old else "shrink" if n < old else "same"),
              "resize:" + ("aligned" if n % 64 == 0 else "masked-last-word")]
        self.emit(f"resize {r} {n}", cl)
        self.sz[r] = n
        return True

    def op_bit(self):
        r = self.rng.randrange(self.nr)
        if self.sz[r] == 0:
            return False
        p = self.rng.randrange(self.np)
        i = self.off_in(0, self.sz[r] - 1)
        k = self.rng.choice(["get", "set1", "setb", "clear", "toggle"])
        line = f"{k} {r} {p} {i}" + (f" {self.rng.randint(0, 1)}" if k == "setb" else "")
        self.emit(line, [f"bit:{k}", f"bit:offmod64={cls_off(i)}"])
        return True

    def op_setrange(self):
        r = self.rng.randrange(self.nr)
        p = self.rng.randrange(self.np)
        off, n = self.rng_range(self.sz[r])
        b = self.rng.randint(0, 1)
        self.emit(f"setrange {r} {p} {off} {n} {b}", cls_setrange(off, n), n > 0)
        return True

    def op_word(self):
        r = self.rng.randrange(self.nr)
        p = self.rng.randrange(self.np)
        k = self.rng.choice(["insw", "extw", "insns", "extns"])
        sz = self.sz[r]
        if k in ("insw", "extw"):
            off, n = self.rng_range(sz, 64)
        else:
            n = self.len_in(min(sz, 64))
            # offsets with off%64 + n <= 64
            c = [o for o in ([64 * q + m for q in range(0, sz // 64 + 1) for m in OFFM + [64 - n]]) if 0 <= o and o % 64 + n <= 64 and o + n <= sz]
            if not c:
                return False
            off = self.rng.choice(c)
        if k.startswith("ext") and off // 64 >= (sz + 63) // 64:
            return False   # zero-length read at the very end would touch a word that does not exist
        line = f"{k} {r} {p} {off} {n}" + (f" {self.value():x}" if k.startswith("ins") else "")
        self.emit(line, [f"word:{k}:" + cls_word(off, n)], n > 0)
        return True

    def two(self):
        a = self.rng.randrange(self.nr)
        b = self.rng.choice([x for x in range(self.nr) if x != a])
        return a, b

    def op_copy(self, kind=None):
        rd, rs = self.two()
        kind = kind or self.rng.choice(["copy", "cmp", "cmpval", "eqdef", "merge"])
        if kind == "cmp" and self.rng.random() < 0.2:
            rs = rd
        n = self.len_in(min(self.sz[rd], self.sz[rs]))
        d = self.off_in(0, self.sz[rd] - n)
        s = self.off_in(0, self.sz[rs] - n)
        if self.rng.random() < 0.35:   # byte aligned on both sides
            d, s = d // 8 * 8, s // 8 * 8
        if kind == "copy":
            self.emit(f"copy {rd} {d} {rs} {s} {n}", cls_copy(d, s, n), n > 0)
        elif kind == "cmp":
            self.emit(f"cmp {rd} {d} {rs} {s} {n}", [f"cmp:chunks={min((n + 63) // 64, 3)}"], n > 0)
        elif kind == "merge":
            self.emit(f"merge {rd} {d} {rs} {s} {n}", ["bitloop:merge"], n > 0)
        else:
            self.emit(f"{kind} {rd} {d} {rs} {s} {n}", [f"bitloop:{kind}"], n > 0)
        return True

    def op_canrep(self):
        ra, rb = self.two()
        if self.rng.random() < 0.3:
            sa = self.off_in(0, self.sz[ra])
            n = self.sz[ra] - sa
            if n > self.sz[rb]:
                return False
            sb = self.off_in(0, self.sz[rb] - n)
            self.emit(f"canrep {ra} {rb} {sa} {sb} max", ["bitloop:canrep:max"], n > 0)
        else:
            n = self.len_in(min(self.sz[ra], self.sz[rb]))
            sa = self.off_in(0, self.sz[ra] - n)
            sb = self.off_in(0, self.sz[rb] - n)
            self.emit(f"canrep {ra} {rb} {sa} {sb} {n}", ["bitloop:canrep"], n > 0)
        return True

    def op_exts(self):
        rd = self.rng.randrange(self.nr)
        rs = self.rng.randrange(self.nr)
        s, n = self.rng_range(self.sz[rs])
        if self.rng.random() < 0.4:
            s, n = s // 8 * 8, n // 8 * 8
        self.emit(f"exts {rd} {rs} {s} {n}", ["exts:" + ("memcpy" if s % 8 == 0 and n % 8 == 0 else "copyRange")] + cls_copy(0, s, n)[:0], n > 0)
        self.sz[rd] = n
        return True

    def op_inss(self):
        rd, rs = self.two()
        if self.sz[rs] > self.sz[rd]:
            rd, rs = rs, rd
        if self.sz[rs] > self.sz[rd]:
            return False
        off = self.off_in(0, self.sz[rd] - self.sz[rs])
        n = 0 if self.rng.random() < 0.4 else self.len_in(self.sz[rs])
        w = n if n else self.sz[rs]
        self.emit(f"inss {rd} {rs} {off} {n}", [f"inss:size={'0(all)' if n == 0 else 'given'}", f"inss:chunks={min(inss_chunks(off, w), 6)}"], w > 0)
        return True

    def op_append(self):
        rd, rs = self.two()
        if self.sz[rd] + self.sz[rs] > 700:
            return False
        self.emit(f"append {rd} {rs}", [f"append:dstmod8={'0' if self.sz[rd] % 8 == 0 else 'n'}", f"append:dstmod64={cls_off(self.sz[rd])}"], self.sz[rs] > 0)
        self.sz[rd] += self.sz[rs]
        return True

    def op_eq(self):
        ra = self.rng.randrange(self.nr)
        rb = self.rng.randrange(self.nr)
        self.emit(f"eq {ra} {rb}", ["eq:" + ("same-size" if self.sz[ra] == self.sz[rb] else "size-differs")])
        return True

    def op_all(self):
        r = self.rng.randrange(self.nr)
        k = self.rng.choice(["allone", "allzero", "anydef"])
        p = self.rng.randrange(self.np)
        sz = self.sz[r]
        s = self.off_in(0, sz)
        if self.rng.random() < 0.3:
            n, ntok = sz - s, "max"
        else:
            n = self.len_in(sz - s + (5 if self.rng.random() < 0.2 else 0))   # sometimes larger than the rest: clamped
            ntok = str(n)
            n = min(n, sz - s)
        full = (s + 63) // 64 * 64 < (s + n) // 64 * 64
        line = f"{k} {r} {s} {ntok}" if k == "anydef" else f"{k} {r} {p} {s} {ntok}"
        self.emit(line, [f"all:{k}:" + ("fullchunks" if full else "bitloop")], n > 0)
        return True

    def op_big(self):
        r = self.rng.randrange(self.nr)
        sz = self.sz[r]
        k = self.rng.choice(["insbig", "extbig"])
        if self.rng.random() < 0.5:
            off, n = self.rng_range(sz, 64)
        else:
            n = self.len_in(sz)
            if n > 64:
                c = [o for o in range(0, sz - n + 1, 64)]
                off = self.rng.choice(c)
            else:
                off = self.off_in(0, sz - n)
        if k == "extbig":
            if off // 64 >= (sz + 63) // 64:
                return False
            self.emit(f"extbig {r} {off} {n}", ["big:ext:" + ("word" if n <= 64 else "chunks" + ("+partial" if n % 64 else ""))], n > 0)
        else:
            q = self.rng.random()
            bits = self.rng.choice([0, 1, 7, 63, 64, 65, 127, 128, 129, max(n - 1, 0), n, n + 1, n + 70])
            z = self.rng.getrandbits(bits) if bits else 0
            if q < 0.15:
                z = (1 << bits)
            elif q < 0.25:
                z = (1 << bits) - 1 if bits else 0
            neg = self.rng.random() < 0.5
            zs = ("-" if neg and z else "") + f"{z:x}"
            zw = (z.bit_length() + 63) // 64
            self.emit(f"insbig {r} {off} {n} {zs}",
                      ["big:ins:" + ("neg" if neg and z else "nonneg"), "big:ins:" + ("word" if n <= 64 else "chunks"),
                       "big:ins:" + ("fewer-words-than-chunks" if n > 64 and zw < (n + 63) // 64 and not (neg and z) else "words-cover")], n > 0)
        return True

    def op_text(self):
        if self.np != 2:
            return False
        r = self.rng.randrange(self.nr)
        k = self.rng.choice(["print", "fmt", "fmtr", "parse", "parse"])
        if k == "print":
            self.emit(f"print {r} {self.rng.randint(0, 1)}", ["text:print:" + ("hex" if self.sz[r] % 4 == 0 else "bin")])
        elif k == "fmt":
            base = self.rng.choice([2, 16, 16])
            self.emit(f"fmt {r} {base} {self.rng.randint(0, 1)}", [f"text:fmt:{base}" + ("" if base != 16 or self.sz[r] % 4 == 0 else ":bin-fallback")])
        elif k == "fmtr":
            base = self.rng.choice([2, 8, 16])
            off, n = self.rng_range(self.sz[r])
            self.emit(f"fmtr {r} {base} {off} {n}", [f"text:fmtr:{base}"], n > 0)
        else:
            lit, cl = self.literal()
            self.emit(f"parse {r} {lit if lit else '_'}", ["text:parse:" + cl])
            # the size after parsing is not tracked here (it depends on success); resize to a known size
            self.op_resize(r)
        return True

    def literal(self):
        r = self.rng
        kind = r.choice("bbxxood s")
        bad = r.random() < 0.15
        if kind == " ":
            return r.choice(["", "12", "q1", "b2", "o8", "xg", "d1a", "5", "4x", "b"]), "malformed"
        alpha = {"b": "01", "o": "01234567", "x": "0123456789abcdefABCDEF", "d": "0123456789", "s": "abcXYZ019_-+"}[kind]
        n = r.choice([0, 1, 2, 3, 5, 8, 16, 17, 22])
        if kind == "d":
            n = r.choice([0, 1, 2, 5, 19, 20])
        body = "".join(r.choice(alpha + ("xX" if kind in "box" and r.random() < 0.3 else "")) for _ in range(n))
        if kind == "d" and n >= 20:
            body = r.choice(["18446744073709551615", "18446744073709551614", "18446744073709551616", "99999999999999999999"])
        bps = {"b": 1, "o": 3, "x": 4, "s": 8}.get(kind, 0)
        natural = len(body) * bps if kind != "d" else (int(body or "0")).bit_length()
        w = ""
        q = r.random()
        if q < 0.5:
            w = str(natural + r.choice([0, 0, 1, 5, 64]))
        elif q < 0.6:
            w = str(max(natural - 1, 0))    # too small (or zero = "no width")
        elif q < 0.65:
            w = "0"
        if bad:
            body += r.choice(["g", "z", "-", " "]).strip() or "g"
        return w + kind + body, kind + ("+width" if w else "") + (":bad" if bad else "")


    # ---- whole-object operations: copy / swap / move / clear+resize ----
    def op_object(self):
        k = self.rng.choice(["assign", "assign", "swap", "move", "clearresize"])
        if k == "clearresize":
            r = self.rng.randrange(self.nr)
            n = self.rng.choice(EQ_SIZES + [200])
            self.emit(f"clearresize {r} {n}", ["object:clear+resize"])
            self.sz[r] = n
            return True
        a, b = self.two()
        if k == "assign" and self.rng.random() < 0.1:
            b = a
        self.emit(f"{k} {a} {b}", [f"object:{k}"])
        if k == "assign":
            self.sz[a] = self.sz[b]
        elif k == "swap":
            self.sz[a], self.sz[b] = self.sz[b], self.sz[a]
        else:
            self.sz[a], self.sz[b] = self.sz[b], 0
        return True

    # ---- operator== / != : equal copy, then a difference confined to one block / one border bit ----
    def eq_directed(self, size=None, positions=None):
        a, b = self.two()
        size = self.rng.choice(EQ_SIZES) if size is None else size
        self.op_resize(a, size)
        self.fill(a)
        how = self.rng.choice(["assign", "exts", "copy"])
        if how == "assign":
            self.emit(f"assign {b} {a}", ["object:assign"])
        elif how == "exts":
            self.emit(f"exts {b} {a} 0 {size}", ["exts:" + ("memcpy" if size % 8 == 0 else "copyRange")], size > 0)
        else:
            self.op_resize(b, size)
            self.emit(f"copy {b} 0 {a} 0 {size}", cls_copy(0, 0, size), size > 0)
        self.sz[b] = size
        self.emit(f"eq {a} {b}", [f"eq:equal-copy:size={size}"])
        self.emit(f"eq {b} {a}", [f"eq:equal-copy:size={size}"])
        nblk = (size + 63) // 64
        if positions is None:
            positions = []
            for _ in range(3):
                if size == 0:
                    break
                blk = self.rng.choice(sorted({0, nblk // 2, nblk - 1}))
                lo, hi = 64 * blk, min(size, 64 * blk + 64) - 1
                positions.append(self.rng.choice([lo, min(lo + 1, hi), max(hi - 1, lo), hi, self.rng.randint(lo, hi)]))
        for pos in positions:
            p = self.rng.randrange(self.np)
            blk = pos // 64
            where = "last" if blk == nblk - 1 else ("first" if blk == 0 else "middle")
            if nblk == 1:
                where = "only"
            cl = [f"eq:diff-in-{where}-block", f"eq:diff:sizemod64={'0' if size % 64 == 0 else 'n'}:{where}",
                  "eq:diff:bitmod64=" + cls_off(pos)]
            self.emit(f"toggle {b} {p} {pos}", ["bit:toggle"])
            self.emit(f"eq {a} {b}", cl)
            self.emit(f"eq {b} {a}", cl)
            if self.np == 2 or True:
                self.emit(f"cmp {a} 0 {b} 0 {size}", [f"cmp:chunks={min((size + 63) // 64, 3)}"])
            self.emit(f"toggle {b} {p} {pos}", ["bit:toggle"])
        self.emit(f"eq {a} {b}", [f"eq:equal-copy:size={size}"])
        if self.rng.random() < 0.5:
            d = self.rng.choice([-1, 1, 64, -64])
            if size + d >= 0:
                self.op_resize(b, size + d)
                self.emit(f"eq {a} {b}", ["eq:size-differs"])
        return True

    # ---- views and remaining queries ----
    def op_view(self):
        r = self.rng.randrange(self.nr)
        sz = self.sz[r]
        p = self.rng.randrange(self.np)
        k = self.rng.choice(["head", "alldefns", "alldefns", "asbytes", "iterread", "iterwrite", "alldef", "extbigall", "convx"])
        if k == "head":
            if not 0 < sz <= 64:
                r2 = r
                self.op_resize(r2, self.rng.choice([1, 7, 63, 64]))
                self.fill(r2)
            self.emit(f"head {r} {p}", ["view:head"])
        elif k == "alldefns":
            n = self.len_in(min(sz, 64))
            c = [o for o in ([64 * q + m for q in range(0, sz // 64 + 1) for m in OFFM + [64 - n]]) if 0 <= o and o % 64 + n <= 64 and o + n <= sz and o // 64 < (sz + 63) // 64]
            if not c:
                return False
            off = self.rng.choice(c)
            self.emit(f"alldefns {r} {off} {n}", ["view:alldefns:" + ("zero-length" if n == 0 else "full64" if n == 64 else "partial")], n > 0)
        elif k == "asbytes":
            self.emit(f"asbytes {r} {p}", [f"view:asbytes:sizemod8={'0' if sz % 8 == 0 else 'n'}"], sz > 0)
        elif k == "iterread":
            off, n = self.rng_range(sz)
            self.emit(f"iterread {r} {p} {off} {n}", [f"iter:read:chunks={min((n + 63) // 64, 3)}"], n > 0)
        elif k == "iterwrite":
            off, n = self.rng_range(sz)
            v = self.rng.getrandbits(n + self.rng.choice([0, 0, 5])) if n else self.rng.getrandbits(3)
            self.emit(f"iterwrite {r} {p} {off} {n} {v:x}", [f"iter:write:chunks={min((n + 63) // 64, 3)}"], n > 0)
        elif k == "alldef":
            s = self.off_in(0, sz)
            ntok = "max" if self.rng.random() < 0.4 else str(self.len_in(sz - s))
            self.emit(f"alldef {r} {s} {ntok}", ["all:alldef"])
        elif k == "extbigall":
            if sz == 0:
                return False
            if sz > 64 and False:
                return False
            self.emit(f"extbigall {r}", ["big:ext:whole"], True)
        else:
            self.emit(("convext" if self.np == 2 else "convdef") + f" {r}", ["view:convert:" + ("toExtended" if self.np == 2 else "tryToDefault")])
        return True

    # ---- state == bytes, asData, creation helpers (DefaultConfig only) ----
    def op_bytes(self):
        if self.np != 2:
            return False
        r = self.rng.randrange(self.nr)
        k = self.rng.choice(["eqbytes", "eqbytes", "asdata", "pbv", "cdv", "cdd", "parsebit", "bitneg"])
        if k == "eqbytes":
            n = self.rng.choice([0, 1, 7, 8, 9, 15, 16, 17, 24, 32])
            bs = [self.rng.getrandbits(8) for _ in range(n)]
            hx = "".join(f"{b:02x}" for b in bs) or "_"
            self.emit(f"cdd {r} {8 * n} {hx if n else '00'}", ["create:data"])
            self.sz[r] = 8 * n
            self.emit(f"eqbytes {r} {hx}", [f"eqbytes:equal:bytes={n}"])
            if n:
                for _ in range(2):
                    i = self.rng.choice([0, n - 1, (n // 8) * 8 - 1 if n >= 8 else 0, min((n // 8) * 8, n - 1), self.rng.randrange(n)])
                    b2 = list(bs)
                    b2[i] ^= 1 << self.rng.choice([0, 7, self.rng.randrange(8)])
                    where = "full-words" if i < (n // 8) * 8 else "partial-last-word"
                    self.emit(f"eqbytes {r} " + "".join(f"{b:02x}" for b in b2), [f"eqbytes:differs-in-{where}"])
                self.emit(f"eqbytes {r} " + "".join(f"{b:02x}" for b in bs[:-1]) + ("" if n > 1 else "_"), ["eqbytes:wrong-size"])
                i = self.off_in(0, 8 * n - 1)
                self.emit(f"setb {r} 1 {i} 0", ["bit:setb"])
                self.emit(f"eqbytes {r} {hx}", ["eqbytes:undefined-bit"])
        elif k == "asdata":
            n = self.rng.choice([0, 1, 3, 8, 9, 16])
            self.op_resize(r, 8 * n + (self.rng.choice([1, 4, 7]) if self.rng.random() < 0.15 else 0))
            self.fill(r)
            f = self.rng.choice(["_", "00", "ff", "a55a3c", "0102030405060708090a"])
            self.emit(f"asdata {r} {f}", ["asdata:" + ("default-filler" if f == "_" else "filler") + (":bad-size" if self.sz[r] % 8 else "")])
        elif k == "pbv":
            w = self.rng.choice([0, 1, 7, 8, 63, 64, 65, 128, 130])
            self.emit(f"pbv {r} {self.value():x} {w}", [f"create:parseBitVector(value,width):{'<=64' if w <= 64 else '>64'}"])
            self.sz[r] = w
        elif k == "cdv":
            w = self.rng.choice([1, 7, 8, 63, 64, 65, 128, 130, 0])
            v = self.value() & ((1 << min(w, 64)) - 1)      # precondition: the value fits into bitWidth bits
            self.emit(f"cdv {r} {w} {v:x}", ["create:value" + (":width0-throws" if w == 0 else "")])
            if w == 0:
                self.op_resize(r)
            else:
                self.sz[r] = w
        elif k == "cdd":
            w = self.rng.choice([0, 1, 7, 8, 9, 63, 64, 65, 128, 130])
            nb = (w + 7) // 8
            v = self.rng.getrandbits(w) if w else 0         # precondition: padding bits of the last byte are zero
            hx = "".join(f"{(v >> (8 * i)) & 255:02x}" for i in range(nb)) or "00"
            self.emit(f"cdd {r} {w} {hx}", ["create:data"])
            self.sz[r] = w
        elif k == "parsebit":
            c = self.rng.choice(["0", "1", "x", "X", "true", "false", "q", "2"])
            self.emit(f"parsebit {r} {c}", ["create:parseBit" + (":bad" if c in ("q", "2") else "")])
            self.op_resize(r)
        else:
            bits = self.rng.choice([0, 1, 63, 64, 65, 128, 130])
            z = self.rng.getrandbits(bits) if bits else 0
            neg = self.rng.random() < 0.5 and z
            self.emit(f"bitneg {'-' if neg else ''}{z:x} {self.rng.choice([0, 1, 64, 65, 128, 200])}", ["big:bitwiseNegation"])
        return True

    def op_eqd(self):
        return self.eq_directed()

    # ---- directed family for the range predicates: make the range uniform (or an equal copy), then flip
    #      at most one bit at the head / first and last bit of a whole word / tail / just outside ----
    @staticmethod
    def pred_shape(start, n):
        sf, ef = (start + 63) // 64 * 64, (start + n) // 64 * 64
        if n == 0:
            return "empty"
        if sf < ef:
            return ("head+" if start < sf else "") + "whole" + ("+tail" if ef < start + n else "")
        return "inside-one-word" if start // 64 == (start + n - 1) // 64 else "two-partial-words"

    @staticmethod
    def pred_positions(start, n, size):
        sf, ef = (start + 63) // 64 * 64, (start + n) // 64 * 64
        hi = start + n - 1
        pos = []
        if n:
            if sf < ef:
                if start < sf:
                    pos += [("head", start), ("head", sf - 1)]
                pos += [("whole", sf), ("whole", sf + 63), ("whole", ef - 64), ("whole", ef - 1)]
                if ef <= hi:
                    pos += [("tail", ef), ("tail", hi)]
            else:
                pos += [("first", start), ("last", hi), ("mid", (start + hi) // 2)]
        if start > 0:
            pos.append(("outside-below", start - 1))
        if start + n < size:
            pos.append(("outside-above", start + n))
        seen, out = set(), []
        for w, q in pos:
            if q not in seen:
                seen.add(q)
                out.append((w, q))
        return out

    def pred_unary(self, pred, r, start, n):
        size = self.sz[r]
        if start + n > size:
            return False
        if pred == "alldefns" and not (start % 64 + n <= 64 and start // 64 < (size + 63) // 64):
            return False
        val = 1 if pred in ("allone", "alldef", "alldefns") else 0
        p = 1 if pred in ("anydef", "alldef", "alldefns") else self.rng.randrange(self.np)
        shape = self.pred_shape(start, n)

        def call(tag):
            line = f"{pred} {r} {start} {n}" if pred in ("anydef", "alldef", "alldefns") else f"{pred} {r} {p} {start} {n}"
            self.emit(line, [f"pred:{pred}:{shape}", f"pred:{pred}:{tag}"], n > 0)
        self.emit(f"setrange {r} {p} 0 {size} {1 - val}", ["pred:prepare"], False)
        self.emit(f"setrange {r} {p} {start} {n} {val}", ["pred:prepare"], False)
        call("uniform")
        for where, q in self.pred_positions(start, n, size):
            self.emit(f"toggle {r} {p} {q}", ["pred:prepare"], False)
            call("flip-" + where)
            self.emit(f"toggle {r} {p} {q}", ["pred:prepare"], False)
        return True

    def pred_binary(self, pred, ra, sa, rb, sb, n):
        if sa + n > self.sz[ra] or sb + n > self.sz[rb] or ra == rb:
            return False
        shape = self.pred_shape(sa, n)

        def call(tag):
            if pred == "cmp":
                lines = [f"cmp {rb} {sb} {ra} {sa} {n}"]
            elif pred == "canrep":
                lines = [f"canrep {ra} {rb} {sa} {sb} {n}", f"canrep {rb} {ra} {sb} {sa} {n}"]
            else:
                lines = [f"{pred} {ra} {sa} {rb} {sb} {n}"]
            for l in lines:
                self.emit(l, [f"pred:{pred}:{shape}", f"pred:{pred}:{tag}"], n > 0)
        if self.rng.random() < 0.6:
            self.emit(f"setrange {ra} 1 {sa} {n} 1", ["pred:prepare"], False)      # mostly defined, so that value bits matter
        self.emit(f"copy {rb} {sb} {ra} {sa} {n}", ["pred:prepare"], False)
        call("equal-copy")
        k = 0
        for where, q in self.pred_positions(sa, n, self.sz[ra]):
            qb = sb + (q - sa)
            if not 0 <= qb < self.sz[rb]:
                continue
            p = k % 2 if self.np == 2 else k % 4
            k += 1
            self.emit(f"toggle {rb} {p} {qb}", ["pred:prepare"], False)
            call("flip-" + where)
            self.emit(f"toggle {rb} {p} {qb}", ["pred:prepare"], False)
        return True

    def op_pred(self):
        pred = self.rng.choice(["allone", "allzero", "anydef", "alldef", "alldefns", "cmp", "cmpval", "eqdef", "canrep"])
        n = self.rng.choice(PRED_SIZES + [0, 8, 200])
        if pred in ("cmp", "cmpval", "eqdef", "canrep"):
            ra, rb = self.two()
            n = min(n, self.sz[ra], self.sz[rb])
            return self.pred_binary(pred, ra, self.off_in(0, self.sz[ra] - n), rb, self.off_in(0, self.sz[rb] - n), n)
        r = self.rng.randrange(self.nr)
        if pred == "alldefns":
            n = min(n, 64)
        n = min(n, self.sz[r])
        start = self.off_in(0, self.sz[r] - n)
        if pred == "alldefns":
            start = start // 64 * 64 + min(start % 64, 64 - n)
        return self.pred_unary(pred, r, start, n)

    def pred_sequences(self, np_, tag):
        """every predicate x (start mod 64 in OFFM) x PRED_SIZES, registers of 400 bits"""
        for pred in ["allone", "allzero", "anydef", "alldef", "alldefns", "cmp", "cmpval", "eqdef", "canrep"]:
            self.start(f"pred{tag}_{pred}", np_, 2)
            for r in range(2):
                self.op_resize(r, 400)
                self.fill(r)
            for m in OFFM:
                for n in PRED_SIZES:
                    if pred in ("cmp", "cmpval", "eqdef", "canrep"):
                        sb = 64 + OFFM[(OFFM.index(m) + 2) % len(OFFM)]
                        self.pred_binary(pred, 0, 64 * (m % 2) + m, 1, sb, n)
                    elif pred == "alldefns":
                        if m + n <= 64:
                            self.pred_unary(pred, 0, 128 + m, n)
                    else:
                        self.pred_unary(pred, 0, 64 * (m % 2) + m, n)
            self.end()

    KINDS = [("op_bit", 10), ("op_setrange", 10), ("op_word", 14), ("op_copy", 18), ("op_exts", 6),
             ("op_inss", 6), ("op_append", 4), ("op_eq", 3), ("op_all", 8), ("op_canrep", 3),
             ("op_big", 10), ("op_resize", 5), ("op_text", 5), ("op_object", 6), ("op_view", 10),
             ("op_bytes", 6), ("op_eqd", 3), ("op_pred", 8)]

    def random_op(self):
        names = [k for k, w in self.KINDS for _ in range(w)]
        for _ in range(20):
            if getattr(self, self.rng.choice(names))():
                return

    def fill(self, r, pattern=None):
        """give register r (already sized) contents, via insert(plane, off, <=64, value)"""
        for p in range(self.np):
            off = 0
            while off < self.sz[r]:
                n = min(64, self.sz[r] - off)
                if pattern is None:
                    v = self.value()
                elif pattern == "ones":
                    v = 0xFFFFFFFFFFFFFFFF
                elif pattern == "alt":
                    v = 0xAAAAAAAAAAAAAAAA if (p + off // 64) % 2 == 0 else 0x5555555555555555
                elif pattern == "sparse":
                    v = 1 << self.rng.randrange(64)
                else:
                    v = self.rng.getrandbits(64)
                if pattern in ("rand", None) and p == 1 and self.rng.random() < 0.5:
                    v |= self.rng.getrandbits(64)    # DEFINED plane mostly set
                self.emit(f"insw {r} {p} {off} {n} {v:x}", ["fill"], False)
                off += n

    def random_sequence(self, sid, nops):
        np_ = self.rng.choice([2, 2, 4])
        self.start(sid, np_, 3)
        for r in range(3):
            self.op_resize(r, self.rng.choice(SIZES[3:] + [130, 192, 256, 260]))
            self.fill(r)
        for _ in range(nops):
            self.random_op()
        self.end()

    # ---- thorough: exhaustive (offset mod 128, size <= 130) grid ----
    def grid_sequence(self, sid, kind, pattern, np_):
        self.start(sid, np_, 3)
        self.op_resize(0, 400)   # destination
        self.op_resize(1, 330)   # source
        self.op_resize(2, 130)   # small source for insert(state)
        for r in range(3):
            self.fill(r, pattern)
        cnt = 0
        for off in range(128):
            for n in range(131):
                cnt += 1
                salt = (off * 131 + n)
                s = [0, 3, 8, 61, 64, 72, 127, 13][salt % 8]
                p = salt % np_
                b = salt & 1
                if kind == "setrange":
                    self.emit(f"setrange 0 {p} {off} {n} {b}", cls_setrange(off, n), n > 0)
                elif kind == "word":
                    if n > 64:
                        continue
                    v = (0x9E3779B97F4A7C15 * (salt + 1)) & 0xFFFFFFFFFFFFFFFF
                    self.emit(f"insw 0 {p} {off} {n} {v:x}", ["word:insw:" + cls_word(off, n)], n > 0)
                    self.emit(f"extw 1 {p} {off} {n}", ["word:extw:" + cls_word(off, n)], n > 0)
                elif kind == "copy":
                    self.emit(f"copy 0 {off} 1 {s} {n}", cls_copy(off, s, n), n > 0)
                    if salt % 4 == 0:
                        self.emit(f"copy 0 {off // 8 * 8} 1 {s // 8 * 8} {n}", cls_copy(off // 8 * 8, s // 8 * 8, n), n > 0)
                elif kind == "cmp":
                    self.emit(f"cmp 0 {off} 1 {s} {n}", [f"cmp:chunks={min((n + 63) // 64, 3)}"], n > 0)
                    self.emit(f"cmp 1 {off} 1 {off} {n}", ["cmp:self"], n > 0)
                elif kind == "exts":
                    self.emit(f"exts 0 1 {off} {n}", ["exts:" + ("memcpy" if off % 8 == 0 and n % 8 == 0 else "copyRange")], n > 0)
                    self.sz[0] = n
                elif kind == "inss":
                    self.emit(f"inss 0 2 {off} {n}", [f"inss:chunks={min(inss_chunks(off, n if n else 130), 6)}"], True)
                elif kind == "all":
                    k = ["allone", "allzero", "anydef"][salt % 3]
                    line = f"{k} 1 {off} {n}" if k == "anydef" else f"{k} 1 {p} {off} {n}"
                    full = (off + 63) // 64 * 64 < (off + n) // 64 * 64
                    self.emit(line, [f"all:{k}:" + ("fullchunks" if full else "bitloop")], n > 0)
                elif kind == "bitloops":
                    k = ["eqdef", "cmpval", "merge"][salt % 3]
                    self.emit(f"{k} 0 {off} 1 {s} {n}", [f"bitloop:{k}"], n > 0)
                    if salt % 5 == 0:
                        self.emit(f"canrep 0 1 {off} {s} {n}", ["bitloop:canrep"], n > 0)
                elif kind == "big":
                    if n > 64 and off % 64 != 0:
                        continue
                    z = ((0x9E3779B97F4A7C15 * (salt + 1)) ** 3) & ((1 << [0, 5, 64, 65, 130, 200][salt % 6]) - 1)
                    zs = ("-" if salt % 2 and z else "") + f"{z:x}"
                    self.emit(f"insbig 0 {off} {n} {zs}", ["big:ins:" + ("neg" if zs.startswith("-") else "nonneg"), "big:ins:" + ("word" if n <= 64 else "chunks")], n > 0)
                    self.emit(f"extbig 1 {off} {n}", ["big:ext:" + ("word" if n <= 64 else "chunks")], n > 0)
                if kind == "exts":
                    pass
                elif cnt % 512 == 0 and kind in ("setrange", "word", "copy", "inss", "bitloops", "big"):
                    self.fill(0, pattern)   # refresh the destination now and then
        self.end()


def cls_off(o):
    m = o % 64
    return str(m) if m in OFFM else "other"


def cls_word(off, n):
    if n == 0:
        return "zero-length"
    return ("straddle" if off % 64 + n > 64 else "one-word") + (":full64" if n == 64 else "")


def cls_setrange(off, n):
    first = 0 if off % 64 == 0 else min(n, 64 - off % 64)
    body = (n - first) // 64
    tail = (n - first) % 64
    return ["setrange:" + ("zero-length" if n == 0 else
                           ("head" if first else "") + ("+body" if body else "") + ("+tail" if tail else "")),
            "setrange:offmod64=" + cls_off(off)]


def cls_copy(d, s, n):
    fast = s % 8 == 0 and d % 8 == 0 and n >= 8
    rem = n - (n // 8 * 8 if fast else 0)
    if n == 0:
        return ["copy:zero-length"]
    return ["copy:" + ("memcpy" if fast else "chunks-only") + ("+rem" if fast and rem else "") +
            ("" if fast else f":chunks={min((n + 63) // 64, 3)}"),
            "copy:dstmod64=" + cls_off(d), "copy:srcmod64=" + cls_off(s)]


def inss_chunks(off, w):
    so, k = 0, 0
    while so < w:
        c = min(64, w - so, 64 - so % 64, 64 - off % 64)
        off += c
        so += c
        k += 1
    return k


# --------------------------------------------------------------------------
# running
# --------------------------------------------------------------------------
def run_to_file(cmd, outpath, timeout):
    with open(outpath, "w") as f:
        try:
            p = subprocess.run(cmd, stdout=f, stderr=subprocess.PIPE, timeout=timeout, text=True)
            return p.returncode, p.stderr
        except subprocess.TimeoutExpired:
            return 124, "timeout"


def run_model_parallel(model, opsfile, outpath, timeout, jobs):
    """evaluate the extracted model on contiguous chunks of the operation file (cut at sequence
    boundaries) in parallel; the concatenated output equals a single run.  Returns (rc, stderr)."""
    lines = open(opsfile).read().split("\n")
    starts = [i for i, l in enumerate(lines) if l.startswith("S ")]
    cuts = [0]
    for k in range(1, jobs):
        target = k * len(lines) // jobs
        c = next((i for i in starts if i >= target), None)
        if c is not None and c > cuts[-1]:
            cuts.append(c)
    cuts.append(len(lines))
    procs = []
    for k in range(len(cuts) - 1):
        part = Path(str(outpath) + f".in{k}")
        part.write_text("\n".join(lines[cuts[k]:cuts[k + 1]]) + "\n")
        fo = open(str(outpath) + f".out{k}", "w")
        procs.append((subprocess.Popen([model, str(part)], stdout=fo, stderr=subprocess.PIPE, text=True), fo, part))
    rc, err = 0, ""
    t_end = time.time() + timeout
    for pr, fo, part in procs:
        try:
            _, e = pr.communicate(timeout=max(1, t_end - time.time()))
        except subprocess.TimeoutExpired:
            pr.kill()
            _, e = pr.communicate()
            rc = 124
        fo.close()
        err += e or ""
        rc = rc or pr.returncode
    with open(outpath, "w") as out:
        for k in range(len(procs)):
            with open(str(outpath) + f".out{k}") as f:
                for l in f:
                    out.write(l)
            os.remove(str(outpath) + f".out{k}")
            os.remove(str(outpath) + f".in{k}")
    return rc, err


def first_diffs(fa, fb, limit=5):
    """streaming line diff; returns (n_lines_compared, [ (lineno, a, b) ... ])"""
    diffs, n = [], 0
    with open(fa) as a, open(fb) as b:
        while True:
            la, lb = a.readline(), b.readline()
            if not la and not lb:
                break
            n += 1
            if la != lb:
                if len(diffs) < limit:
                    diffs.append((n, la.rstrip("\n"), lb.rstrip("\n")))
                else:
                    # keep counting cheaply
                    pass
    return n, diffs


def split_sequences(opsfile):
    seqs, cur = {}, None
    for line in open(opsfile):
        line = line.rstrip("\n")
        if line.startswith("S "):
            cur = line.split()[1]
            seqs[cur] = [line]
        elif cur is not None:
            seqs[cur].append(line)
    return seqs


def oracle_run(exe, lines, tag, timeout=600):
    """run the harness in oracle mode on the given op lines; returns list of mismatch dicts"""
    WORK.mkdir(parents=True, exist_ok=True)
    f = WORK / f"oracle_{tag}.ops"
    f.write_text("\n".join(lines) + "\n")
    rc, out = V.run([exe, "oracle", str(f)], timeout=timeout)
    mm = []
    for l in out.splitlines():
        m = re.match(r'^ORACLE-MISMATCH (\S+):(\d+) op="([^"]*)" (\S+) expected=(.*) observed=(.*)$', l)
        if m:
            mm.append(dict(seq=m.group(1), index=int(m.group(2)), op=m.group(3), what=m.group(4),
                           expected=m.group(5), observed=m.group(6)))
    return mm, rc, out


def finding_of(m):
    """classify an oracle mismatch of the generated cases as a finding that a `known:` line of
    KNOWN_FINDINGS.txt may cover; currently there is none: every mismatch is a violation"""
    t = m["op"].split()
    if t[0] == "fmt" and t[2] == "16" and m["seq"] == "probe":
        return "fmt16_decimal_digits"
    if t[0] == "parse" and m["seq"] == "probe":
        return "octal22"
    return None


KNOWN_KEYS = set()    # finding ids covered by a `known:` line of KNOWN_FINDINGS.txt (filled in main)


def is_fmt16_finding(m):
    """True if the mismatch is a known finding and therefore must not be reported as a violation"""
    return finding_of(m) in KNOWN_KEYS


def seq_valid(lines):
    """python port of BvsSpec.ops_ok: every operation meets the C++ preconditions / in-bounds access
    at the sizes current when it runs (used so that shrinking never produces an out-of-bounds replay)"""
    np_ = nr = 0
    sz = []
    try:
        for line in lines:
            t = line.split()
            if not t or t[0] == "#" or t[0] == "E":
                continue
            if t[0] == "S":
                np_, nr = int(t[2]), int(t[3])
                sz = [0] * nr
                continue
            k = t[0]
            num = lambda i: (1 << 64) - 1 if t[i] == "max" else int(t[i])
            reg = lambda i: int(t[i])

            def S(i):
                r = reg(i)
                if not (0 <= r < nr) or sz[r] is None:
                    raise ValueError
                return sz[r]
            pl = lambda i: 0 <= int(t[i]) < np_
            nw = lambda z: (z + 63) // 64
            if k == "resize":
                if not 0 <= reg(1) < nr:
                    return False
                sz[reg(1)] = num(2)
            elif k in ("get", "set1", "setb", "clear", "toggle"):
                if not (pl(2) and num(3) < S(1)):
                    return False
            elif k == "setrange":
                if not (pl(2) and num(3) + num(4) <= S(1)):
                    return False
            elif k in ("insw", "extw"):
                if not (pl(2) and num(4) <= 64 and num(3) + num(4) <= S(1)):
                    return False
                if k == "extw" and not num(3) // 64 < nw(S(1)):
                    return False
            elif k in ("insns", "extns"):
                if not (pl(2) and num(3) % 64 + num(4) <= 64 and num(3) + num(4) <= S(1)):
                    return False
                if k == "extns" and not num(3) // 64 < nw(S(1)):
                    return False
            elif k in ("copy", "cmp", "cmpval", "eqdef", "merge"):
                if k in ("copy", "merge") and reg(1) == reg(3):
                    return False
                if k != "copy" and k != "cmp" and np_ < 2:
                    return False
                if not (num(2) + num(5) <= S(1) and num(4) + num(5) <= S(3)):
                    return False
            elif k == "canrep":
                sa, sb = num(3), num(4)
                if sa > S(1):
                    return False
                n = S(1) - sa if t[5] == "max" else num(5)
                if not (sa + n <= S(1) and sb + n <= S(2)):
                    return False
            elif k == "exts":
                if not (0 <= reg(1) < nr and num(3) + num(4) <= S(2)):
                    return False
                sz[reg(1)] = num(4)
            elif k == "inss":
                if reg(1) == reg(2) or not (S(2) + num(3) <= S(1) and num(4) <= S(2)):
                    return False
            elif k == "append":
                if reg(1) == reg(2):
                    return False
                sz[reg(1)] = S(1) + S(2)
            elif k == "eq":
                S(1), S(2)
            elif k in ("allone", "allzero"):
                if not (pl(2) and num(3) <= S(1)):
                    return False
            elif k == "anydef":
                if not num(2) <= S(1):
                    return False
            elif k in ("insbig", "extbig"):
                if not (num(2) + num(3) <= S(1) and (num(3) <= 64 or num(2) % 64 == 0)):
                    return False
                if k == "extbig" and not num(2) // 64 < nw(S(1)):
                    return False
            elif k == "assign":
                sz[reg(1)] = S(2)
            elif k == "swap":
                a, b = S(1), S(2)
                sz[reg(1)], sz[reg(2)] = b, a
            elif k == "move":
                if reg(1) == reg(2):
                    return False
                sz[reg(1)] = S(2)
                sz[reg(2)] = 0
            elif k == "clearresize":
                if not 0 <= reg(1) < nr:
                    return False
                sz[reg(1)] = num(2)
            elif k == "head":
                if not (pl(2) and 0 < S(1) <= 64):
                    return False
            elif k == "alldefns":
                if not (np_ >= 2 and num(2) % 64 + num(3) <= 64 and num(2) + num(3) <= S(1) and num(2) // 64 < nw(S(1))):
                    return False
            elif k == "alldef":
                if not num(2) <= S(1):
                    return False
            elif k == "extbigall":
                if not 0 < S(1):
                    return False
            elif k == "asbytes":
                if not pl(2):
                    return False
                S(1)
            elif k in ("iterread", "iterwrite"):
                if not (pl(2) and num(3) + num(4) <= S(1)):
                    return False
            elif k in ("eqbytes", "asdata"):
                if np_ != 2:
                    return False
                S(1)
            elif k == "convext":
                if np_ != 2:
                    return False
                S(1)
            elif k == "convdef":
                if np_ != 4:
                    return False
                S(1)
            elif k == "bitneg":
                pass
            elif k == "pbv":
                if np_ != 2:
                    return False
                sz[reg(1)] = num(3)
            elif k == "cdv":
                if np_ != 2:
                    return False
                sz[reg(1)] = num(2) if num(2) else None
            elif k == "cdd":
                if np_ != 2 or (t[3] != "_" and len(t[3]) // 2 < (num(2) + 7) // 8):
                    return False
                sz[reg(1)] = num(2)
            elif k == "parsebit":
                if np_ != 2 or not 0 <= reg(1) < nr:
                    return False
                sz[reg(1)] = None
            elif k == "parse":
                if np_ != 2 or not 0 <= reg(1) < nr:
                    return False
                sz[reg(1)] = None     # depends on whether the literal is accepted
            elif k in ("print", "fmt"):
                if np_ != 2:
                    return False
                S(1)
            elif k == "fmtr":
                if np_ != 2 or num(2) not in (2, 8, 16) or not num(3) + num(4) <= S(1):
                    return False
            else:
                return False
    except (ValueError, IndexError):
        return False
    return True


def shrink(exe, seq_lines, fail_idx):
    """greedy removal of earlier operations while the last one still mismatches"""
    head = seq_lines[0]
    ops = [l for l in seq_lines[1:] if l != "E"][:fail_idx + 1]
    t0 = time.time()

    def fails(cand):
        if not seq_valid([head] + cand):
            return []
        mm, _, _ = oracle_run(exe, [head] + cand + ["E"], "shrink", timeout=60)
        return [m for m in mm if m["index"] == len(cand) - 1 and not is_fmt16_finding(m)]
    cur = ops
    i = len(cur) - 2
    while i >= 0 and time.time() - t0 < 40:
        cand = cur[:i] + cur[i + 1:]
        try:
            if fails(cand):
                cur = cand
        except Exception:
            pass
        i -= 1
    mm = fails(cur)
    return [head] + cur + ["E"], (mm[0] if mm else None)


M64 = (1 << 64) - 1


def bitmanip_sweep(exe):
    """run harness/C18_bitmanip (real header) and compare every line with independent definitions"""
    rc, out = V.run([str(exe)], timeout=300)
    bad, n = [], 0
    if rc != 0:
        return [dict(call="harness", got="exit %d" % rc, want="exit 0")], 0
    def mask(start, count):
        return ((M64 if count >= 64 else (1 << count) - 1) << start) & M64
    for line in out.splitlines():
        p = line.split()
        if not p: continue
        k, a = p[0], [int(x) for x in p[1:]]
        n += 1
        if k == "BMI":
            want = [0]; got = a
        elif k == "mask":
            want, got = [mask(a[0], a[1])], a[2:]
        elif k == "isset":
            m = mask(a[1], a[2]); want, got = [int(a[0] & m == m)], a[3:]
        elif k == "ext":
            want, got = [(a[0] >> a[1]) & mask(0, a[2])], a[3:]
        elif k == "ins":
            m = mask(a[1], a[2]); want, got = [(a[0] & ~m & M64) | (m & (a[3] << a[1]) & M64)], a[4:]
        elif k == "lowest":
            want, got = [a[0] & (-a[0] & M64)], a[1:]
        elif k == "andnot":
            want, got = [~a[0] & a[1] & M64], a[2:]
        elif k == "bit":
            b = 1 << a[1]; want, got = [int(bool(a[0] & b)), a[0] | b, a[0] & ~b & M64, a[0] ^ b], a[2:]
        else:
            continue
        if want != got and len(bad) < 50:
            bad.append(dict(call=line, got=got, want=want))
    return bad, n


def main():
    t0 = time.time()
    tier = V.tier()
    seed = V.seed()
    V.build_gatery()
    exe = V.build_harness("C18_bvs")
    res = V.check_properties(CID)
    # S3: regenerate the word helpers of utils/BitManipulation.h from the current source (fail closed)
    gen = V.COQ / "Gatery" / "gen" / "BitManipSrc.v"
    with V.Lock("coq_C18_gen"):
        trc, tout = V.run([sys.executable, str(V.VERIF / "translate" / "C18_bitmanip.py"), str(V.REPO), str(gen)], timeout=120)
        if trc != 0:
            for f in (V.COQ / "Gatery" / "gen").glob("BitManipSrc.*"):
                try: f.unlink()
                except OSError: pass
        res_src = V.check_properties(CID + "src")
    sweep_exe = V.build_harness("C18_bitmanip")
    model = V.build_model(CID)
    if "--build-only" in sys.argv:
        sys.exit(0 if model else 2)
    rep = V.Report(CID)
    rep.t0 = t0
    rep.add_proof(res)
    rep.add_proof(res_src, checker_cmd="translate/C18_bitmanip.py /repo coq/Gatery/gen/BitManipSrc.v && make -C coq -k Gatery/Properties_C18.vo Gatery/Properties_C18src.vo  (coqc 8.16.1, full .vo build, Print Assumptions per theorem)")
    rep.cov["source_regenerated"] = dict(translator="translate/C18_bitmanip.py", output="coq/Gatery/gen/BitManipSrc.v", status=tout.strip()[:300],
                                         theorems=res_src["obligations"], discharged=res_src["discharged"])
    known, fixed = V.known_findings(CID)
    for fid, fd in FINDINGS.items():
        if any(fd["key"] in k for k in known):
            KNOWN_KEYS.add(fid)
    WORK.mkdir(parents=True, exist_ok=True)
    forb = V.scan_forbidden()
    if forb:
        res["ok"] = False
        rep.cov["forbidden_constructs"] = forb[:20]

    rc, info = V.run([exe, "info"])
    bmi = "BMI 1" in info
    rep.cov["compile_facts"] = info.strip().splitlines()[-3:]

    # ---- replay mode ----
    if "--replay" in sys.argv:
        rp = json.load(open(sys.argv[sys.argv.index("--replay") + 1]))
        mm, _, out = oracle_run(exe, rp["ops"], "replay")
        mm = [m for m in mm if not is_fmt16_finding(m)]
        print("replay:", "still failing" if mm else "passes", mm[:1])
        if mm:
            rep.violation(dict(rp, replayed=True, observed_now=mm[0]))
        rep.cov.update(evaluations=len(rp["ops"]), distinct_nontrivial=len(rp["ops"]), rule="replay of one recorded sequence",
                       samples=[rp["ops"][-3:]], traces_validated_against_impl=0)
        rep.finish()

    # ---- generate ----
    rng = random.Random(seed * 1000003 + (1 if tier == "quick" else 2))
    g = Gen(rng)
    corpus = sorted(glob.glob(str(V.VERIF / "corpus" / CID / "*.ops")))
    corpus_lines = []
    for c in corpus:
        corpus_lines += [l.rstrip("\n") for l in open(c) if l.strip()]
    nseq = 400 if tier == "quick" else 4000
    for i in range(nseq):
        g.random_sequence(f"r{i}", 10 if tier == "quick" else 50)
    # operator== / != : every size of EQ_SIZES, difference in first / middle / last block, border bits
    for np_ in (2, 4):
        for size in EQ_SIZES:
            g.start(f"eq{np_}_{size}", np_, 3)
            nblk = (size + 63) // 64
            pos = sorted({q for b in {0, nblk // 2, max(nblk - 1, 0)} for q in (64 * b, 64 * b + 1, 64 * b + 62, 64 * b + 63) if q < size} | ({size - 1} if size else set()))
            g.eq_directed(size, pos)
            g.end()
    # range predicates: uniform range / equal copy, then at most one flipped bit at head / whole-word borders / tail / outside
    g.pred_sequences(2, "2")
    g.pred_sequences(4, "4")
    exhaustive_grid = False
    if tier == "thorough":
        # every single bit of every plane as the only difference
        for np_ in (2, 4):
            for size in EQ_SIZES[1:]:
                g.start(f"eqall{np_}_{size}", np_, 2)
                g.op_resize(0, size)
                g.fill(0)
                g.emit("assign 1 0", ["object:assign"])
                g.sz[1] = size
                nblk = (size + 63) // 64
                for p in range(np_):
                    for pos in range(size):
                        blk = pos // 64
                        where = "only" if nblk == 1 else "last" if blk == nblk - 1 else "first" if blk == 0 else "middle"
                        g.emit(f"toggle 1 {p} {pos}", ["bit:toggle"])
                        g.emit("eq 0 1", [f"eq:diff-in-{where}-block", f"eq:diff:sizemod64={'0' if size % 64 == 0 else 'n'}:{where}"])
                        g.emit(f"toggle 1 {p} {pos}", ["bit:toggle"])
                g.emit("eq 1 0", [f"eq:equal-copy:size={size}"])
                g.end()
        k = 0
        for kind in ["setrange", "word", "copy", "cmp", "exts", "inss", "all", "bitloops", "big"]:
            for pattern, np_ in [("rand", 2), ("ones", 2), ("alt", 2), ("sparse", 2), ("rand", 4)]:
                g.grid_sequence(f"g{k}_{kind}_{pattern}_{np_}", kind, pattern, np_)
                k += 1
        exhaustive_grid = True
    opsfile = WORK / f"ops_{tier}.txt"
    opsfile.write_text("\n".join(corpus_lines + g.lines) + "\n")

    # ---- run both sides ----
    out_cpp, out_ml = WORK / f"out_cpp_{tier}.txt", WORK / f"out_ml_{tier}.txt"
    tmo = 600 if tier == "quick" else 3000
    t1 = time.time()
    # the harness also executes every operation on its own std::vector<bool> oracle (independent of the
    # Coq model); ORACLE-* lines are split off, the remaining lines are what the model must reproduce
    out_raw = WORK / f"out_cpp_raw_{tier}.txt"
    rc1, err1 = run_to_file([exe, "oracle", str(opsfile)], out_raw, tmo)
    oracle_mm, oracle_classified = [], Counter()
    with open(out_raw) as fi, open(out_cpp, "w") as fo:
        for l in fi:
            if l.startswith("ORACLE-"):
                m = re.match(r'^ORACLE-MISMATCH (\S+):(\d+) op="([^"]*)" (\S+) expected=(.*) observed=(.*)$', l.rstrip("\n"))
                if m:
                    d = dict(seq=m.group(1), index=int(m.group(2)), op=m.group(3), what=m.group(4),
                             expected=m.group(5), observed=m.group(6))
                    f = finding_of(d)
                    if f in KNOWN_KEYS:
                        oracle_classified[f] += 1
                    elif len(oracle_mm) < 20:
                        oracle_mm.append(d)
            else:
                fo.write(l)
    os.remove(out_raw)
    t2 = time.time()
    if rc1 != 0:
        # a crash of the real container on in-bounds input is itself a finding: go to search mode
        pass
    diffs, nlines = [], 0
    tie_broken = None
    if model is None:
        tie_broken = "extracted model no longer builds: " + V.last_model_log[-500:]
    else:
        rc2, err2 = run_model_parallel(model, opsfile, out_ml, tmo, min(V.NCPU, 16) if tier == "thorough" else min(V.NCPU, 4))
        t3 = time.time()
        rep.cov["time_s"] = dict(harness=round(t2 - t1, 1), model=round(t3 - t2, 1))
        if rc2 != 0:
            V.infra_error(f"model driver failed ({rc2}): {err2[-2000:]}")
        # the hypothesis of theorem C18_sequences, evaluated by the extracted ops_ok on every generated sequence
        oks = [l.split() for l in err2.splitlines() if l.startswith("OPSOK ")]
        notok = [o[1] for o in oks if o[2] != "1"]
        rep.cov["sequences_satisfying_ops_ok"] = dict(checked=len(oks), ok=len(oks) - len(notok),
                                                      ops_under_theorem=sum(int(o[3]) for o in oks if o[2] == "1"))
        if notok:
            V.infra_error("generator bug: sequences violating the Coq precondition ops_ok: " + ", ".join(notok[:5]))
        nlines, diffs = first_diffs(out_cpp, out_ml)
        if diffs:
            tie_broken = f"{len(diffs)}+ result lines differ between the real container and the Coq model"
    rep.cov["oracle_in_harness"] = dict(unexplained_mismatches=len(oracle_mm),
                                        mismatches_covered_by_known_findings=dict(oracle_classified))
    if oracle_mm and not tie_broken:
        tie_broken = f"the real container disagrees with the bit-array oracle of the harness ({len(oracle_mm)}+ operations)"
    if rc1 != 0 and not tie_broken:
        tie_broken = f"harness exited with {rc1}: {err1[-300:]}"
    # how often every yes/no operation answered yes / no on the real library, per operation and per
    # directed class (range shape): a predicate that has become constant shows up here
    answers, answers_cls = {}, {}
    with open(out_cpp) as f:
        for l in f:
            t = l.split(" ", 3)
            if len(t) >= 3 and t[1] in PREDICATES and t[2] in ("0", "1"):
                answers.setdefault(t[1], Counter())[t[2]] += 1
                sq, _, ix = t[0].partition(":")
                c = g.pred_class.get((sq, int(ix))) if ix.isdigit() else None
                if c and c.startswith("pred:"):
                    answers_cls.setdefault(c, Counter())[t[2]] += 1
    rep.cov["predicate_answers"] = {k: dict(yes=v["1"], no=v["0"]) for k, v in sorted(answers.items())}
    rep.cov["predicate_answers_by_range_shape"] = {k: dict(yes=v["1"], no=v["0"]) for k, v in sorted(answers_cls.items())}
    constant = [k for k, v in answers.items() if not (v["1"] and v["0"])] + \
               [k for k, v in answers_cls.items() if not (v["1"] and v["0"]) and not k.endswith(":empty")]
    rep.cov["constant_predicates"] = sorted(constant)
    exc_lines = 0
    with open(out_cpp) as f:
        for l in f:
            if " EXC " in l and l.split()[1] not in ("asdata", "cdv"):   # those two throw by design on bad sizes
                exc_lines += 1
    if exc_lines and not tie_broken:
        tie_broken = f"{exc_lines} generated in-bounds operations threw inside the real container"

    rep.cov["evaluations"] = g.nops + len([l for l in corpus_lines if not l.startswith(("S", "E", "#"))])
    rep.cov["sequences"] = g.nseq
    rep.cov["distinct_nontrivial"] = len(g.nontrivial)
    rep.cov["rule"] = ("seeded random operation sequences on 3 containers (2 or 4 planes) + " +
                       ("exhaustive grid offset 0..127 x size 0..130 per range operation x 5 content patterns; " if exhaustive_grid else "") +
                       "offsets aimed at offset mod 64 in {0,1,7,8,56,63}, sizes at {0,1,7,8,63,64,65,127,128,129,200}; "
                       "a case counts as non-trivial if it addresses at least one bit (length > 0, not a content-fill step) and as "
                       "distinct by (plane count, register sizes, operation with all arguments)")
    rep.cov["samples"] = g.samples
    rep.cov["traces_validated_against_impl"] = nlines if not tie_broken else 0
    rep.cov["result_lines_compared"] = nlines
    rep.cov["class_histogram"] = dict(sorted(g.hist.items()))
    opcount = Counter(l.split()[0] for l in corpus_lines + g.lines if l and l.split()[0] not in ("S", "E", "#"))
    rep.cov["public_api_covered"] = [dict(operation=n, level=lv, executed=sum(opcount[o] for o in ops), theorems_or_note=note)
                                     for n, ops, lv, note in PUBLIC_API]
    rep.cov["public_api_not_covered"] = [dict(operation=n, reason=r) for n, r in NOT_COVERED]
    rep.cov["public_api_legend"] = "T = universal Coq theorem, M = model vs real library on every generated case, O = real library vs the harness's bit-array oracle"
    zero = [n for n, ops, lv, note in PUBLIC_API if ops and sum(opcount[o] for o in ops) == 0]
    if zero:
        V.infra_error("generator bug: covered operations never executed: " + "; ".join(zero))
    rep.cov["exhaustive"] = False
    rep.cov["grid_exhaustive"] = exhaustive_grid
    rep.cov["corpus_files"] = [os.path.basename(c) for c in corpus]
    rep.assumptions += [
        "the Coq model BvsDefs.v is a hand transcription of BitVectorState.h/.cpp and BitManipulation.h; its agreement with the code is established by this run's differential comparison only",
        "generic (non-BMI) bitfieldExtract/andNot templates are what is compiled (harness reports __BMI__=%d); a BMI build would use _bextr_u64, not modelled" % (1 if bmi else 0),
        "size_t arithmetic on offsets/sizes modelled in unbounded N; aliasing of source and destination container excluded; little-endian byte order for the memcpy fast paths",
        "boost::multiprecision import_bits/export_bits modelled from their documentation and source (magnitude words, zero exports one 0 word)",
        "parseBitVector: the boost::spirit grammar is modelled by hand (uint_ overflow >= 2^32 not modelled); parseExtendedBitVector, createDefaultBitVectorState*, asData, operator==(state, bytes), the iterator/proxy are not modelled",
    ]
    if bmi:
        tie_broken = (tie_broken or "") + " harness compiled with __BMI__: the modelled generic templates are not the compiled ones"

    # ---- confirmed findings: probe them on the real library every run ----
    _, probe_out = V.run([exe, "probe"])
    obs_text = {
        "clear_keeps_size": "clear() empties the word vectors but keeps size(): the container is inconsistent (every access out of bounds) until the next resize()",
        "create_value_wider_than_width_exposed_by_resize": "createDefaultBitVectorState(8, 0x1FF) stores bit 8 above size(); resize(16) exposes it (precondition used by the generator: value < 2^bitWidth)",
        "create_data_padding_bits_exposed_by_resize": "createDefaultBitVectorState(13, {0xff,0xff}) stores bits 13..15 above size(); resize(16) exposes them (precondition used by the generator: padding bits zero)",
    }
    rep.cov["observations"] = {k: dict(present=("PROBE " + k + " 1") in probe_out, text=t) for k, t in obs_text.items()}
    for fid, fd in FINDINGS.items():
        if fd["probe"] is None:
            present = "PROBE " + fid + " 1" in probe_out
            pm = []
        else:
            pm, _, pout = oracle_run(exe, fd["probe"], "probe_" + fid)
            present = bool(pm)
        rep.cov.setdefault("finding_probes", {})[fid] = "present" if present else "absent"
        if not present:
            continue
        if fid in KNOWN_KEYS:
            rep.known([k for k in known if fd["key"] in k][0])
        else:
            rep.violation(dict(property=CID, what_broke="confirmed deviation present on the real library and not listed as known: " + fd["text"],
                               ops=fd["probe"] or ["build/harness/C18_bvs probe"],
                               mismatches=pm[:3], probe_output=probe_out.strip().splitlines()[-1:] if fd["probe"] is None else None),
                          tag=fid)

    if constant and res["ok"] and not tie_broken:
        # recorded in the evidence (coverage.constant_predicates) and on stderr; not an alarm: the property held on everything explored
        print("WARNING: generator weakness: yes/no operations with a constant answer in this run: " + ", ".join(sorted(constant)), file=sys.stderr)

    # ---- search mode ----
    if not res["ok"] or tie_broken:
        budget = 60 if tier == "quick" else 600
        ts = time.time()
        found = None
        seqs = split_sequences(opsfile)
        order = []
        if oracle_mm and oracle_mm[0]["seq"] in seqs:
            order.append(oracle_mm[0]["seq"])
        if diffs:
            sid = diffs[0][1].split(":")[0] if diffs[0][1] else diffs[0][2].split(":")[0]
            if sid in seqs and sid not in order:
                order.append(sid)
        # 1. the disagreeing sequence, 2. everything generated, 3. fresh seeds
        cand_lines = []
        for sid in order:
            mm, _, _ = oracle_run(exe, seqs[sid], "first")
            mm = [m for m in mm if not is_fmt16_finding(m)]
            if mm:
                found = (seqs[sid], mm[0])
                break
        if not found:
            mm, _, _ = oracle_run(exe, [l.rstrip("\n") for l in open(opsfile)], "all", timeout=budget)
            mm = [m for m in mm if not is_fmt16_finding(m)]
            if mm:
                found = (seqs[mm[0]["seq"]], mm[0])
        extra = 0
        while not found and time.time() - ts < budget:
            extra += 1
            g2 = Gen(random.Random(seed * 7919 + extra))
            for i in range(300):
                g2.random_sequence(f"s{extra}_{i}", 30)
            mm, _, _ = oracle_run(exe, g2.lines, "fresh", timeout=budget)
            mm = [m for m in mm if not is_fmt16_finding(m)]
            if mm:
                sq = {}
                cur = None
                for l in g2.lines:
                    if l.startswith("S "):
                        cur = l.split()[1]; sq[cur] = [l]
                    else:
                        sq[cur].append(l)
                found = (sq[mm[0]["seq"]], mm[0])
        rep.cov["search_mode"] = dict(entered=True, seconds=round(time.time() - ts, 1), extra_rounds=extra)
        what = dict(failed_theorems=res["failed"], tie=tie_broken,
                    first_model_vs_impl_differences=[dict(line=n, impl=a, model=b) for n, a, b in diffs[:3]],
                    coq_log=(res["log"][-1500:] if not res["ok"] else ""))
        if found:
            seq_lines, m = found
            small, m2 = shrink(exe, seq_lines, m["index"])
            m = m2 or m
            if m2 is None:
                small = seq_lines
            rep.violation(dict(property=CID, what_broke=what, ops=small, failing_op=m["op"], kind=m["what"],
                               expected_by_bit_array_oracle=m["expected"], observed_on_real_container=m["observed"],
                               replay="python3 checks/C18.py --replay <this file>  (or: build/harness/C18_bvs oracle <file with the ops>)"))
        else:
            rep.violation(dict(property=CID, what_broke=what, ops=[],
                               note="no concrete failing input found by the bit-array oracle within the budget"), nofail=True)
    # ---- word helpers: sweep of the REAL header against independent python definitions (always run: ~0.1 s);
    #      when the source-regenerated theorems broke this is the search for the failing input
    sweep_bad, sweep_n = bitmanip_sweep(sweep_exe)
    rep.cov["bitmanip_sweep_calls"] = sweep_n
    if sweep_bad:
        rep.violation(dict(property=CID, kind="word helper of utils/BitManipulation.h disagrees with its definition on the real header",
                           failing_calls=sweep_bad[:8], n=len(sweep_bad), theorems_failed=res_src["failed"], translator=tout.strip()[:300],
                           replay="build/harness/C18_bitmanip | grep '^<first three fields>'"), tag="bitmanip")
    elif trc != 0 or not res_src["ok"]:
        rep.violation(dict(property=CID, kind="source-regenerated theorems no longer check", translator=tout.strip()[:500],
                           theorems_failed=res_src["failed"], log=res_src["log"][-1500:],
                           note="the sweep of the real header (all start/count pairs, 8 words) found no wrong result"), nofail=True, tag="bitmanip")
    rep.cov["wall_total_s"] = round(time.time() - t0, 1)
    rep.finish()


if __name__ == "__main__":
    main()
