#!/usr/bin/env python3
"""C11 — Names, grouping, comments, attributes and pass-through copies never change behaviour.

Every generated design A gets a decorated twin B (lib/designgen.decorate: names added/removed,
areas/entities wrapped around statement ranges, attributes, taps, pass-through copies, different
lifetime of frontend handles).  Verified certificates (ProductCert, Properties_C11.v):
   strict  A.pre vs B.pre ;  refine  A.pre vs B.def / B.min ;  compat  A.def vs B.def, A.min vs B.min
tie:    model vs real simulator traces for all six circuits
search: product-BFS counterexamples replayed on the real simulator; direct differential of real traces
"""
import sys, os, json, glob
sys.path.insert(0, os.path.join(os.path.dirname(os.path.abspath(__file__)), "..", "lib"))
import vcommon as V, circ, designgen as G

CID = "C11"
WORK = V.BUILD / "work" / CID
BUDGET = 4000000


def strict_diff(a, b):
    for c, ((_, oa, _), (_, ob, _)) in enumerate(zip(a["cycles"], b["cycles"])):
        if oa != ob:
            return dict(kind="constructed twins show different pin values", cycle=c, A=oa, B=ob)
    return None


def main():
    rep = V.Report(CID, "proof")
    V.build_gatery()
    harness = V.build_harness("C01_design")
    V.build_harness("C06_retime"); V.build_model("NM")
    driver = V.build_model("C01", name="C01")
    if "--build-only" in sys.argv:
        sys.exit(0)
    res = V.check_properties(CID)
    rep.add_proof(res)
    forb = V.scan_forbidden()
    known, _ = V.known_findings(CID)

    npairs = 60 if rep.tier == "quick" else 800
    pairs = []
    if "--replay" in sys.argv:
        r = json.loads(open(sys.argv[sys.argv.index("--replay") + 1]).read())
        if "programA" in r:
            pairs = [(r["programA"], r["programB"], ["replay"])]
            npairs = 0
    for f in sorted(glob.glob(str(V.VERIF / "corpus" / CID / "*.pair"))):
        txt = open(f).read().split("design ")
        blocks = ["design " + b.strip() for b in txt if b.strip()]
        if len(blocks) == 2:
            pairs.append((blocks[0].split("\n"), blocks[1].split("\n"), ["corpus"]))
    for i in range(npairs):
        lines, used = G.gen_design(rep.seed * 200003 + i, f"a{i}", extra_templates=("t_xovr", "t_edges", "t_attached_reset"))
        tw, ap = G.decorate(lines, rep.seed * 300007 + i)
        pairs.append((lines, tw, ap))
    allprogs, ida, idb, dec = [], [], [], {}
    for k, (a, b, ap) in enumerate(pairs):
        a = [f"design A{k}", f"stimkey pair{k}"] + [l for l in a[1:] if not l.startswith("stimkey")]
        b = [f"design B{k}", f"stimkey pair{k}"] + [l for l in b[1:] if not l.startswith("stimkey")]
        allprogs += [a, b]
        ida.append(f"A{k}"); idb.append(f"B{k}"); dec[k] = ap
    prog = {p[0].split()[1]: p for p in allprogs}

    out = WORK / "run"
    if out.exists():
        for f in out.glob("*"):
            f.unlink()
    out.mkdir(parents=True, exist_ok=True)
    G.write_programs(out / "designs.txt", allprogs)
    circ.run_harness(harness, str(out / "designs.txt"), str(out), "pre,def,min", nstim=2, cycles=8)

    lines = []
    if driver:
        cmds = []
        for a, b in zip(ida, idb):
            for i in (a, b):
                for v in ("pre", "def", "min"):
                    cmds.append(f"tie {out}/{i}.{v}.net {out}/{i}.{v}.trace")
            t = f"{out}/{a}.pre.trace"
            cmds.append(f"cert strict {out}/{a}.pre.net {out}/{b}.pre.net {t} {BUDGET}")
            for v in ("def", "min"):
                cmds.append(f"cert refine {out}/{a}.pre.net {out}/{b}.{v}.net {t} {BUDGET}")
                cmds.append(f"cert compat {out}/{a}.{v}.net {out}/{b}.{v}.net {t} {BUDGET}")
        lines = circ.run_driver(driver, cmds, str(WORK / "batch"))
    tie_ok = sum(1 for l in lines if l.startswith("TIE") and " ok " in l)
    tie_bad = [l for l in lines if l.startswith("TIE") and "MISMATCH" in l]
    cert = [l for l in lines if l.startswith("CERT")]
    cert_ok = [l for l in cert if " OK " in l]
    cert_fail = [l for l in cert if " FAIL " in l]
    cert_rej = [l for l in cert if " REJECTED " in l]
    cert_big = [l for l in cert if " TOOBIG " in l]
    cert_uns = [l for l in cert if " UNSUPPORTED " in l]
    errors = [l for l in lines if l.startswith("ERROR")]

    # independent oracle on the real traces
    direct = []
    skipped = 0
    for k, (a, b) in enumerate(zip(ida, idb)):
        ta = {v: circ.parse_traces(out / f"{a}.{v}.trace") for v in ("pre", "def", "min")}
        tb = {v: circ.parse_traces(out / f"{b}.{v}.trace") for v in ("pre", "def", "min")}
        if "SKIP" in ta["pre"] or "SKIP" in tb["pre"]:
            if ("SKIP" in ta["pre"]) != ("SKIP" in tb["pre"]):
                direct.append((k, "pre", dict(kind="only one twin could be constructed", A=ta["pre"].get("SKIP"), B=tb["pre"].get("SKIP")), None))
            else:
                skipped += 1
            continue
        for v in ("pre", "def", "min"):
            if "SKIP" in ta[v] or "SKIP" in tb[v]:
                direct.append((k, v, dict(kind="post-processing threw for a twin", A=ta[v].get("SKIP"), B=tb[v].get("SKIP")), None))
                continue
            for tag, x in ta[v].items():
                y = tb[v].get(tag.replace(f"{a}.", f"{b}."))
                if y is None:
                    continue
                d = strict_diff(x, y) if v == "pre" else circ.direct_diff(x, y)
                if d is None and v != "pre":
                    d = circ.direct_diff(ta["pre"][tag.replace(f"{a}.{v}", f"{a}.pre")], y) if tag.replace(f"{a}.{v}", f"{a}.pre") in ta["pre"] else None
                if d:
                    direct.append((k, v, d, circ.stim_of(x)))
                    break

    # confirm model counterexamples on the real simulator
    confirmed, unconfirmed = [], []
    for l in cert_fail:
        p = l.split()
        fa, fb = p[1], p[2]
        m = [x for x in p if x.startswith("stimulus=")]
        if not m:
            unconfirmed.append((l, None)); continue
        stim = m[0][len("stimulus="):]
        ia, va = fa.rsplit(".", 2)[0], fa.rsplit(".", 2)[1]
        ib, vb = fb.rsplit(".", 2)[0], fb.rsplit(".", 2)[1]
        cex = WORK / "cex"; cex.mkdir(exist_ok=True)
        G.write_programs(cex / "designs.txt", [prog[ia], prog[ib]])
        open(cex / "stim.txt", "w").write(f"{ia} {stim}\n{ib} {stim}\n")
        circ.run_harness(harness, str(cex / "designs.txt"), str(cex), ",".join(sorted({va, vb})), replay_stim=str(cex / "stim.txt"))
        x = circ.parse_traces(cex / f"{ia}.{va}.trace").get(f"{ia}.{va} replay")
        y = circ.parse_traces(cex / f"{ib}.{vb}.trace").get(f"{ib}.{vb} replay")
        real = None
        if x and y:
            real = strict_diff(x, y) if (va == "pre" and vb == "pre") else circ.direct_diff(x, y)
            if real is None and "clean=true" in l and x["cycles"][-1][1] != y["cycles"][-1][1]:
                real = dict(kind="A's run free of undefined values but B differs", A=x["cycles"][-1][1], B=y["cycles"][-1][1])
        (confirmed if real else unconfirmed).append((l, real, ia, ib, stim))

    rep.cov["evaluations"] = len(cert)
    rep.cov["distinct_nontrivial"] = len({l.split()[1].split(".")[0] for l in cert_ok if int(l.split()[4].split("=")[1]) > 3})
    rep.cov["rule"] = ("seeded design programs (lib/designgen.py) each paired with a decorated twin (names added/removed, areas/entities, attributes, "
                       "taps, pass-through copies, different handle lifetimes); 5 verified certificates per pair; non-trivial = pair whose certificate has "
                       "more than 3 product states")
    rep.cov["programs"] = 2 * (len(pairs) - skipped)
    rep.cov["traces_validated_against_impl"] = tie_ok
    rep.cov["certificates_accepted"] = len(cert_ok)
    rep.cov["certificates_failed"] = len(cert_fail)
    rep.cov["certificates_rejected_by_checker"] = len(cert_rej)
    rep.cov["too_big"] = len(cert_big)
    rep.cov["unsupported"] = len(cert_uns)
    rep.cov["tie_mismatch"] = len(tie_bad)
    dh = {}
    for k in dec:
        for d in dec[k]:
            dh[d] = dh.get(d, 0) + 1
    rep.cov["decoration_histogram"] = dh
    rep.cov["samples"] = [dict(A=prog[ida[-1]], B=prog[idb[-1]], decorations=dec[len(pairs) - 1])]
    rep.assumptions += [
        "same trusted base as C01: hand model of node/cycle semantics tied by sampled traces; live cone of the dump; single clock",
        "the exported-VHDL half of C11 is covered only as far as C02/C13 cover the export; here the simulated I/O behaviour is decided",
        "twin pairs are sampled by the generator; stimuli and cycles are closed by the theorems per validated pair",
    ]
    broken = []
    if not res["ok"]:
        broken.append("proof obligations failed: " + ", ".join(res["failed"]) + " | " + res["log"][-600:])
    if forb:
        broken.append("forbidden constructs: " + "; ".join(forb[:5]))
    if driver is None:
        broken.append("extracted model no longer builds: " + V.last_model_log[-600:])
    if tie_bad:
        broken.append(f"{len(tie_bad)} tie mismatches, first: {tie_bad[0][:300]}")
    if cert_rej:
        broken.append(f"{len(cert_rej)} certificates rejected by the verified checker, first: {cert_rej[0][:300]}")
    if errors:
        broken.append(f"driver errors: {errors[0][:300]}")
    if unconfirmed:
        broken.append(f"{len(unconfirmed)} model counterexamples not reproduced on the real simulator, first: {unconfirmed[0][0][:300]}")

    import C11b
    rviol, rbroken = C11b.run(rep, strict_diff)
    mviol, mbroken = C11b.run_mem(rep, strict_diff)
    wviol, wbroken = C11b.run_wide(rep, strict_diff)
    rviol = rviol[:4] + mviol[:3] + wviol[:3]
    broken += rbroken + mbroken + wbroken
    for v in rviol:
        rep.violation(dict(property=CID, broken=broken, **v), tag="retimed")
    seen = set()
    for l, real, ia, ib, stim in confirmed:
        if ia in seen or len(seen) >= 6:
            continue
        seen.add(ia)
        rep.violation(dict(property=CID, kind="decorated twin behaves differently (product BFS, confirmed on the real simulator)",
                           programA=prog[ia], programB=prog[ib], stimulus=stim, real_simulator=real, model=l, broken=broken), tag="cex")
    for k, v, d, stim in direct:
        if ida[k] in seen or len(seen) >= 6:
            continue
        seen.add(ida[k])
        rep.violation(dict(property=CID, kind="real simulator traces of decoration twins differ", variant=v,
                           programA=prog[ida[k]], programB=prog[idb[k]], stimulus=stim, real_simulator=d, broken=broken), tag="diff")
    if broken and not rep.violations:
        rep.violation(dict(property=CID, kind="proof, tie or certificate broken; no failing input found", broken=broken), nofail=True, tag="tie")
    rep.finish()


if __name__ == "__main__":
    main()
