#!/usr/bin/env python3
"""C03 layer (b): every FRONTEND operator on Bit / UInt / SInt / BVec evaluates in the reference
simulator to its integer / bit-vector definition, for all widths and operand values, and the
construction-time evaluation of constant expressions agrees with run-time simulation.

Pipeline (AGENT_BRIEF.md):
  1. rebuild gatery + harness/C03_expr.cpp from the current /repo tree,
  2. re-check coq/Gatery/Properties_C03b.v (theorems op_correct_* over FrontendOpsDefs.v),
  3. extract the model (coq/extract/Extract_C03b.v) + ocaml/C03b_driver.ml,
  4. three-way correspondence on seeded random expression DAGs (and exhaustive small widths):
       (a) the REAL frontend builds the DAG, the un-postprocessed circuit is simulated in
           sim::ReferenceSimulator for every operand vector; pin-free DAGs are also evaluated at
           construction time (ConstructionTimeSimulationContext),
       (b) the extracted Coq function fe_apply evaluates the same DAG node by node,
       (c) an independent python oracle (`py_apply`: python ints, two's complement, string
           operations - NOT derived from the Coq model) computes the mathematical definition;
     every DAG node is compared, not only the output,
  5. on any failure: search for a concrete failing input (implementation vs python oracle).

Case language (one case per line):   <node> ; <node> ; ... | <vec> | <vec> ...
  a node is an operator, its parameters, then the indices of its operand nodes:
    pin T w | lits T wopt base digits | litd T wopt n | liti T z | litb c | const T v w | undef T w
    not a | abs a | cast T a | extto P w a | extby P n a | extred P n a       (P in z o s d=default)
    slice off w a | upper w a | lower w a | upperR r a | lowerR r a | msb a | lsb a | bit i a | bitn i a
    shl n a | shr n a | rotl n a | rotr n a                                    (static amounts)
    add sub mul div rem a b | addc a b c | and or xor nand nor xnor a b | eq neq lt gt leq geq a b
    zshl oshl sshl zshr oshr sshr drotl drotr dshl dshr a amount               (dynamic amounts)
    shra n a arith | dshra a amount arith | dynbit a idx | dynslice w a off
    cat a.. | pack a.. | mux sel t0 t1 ..
    mslice <spec> a aux..    several slice requests on ONE frontend object (C++ object identity kept, so the alias caches
                             m_rangeAlias / m_bitAlias / m_msbAlias / m_lsbAlias / m_dynamicBitAlias are exercised), executed in
                             order; result = pack(read_1, .., read_n, final value of the object).  spec = item,item,..
                             item = r<form> | w<form>:V | g:V (x = aux[V]);  form = d:W:K x(aux[K],W) | p:P:K x.part(P,aux[K]) |
                             q:P:K x.parts(P)[aux[K]] | b:K x[aux[K]] | s:O:W x(O,W) | t:P:I x.part(P,I) | i:I x[I] | m | l | u:W | o:W |
                             a abs(x) | M:K x*aux[K] | L:K x<aux[K]  (SInt, read only; they use the cached sign alias)
  T in U(Int) S(Int) V(BVec) B(it); a vec holds one MSB-first 0/1/X string per pin ("-" = width 0).
"""
import sys, os; sys.path.insert(0, os.path.join(os.path.dirname(os.path.abspath(__file__)), "..", "lib"))
import vcommon as V
import json, random, time, itertools, collections, re
from pathlib import Path

CID = "C03b"
WORK = V.BUILD / "work"
EMPH = [0, 1, 2, 7, 8, 31, 32, 33, 63, 64, 65]
GROW_EXCLUDES = ""       # slice forms kept out of request sequences in which the object grows (was "bi" until repair 14e4999: m_bitAlias / m_dynamicBitAlias now follow a width change)
OCT_MAX_DIGITS = 10**9   # (octal literals longer than 21 digits used to assert in parseBitVector; repaired, regressions in corpus/C03b)

# ----------------------------------------------------------------------------
# Independent oracle: the mathematical definition of every frontend operator.
# A value = (ty, pol, bits): bits MSB first over 0 1 X and '?' ('?' = the oracle abstains on
# this bit: undefined operands of a composite operator whose definedness rule is not part of
# the mathematical definition; such bits are not compared).
# ----------------------------------------------------------------------------

REJ = "REJECT"

class Val:
    __slots__ = ("ty", "pol", "bits")
    def __init__(self, ty, pol, bits): self.ty, self.pol, self.bits = ty, pol, bits
    @property
    def w(self): return len(self.bits)
    def __repr__(self): return "%s%s:%s" % (self.ty, self.pol, self.bits or "-")

def has(bits, chars): return any(c in bits for c in chars)
def uval(bits): return int(bits, 2) if bits else 0
def sval(bits):
    if not bits: return 0
    v = int(bits, 2)
    return v - (1 << len(bits)) if bits[0] == "1" else v
def enc(v, w): return format(v % (1 << w), "0%db" % w) if w else ""
def blank(bits, w):
    """result of an all-or-nothing operator on operands `bits` when some bit is not a number"""
    return ("?" if "?" in bits else "X") * w

def expand(pol, bits, w):
    wa = len(bits)
    if w < wa: return REJ                       # a signal is never implicitly narrowed
    if wa == w: return bits
    if pol == "n": return REJ                   # different widths need an expansion policy
    if pol == "z": return "0" * (w - wa) + bits
    if pol == "o": return "1" * (w - wa) + bits
    if wa == 0: return REJ                      # nothing to replicate
    return bits[0] * (w - wa) + bits

def norm(a, b):
    w = max(a.w, b.w)
    x, y = expand(a.pol, a.bits, w), expand(b.pol, b.bits, w)
    if x == REJ or y == REJ: return REJ
    return x, y

def k_and(a, b):
    if a == "0" or b == "0": return "0"
    if a == "1" and b == "1": return "1"
    return "?" if "?" in (a, b) else "X"
def k_or(a, b):
    if a == "1" or b == "1": return "1"
    if a == "0" and b == "0": return "0"
    return "?" if "?" in (a, b) else "X"
def k_not(a): return {"0": "1", "1": "0"}.get(a, a)
def k_xor(a, b):
    if a in "01" and b in "01": return "1" if a != b else "0"
    return "?" if "?" in (a, b) else "X"
LOGIC = {"and": k_and, "or": k_or, "xor": k_xor,
         "nand": lambda a, b: k_not(k_and(a, b)), "nor": lambda a, b: k_not(k_or(a, b)), "xnor": lambda a, b: k_not(k_xor(a, b))}

def merge(options, w):
    """what is known about a value that is one of `options` (undefined selection)"""
    out = []
    for i in range(w):
        bs = {o[i] for o in options}
        out.append(next(iter(bs)) if len(bs) == 1 and next(iter(bs)) in "01" else ("?" if "?" in bs else "X"))
    return "".join(out)

def lsb_bit(bits, i): return bits[len(bits) - 1 - i]
def extract(bits, off, cnt):
    """cnt bits starting at bit off (LSB = 0); beyond the vector: undefined"""
    return "".join(lsb_bit(bits, off + j) if off + j < len(bits) else "X" for j in reversed(range(cnt)))

def is_vec(t): return t != "B"

def shift_fill(bits, d, fill, a):
    """shift by a >= 0 inserting `fill`; width kept"""
    w = len(bits)
    a = min(a, w)
    if d == "L": return (bits + fill * a)[a:] if w else ""
    return (fill * a + bits)[:w]

def rotate(bits, d, a):
    w = len(bits)
    if w == 0: return ""
    a %= w
    if d == "L": return bits[a:] + bits[:a]
    return bits[w - a:] + bits[:w - a]

def py_shra(a, n, c):
    if a.ty != "U" or c.ty != "B": return REJ
    if a.w == 0 or n == 0 or n > a.w: return REJ
    inshift = k_and(c.bits, a.bits[0])
    return Val("U", "n", inshift * n + a.bits[:a.w - n])

def write_at(bits, off, w, v):
    """the vector with bits off..off+w-1 replaced by v (LSB = 0), clipped at the top; None if off is beyond the vector"""
    n = len(bits)
    if off >= n: return None
    lsb = list(reversed(bits)); vl = list(reversed(v))
    for j in range(min(w, n - off)): lsb[off + j] = vl[j]
    return "".join(reversed(lsb))

def write_dyn(x, idx, n, mul, w, v):
    opts = [write_at(x, i * mul, w, v) for i in range(n)]
    if any(o is None for o in opts): return REJ
    if has(idx, "X?"): return merge(opts + (["?" * len(x)] if "?" in idx else []), len(x))
    i = uval(idx)
    return opts[i] if i < n else "X" * len(x)

def py_mslice(spec, x, aux):
    if not is_vec(x.ty): return REJ
    reads = []
    for item in spec.split(","):
        f = item.split(":")
        if f[0] == "g":
            v = aux[int(f[1])]
            if v.ty != x.ty: return REJ
            if v.w > x.w: x = Val(x.ty, x.pol, v.bits)
            else:
                y = expand(v.pol, v.bits, x.w)
                if y == REJ: return REJ
                x = Val(x.ty, x.pol, y)
            continue
        mode, form, a = f[0][0], f[0][1:], f[1:]
        if mode == "r":
            if form == "d": r = py_apply("dynslice", [a[0]], [x, aux[int(a[1])]])
            elif form in "pq":
                P, idx = int(a[0]), aux[int(a[1])]
                if idx.ty != "U" or P == 0 or x.w % P: return REJ
                pw = x.w // P
                opts = [extract(x.bits, i * pw, pw) for i in range(P)]
                if has(idx.bits, "X?"): r = Val(x.ty, x.pol, merge(opts + (["?" * pw] if "?" in idx.bits else []), pw))
                else: r = Val(x.ty, x.pol, opts[uval(idx.bits)] if uval(idx.bits) < P else "X" * pw)
            elif form == "b": r = py_apply("dynbit", [], [x, aux[int(a[0])]])
            elif form == "s": r = py_apply("slice", a, [x])
            elif form == "t":
                P, I = int(a[0]), int(a[1])
                if P == 0 or I >= P or x.w % P: return REJ
                r = py_apply("slice", [str(I * (x.w // P)), str(x.w // P)], [x])
            elif form == "i": r = py_apply("bit", a, [x])
            elif form == "m": r = py_apply("msb", [], [x])
            elif form == "l": r = py_apply("lsb", [], [x])
            elif form == "u": r = py_apply("upper", a, [x])
            elif form == "o": r = py_apply("lower", a, [x])
            elif form == "a": r = py_apply("abs", [], [x])
            elif form == "M": r = py_apply("mul", [], [x, aux[int(a[0])]]) if x.ty == "S" and aux[int(a[0])].ty == "S" else REJ
            elif form == "L": r = py_apply("lt", [], [x, aux[int(a[0])]]) if x.ty == "S" and aux[int(a[0])].ty == "S" else REJ
            else: raise ValueError(item)
            if r == REJ: return REJ
            reads.append(r.bits)
            continue
        v = aux[int(a[-1])]; a = a[:-1]
        def vecval(w):
            return REJ if v.ty != x.ty else expand(v.pol, v.bits, w)
        bitval = v.bits if v.ty == "B" else REJ
        if form == "d":
            idx, W = aux[int(a[1])], int(a[0])
            if idx.ty != "U" or idx.w > 16: return REJ
            y = vecval(W); nb = REJ if y == REJ else write_dyn(x.bits, idx.bits, 1 << idx.w, 1, W, y)
        elif form in "pq":
            P, idx = int(a[0]), aux[int(a[1])]
            if idx.ty != "U" or P == 0 or x.w % P: return REJ
            pw = x.w // P; y = vecval(pw); nb = REJ if y == REJ else write_dyn(x.bits, idx.bits, P, pw, pw, y)
        elif form == "b":
            idx = aux[int(a[0])]
            if idx.ty != "U" or x.w == 0: return REJ
            nb = REJ if bitval == REJ else write_dyn(x.bits, idx.bits, min(x.w, 1 << idx.w), 1, 1, bitval)
        else:
            if form == "s": off, w, y = int(a[0]), int(a[1]), vecval(int(a[1]))
            elif form == "t":
                P, I = int(a[0]), int(a[1])
                if P == 0 or I >= P or x.w % P: return REJ
                w = x.w // P; off = I * w; y = vecval(w)
            elif form == "i":
                if int(a[0]) >= x.w: return REJ
                off, w, y = int(a[0]), 1, bitval
            elif form in "ml":
                if x.w == 0: return REJ
                off, w, y = (x.w - 1 if form == "m" else 0), 1, bitval
            elif form == "u":
                w = int(a[0])
                if w > x.w: return REJ
                off, y = x.w - w, vecval(w)
            elif form == "o": off, w, y = 0, int(a[0]), vecval(int(a[0]))
            else: raise ValueError(item)
            nb = REJ if y == REJ else (write_at(x.bits, off, w, y) or REJ)
        if nb == REJ or nb is None: return REJ
        x = Val(x.ty, x.pol, nb)
    return Val("U", "n", x.bits + "".join(reversed(reads)))

def py_apply(op, par, args):
    """mathematical definition; returns Val or REJ"""
    A = args
    if op == "lits":
        ty, wopt, base, digits = par[0], int(par[1]), par[2], ("" if par[3] == "_" else par[3])
        bps = {"b": 1, "o": 3, "x": 4}[base]
        body = "".join("X" * bps if d in "xX" else enc(int(d, 16), bps) for d in digits)
        if wopt:
            if wopt < len(body): return REJ
            body = "0" * (wopt - len(body)) + body
        return Val(ty, {"U": "z", "S": "s", "V": "n"}[ty], body)
    if op == "litd":
        ty, wopt, n = par[0], int(par[1]), int(par[2])
        w = n.bit_length()
        if wopt:
            if wopt < w: return REJ
            w = wopt
        return Val(ty, {"U": "z", "S": "s", "V": "n"}[ty], enc(n, w))
    if op == "liti":
        ty, z = par[0], int(par[1])
        if ty in "UV":
            if z < 0: return REJ
            return Val(ty, "z" if ty == "U" else "n", enc(z, z.bit_length()))
        w = (z.bit_length() if z >= 0 else (-z - 1).bit_length()) + 1      # smallest two's complement width
        return Val("S", "s", enc(z, w))
    if op == "litb": return Val("B", "n", "X" if par[0] in "xX" else par[0])
    if op == "const":
        v, w = int(par[1]), int(par[2])
        return Val(par[0], "n", enc(v % (1 << 64), w))
    if op == "undef": return Val(par[0], "n", "X" * int(par[1]))

    if op == "not": return Val(A[0].ty, "n", "".join(k_not(c) for c in A[0].bits))
    if op == "abs":
        a = A[0]
        if a.ty != "S" or a.w == 0: return REJ
        s = a.bits[0]
        if s not in "01": r = blank(a.bits, a.w) if s == "X" else "?" * a.w
        elif s == "0": r = a.bits
        elif has(a.bits, "X?"): r = blank(a.bits, a.w)
        else: r = enc(-sval(a.bits), a.w)
        return Val("U", "z", r)
    if op == "cast":
        if not is_vec(A[0].ty) or not is_vec(par[0]): return REJ
        return Val(par[0], A[0].pol, A[0].bits)
    if op in ("extto", "extby", "extred"):
        a = A[0]; n = int(par[1])
        p = par[0] if par[0] != "d" else ("s" if a.ty == "S" else "z")
        ty = "U" if a.ty == "B" else a.ty
        if op == "extred":
            return Val(ty, p, a.bits) if (n == 0 and a.w == 0) else REJ
        w = n if op == "extto" else a.w + n
        if w < a.w: return REJ
        if w == a.w: return Val(ty, p, a.bits)
        x = expand(p, a.bits, w)
        return REJ if x == REJ else Val(ty, p, x)
    if op in ("slice", "upper", "lower", "upperR", "lowerR"):
        a = A[0]
        if not is_vec(a.ty): return REJ
        if op == "slice": off, w = int(par[0]), int(par[1])
        elif op == "upper": w = int(par[0]); off = a.w - w
        elif op == "lower": off, w = 0, int(par[0])
        elif op == "upperR": off = int(par[0]); w = a.w - off
        else: off = 0; w = a.w - int(par[0])
        if off < 0 or w < 0 or off + w > a.w: return REJ
        return Val(a.ty, a.pol, extract(a.bits, off, w))
    if op in ("msb", "lsb", "bit", "bitn"):
        a = A[0]
        if not is_vec(a.ty) or a.w == 0: return REJ
        if op == "msb": i = a.w - 1
        elif op == "lsb": i = 0
        elif op == "bit":
            i = int(par[0])
            if i >= a.w: return REJ
        else:
            i = int(par[0])
            if i < -a.w: return REJ
            i %= a.w
        return Val("B", "n", lsb_bit(a.bits, i))
    if op in ("shl", "shr", "rotl", "rotr"):
        a = A[0]; n = int(par[0])
        if not is_vec(a.ty): return REJ
        if op == "shl": r = shift_fill(a.bits, "L", "0", n)
        elif op == "shr": r = shift_fill(a.bits, "R", a.bits[0] if (a.ty == "S" and a.w) else "0", n)
        else: r = rotate(a.bits, "L" if op == "rotl" else "R", n)
        return Val(a.ty, "n", r)

    if op in ("add", "sub", "mul", "div", "rem"):
        a, b = A
        tys = a.ty + b.ty
        if tys == "UU": rt = "U"
        elif tys == "SS":
            if op in ("div", "rem"): return REJ
            rt = "S"
        elif tys in ("UB", "SB"):
            if op not in ("add", "sub"): return REJ
            rt = a.ty; b = Val("U", "z", b.bits)
        elif tys == "BU":
            if op != "add": return REJ
            rt = "U"; a = Val("U", "z", a.bits)
        elif tys == "BS":
            if op not in ("add", "sub"): return REJ
            rt = "S"; a = Val("U", "z", a.bits)
        else: return REJ
        if rt == "S" and op == "mul" and a.w != b.w:
            # signed product of the two's complement values, each read at its own width
            if a.w == 0 or b.w == 0: return REJ
            w = max(a.w, b.w)
            if has(a.bits + b.bits, "X?"): return Val("S", "n", "?" * w)
            return Val("S", "n", enc(sval(a.bits) * sval(b.bits), w))
        xy = norm(a, b)
        if xy == REJ: return REJ
        x, y = xy; w = len(x)
        if has(x + y, "X?"): return Val(rt, "n", blank(x + y, w))
        dec = sval if rt == "S" else uval
        va, vb = dec(x), dec(y)
        if op == "add": r = va + vb
        elif op == "sub": r = va - vb
        elif op == "mul": r = va * vb
        elif vb == 0: return Val(rt, "n", "X" * w)
        elif op == "div": r = va // vb
        else: r = va % vb
        return Val(rt, "n", enc(r, w))
    if op == "addc":
        a, b, c = A
        if a.ty + b.ty + c.ty != "UUB": return REJ
        xy = norm(a, b)
        if xy == REJ or len(xy[0]) == 0: return REJ
        x, y = xy; w = len(x)
        if has(x + y + c.bits, "X?"): return Val("U", "n", blank(x + y + c.bits, w))
        return Val("U", "n", enc(uval(x) + uval(y) + uval(c.bits), w))
    if op in LOGIC:
        a, b = A
        if a.ty == b.ty: rt = a.ty
        elif not is_vec(a.ty): rt = b.ty; a = Val("U", "s", a.bits)
        elif not is_vec(b.ty): rt = a.ty; b = Val("U", "s", b.bits)
        else: return REJ
        xy = norm(a, b)
        if xy == REJ: return REJ
        return Val(rt, "n", "".join(LOGIC[op](p, q) for p, q in zip(*xy)))
    if op in ("eq", "neq", "lt", "gt", "leq", "geq"):
        a, b = A
        tys = a.ty + b.ty
        if tys == "SS" and op in ("lt", "gt", "leq", "geq"):
            if a.w == 0 or b.w == 0: return REJ
            if has(a.bits + b.bits, "X?"): return Val("B", "n", blank(a.bits + b.bits, 1))
            x, y = sval(a.bits), sval(b.bits)
        else:
            if tys in ("UU",): pass
            elif tys in ("SS", "VV", "BB", "UV", "VU", "SV", "VS"):
                if op not in ("eq", "neq"): return REJ
            else: return REJ
            xy = norm(a, b)
            if xy == REJ: return REJ
            if len(xy[0]) > 0 and has(xy[0] + xy[1], "X?"): return Val("B", "n", blank(xy[0] + xy[1], 1))
            x, y = uval(xy[0]), uval(xy[1])
        r = {"eq": x == y, "neq": x != y, "lt": x < y, "gt": x > y, "leq": x <= y, "geq": x >= y}[op]
        return Val("B", "n", "1" if r else "0")

    if op in ("zshl", "oshl", "sshl", "zshr", "oshr", "sshr", "drotl", "drotr", "dshl", "dshr"):
        a, amt = A
        if amt.ty != "U" or not is_vec(a.ty) or amt.w > 64: return REJ
        if op == "dshl": op = "zshl"
        if op == "dshr": op = "sshr" if a.ty == "S" else "zshr"
        if has(amt.bits, "X?"): return Val(a.ty, "n", blank(amt.bits, a.w))
        n = uval(amt.bits)
        if op in ("drotl", "drotr"): r = rotate(a.bits, "L" if op == "drotl" else "R", n)
        else:
            d = "L" if op[1:] == "shl" else "R"
            fill = {"z": "0", "o": "1"}.get(op[0])
            if fill is None: fill = (a.bits[-1] if d == "L" else a.bits[0]) if a.w else "0"
            r = shift_fill(a.bits, d, fill, n)
        return Val(a.ty, "n", r)
    if op == "shra": return py_shra(A[0], int(par[0]), A[1])
    if op == "dshra":
        a, amt, c = A
        if a.ty + amt.ty + c.ty != "UUB" or a.w != (1 << amt.w): return REJ
        acc = a.bits
        for i in range(amt.w):
            s = py_shra(Val("U", "n", acc), 1 << i, c)
            if s == REJ: return REJ
            sel = lsb_bit(amt.bits, i)
            acc = s.bits if sel == "1" else acc if sel == "0" else merge([acc, s.bits] + (["?" * a.w] if sel == "?" else []), a.w)
        return Val("U", a.pol, acc)
    if op == "dynbit":
        a, idx = A
        if idx.ty != "U" or not is_vec(a.ty) or a.w == 0: return REJ
        n = min(a.w, 1 << idx.w)
        if has(idx.bits, "X?"):
            return Val("B", "n", merge([lsb_bit(a.bits, i) for i in range(n)] + (["?"] if "?" in idx.bits else []), 1))
        i = uval(idx.bits)
        return Val("B", "n", lsb_bit(a.bits, i) if i < n else "X")
    if op == "dynslice":
        a, off = A; sz = int(par[0])
        if off.ty != "U" or not is_vec(a.ty) or off.w > 16: return REJ
        if has(off.bits, "X?"):
            opts = [extract(a.bits, i, sz) for i in range(1 << off.w)] + (["?" * sz] if "?" in off.bits else [])
            return Val(a.ty, a.pol, merge(opts, sz))
        return Val(a.ty, a.pol, extract(a.bits, uval(off.bits), sz))
    if op in ("cat", "pack"):
        parts = A if op == "cat" else list(reversed(A))       # cat: first parameter is the most significant part
        return Val("U", "n", "".join(p.bits for p in parts))
    if op == "mslice": return py_mslice(par[0], A[0], A[1:])
    if op == "mux":
        sel, table = A[0], A[1:]
        if not table: return REJ
        n = len(table)
        if n > (1 << sel.w):
            if sel.pol != "z": return REJ
            n = 1 << sel.w
        used = table[:n]
        w = used[-1].w
        opts = [(u.bits + "X" * w)[:w] if u.w < w else u.bits[u.w - w:] for u in used]
        if has(sel.bits, "X?"):
            return Val(table[0].ty, "n", merge(opts + (["?" * w] if "?" in sel.bits else []), w))
        s = uval(sel.bits)
        return Val(table[0].ty, "n", opts[s] if s < n else "X" * w)
    raise ValueError("unknown op " + op)

NPAR = {"lits": 4, "litd": 3, "liti": 2, "litb": 1, "const": 3, "undef": 2, "cast": 1, "extto": 2, "extby": 2, "extred": 2,
        "slice": 2, "upper": 1, "lower": 1, "upperR": 1, "lowerR": 1, "bit": 1, "bitn": 1, "shl": 1, "shr": 1, "rotl": 1, "rotr": 1,
        "shra": 1, "dynslice": 1, "mslice": 1}

def parse_case(line):
    parts = line.split("|")
    nodes = []
    for s in parts[0].split(";"):
        t = s.split()
        op = t[0]
        if op == "pin": nodes.append((op, t[1:], [])); continue
        k = NPAR.get(op, 0)
        nodes.append((op, t[1:1 + k], [int(x) for x in t[1 + k:]]))
    vecs = [p.split() for p in parts[1:]] or [[]]
    return nodes, vecs

def py_case(line):
    """oracle results: ('R', j) or list (one per vector) of lists of Val"""
    nodes, vecs = parse_case(line)
    out = []
    for vec in vecs:
        vals, pins = [], list(vec)
        for j, (op, par, refs) in enumerate(nodes):
            if op == "pin":
                b = pins.pop(0); b = "" if b == "-" else b
                v = Val(par[0], "n", b)
            else:
                v = py_apply(op, par, [vals[r] for r in refs])
                if v == REJ: return ("R", j)
            vals.append(v)
        out.append(vals)
    return out

# ----------------------------------------------------------------------------
# Case generation (every random choice comes from one PRNG seeded by V.seed())
# ----------------------------------------------------------------------------

def width_class(w):
    return "0" if w == 0 else "1" if w == 1 else "2-8" if w <= 8 else "9-31" if w < 32 else "32" if w == 32 else "33-63" if w < 64 else "64" if w == 64 else "65+"

class Gen:
    def __init__(self, seed):
        self.r = random.Random(seed)

    def width(self, lo=0, hi=70):
        r = self.r
        hi = max(hi, lo)
        if r.random() < 0.65:
            c = [w for w in EMPH if lo <= w <= hi]
            if c: return r.choice(c)
        return r.randint(lo, hi)

    def value(self, w, xmode=False):
        r = self.r
        if w == 0: return ""
        p = r.random()
        if p < 0.10: v = 0
        elif p < 0.20: v = (1 << w) - 1
        elif p < 0.28: v = 1
        elif p < 0.40: v = 1 << (w - 1)                      # most negative / top bit only
        elif p < 0.50: v = (1 << (w - 1)) - 1                # most positive
        elif p < 0.58: v = r.getrandbits(min(w, r.randint(1, 6)))
        elif p < 0.64: v = ((1 << w) - 1) ^ r.getrandbits(min(w, 3))
        else: v = r.getrandbits(w)
        s = list(enc(v, w))
        if xmode:
            q = r.random()
            if q < 0.15: s = ["X"] * w
            elif q < 0.7:
                for i in r.sample(range(w), min(w, r.choice([1, 1, 2, 3, max(1, w // 2)]))): s[i] = "X"
        return "".join(s)

    # -- one case -----------------------------------------------------------
    def case(self, force_lits=None, nvec=4):
        r = self.r
        self.nodes, self.vals, self.pins = [], [], []
        self.all_lits = (r.random() < 0.2) if force_lits is None else force_lits
        self.W = self.width()
        nops = r.choice([1, 1, 2, 2, 3, 3, 4, 5, 6])
        cur = self.leaf(r.choice("UUUSSSVB"), self.W)
        for _ in range(nops):
            if cur is None: break
            nxt = self.step(cur)
            if nxt is None: break
            cur = nxt if r.random() < 0.8 else r.randrange(len(self.nodes))
            if len(self.nodes) > 28: break
        line = " ; ".join(self.nodes)
        vecs = []
        if self.pins:
            for v in range(nvec):
                xmode = (v == nvec - 1) or r.random() < 0.1
                vecs.append(" ".join((self.value(w, xmode and r.random() < 0.6) or "-") for w in self.pins))
            line += " | " + " | ".join(vecs)
        return line

    def add(self, tokens):
        """append a node; returns its index or None if the oracle says the frontend rejects it"""
        t = tokens.split()
        op = t[0]
        if op == "pin":
            v = Val(t[1], "n", "?" * int(t[2])); self.pins.append(int(t[2]))
        else:
            k = NPAR.get(op, 0)
            v = py_apply(op, t[1:1 + k], [self.vals[int(x)] for x in t[1 + k:]])
        self.nodes.append(tokens)
        if v == REJ:
            self.vals.append(None); return None
        self.vals.append(v)
        return len(self.nodes) - 1

    def literal(self, ty, w):
        """a literal of exactly this type and width"""
        r = self.r
        if ty == "B": return self.add("litb " + r.choice("01" if r.random() < 0.9 else "x"))
        forms = ["lits"]
        if w <= 64: forms += ["liti", "liti"]
        if ty in "UV": forms.append("const")
        f = r.choice(forms)
        if f == "const": return self.add("const %s %d %d" % (ty, r.getrandbits(min(64, max(1, w))), w))
        if f == "liti":
            if ty in "UV":
                if w == 0: return self.add("liti %s 0" % ty)
                v = (1 << (w - 1)) | r.getrandbits(w - 1) if w > 1 else 1
                return self.add("liti %s %d" % (ty, v))
            if w == 0: f = "lits"                                # an SInt integer literal has at least one bit
            elif w == 1: return self.add("liti S %d" % r.choice([0, -1]))
            else:
                if r.random() < 0.5: v = (1 << (w - 2)) | r.getrandbits(w - 2)                       # positive, needs w-1 magnitude bits
                else: v = -((1 << (w - 2)) + r.getrandbits(w - 2)) - 1 if r.random() < 0.7 else -(1 << (w - 1))
                return self.add("liti S %d" % v)
        # string literal: binary / hex / octal / decimal, with or without width prefix
        q = r.random()
        if q < 0.15 and w <= 64 and w > 0:
            return self.add("litd %s %d %d" % (ty, w, r.getrandbits(r.randint(0, w))))
        base, bps = r.choice([("b", 1), ("b", 1), ("x", 4), ("o", 3)])
        if w % bps == 0 and r.random() < 0.5: nd, wopt = w // bps, 0
        else: nd, wopt = r.randint(0, w // bps), w
        if base == "o" and nd > OCT_MAX_DIGITS: base, bps, nd, wopt = "b", 1, w, 0
        if wopt == 0 and nd == 0: wopt = 0
        alphabet = {"b": "01", "o": "01234567", "x": "0123456789abcdefABCDEF"}[base]
        digits = "".join(r.choice(alphabet) if r.random() < 0.97 else "x" for _ in range(nd)) or "_"
        if w == 0: return self.add("lits %s 0 %s _" % (ty, base))
        return self.add("lits %s %d %s %s" % (ty, wopt, base, digits))

    def leaf(self, ty, w):
        r = self.r
        if ty == "B": w = 1
        if self.all_lits or r.random() < 0.12: return self.literal(ty, w)
        return self.add("pin %s %d" % (ty, w))

    def operand(self, ty, w):
        """an existing node of this type and width (DAG sharing) or a new leaf"""
        r = self.r
        cands = [i for i, v in enumerate(self.vals) if v is not None and v.ty == ty and v.w == w]
        if cands and r.random() < 0.45: return r.choice(cands)
        return self.leaf(ty, w)

    def with_policy(self, i):
        """make sure node i carries an expansion policy (ext(x, +0) sets one)"""
        v = self.vals[i]
        if v.pol != "n" or v.ty == "B": return i
        p = self.r.choice("zos" if v.w > 0 else "zo")
        return self.add("extby %s 0 %d" % (p, i))

    def partner(self, cur, ty=None):
        """second operand for a width-normalised binary operator; returns (lhs, rhs) indices"""
        r = self.r
        c = self.vals[cur]; ty = ty or c.ty
        q = r.random()
        if q < 0.62 or c.ty == "B":
            o = self.operand(ty, c.w)
            a, b = cur, o
        elif q < 0.80:                                           # narrower partner carrying a policy
            w2 = self.width(0, max(0, c.w - 1)) if c.w > 0 else 0
            o = self.operand(ty, w2)
            if o is None: return None
            if r.random() < 0.9: o = self.with_policy(o)
            a, b = cur, o
        elif q < 0.95:                                           # wider partner: cur needs the policy
            o = self.operand(ty, self.width(c.w, 70))
            a = self.with_policy(cur) if r.random() < 0.9 else cur
            b = o
        else:                                                    # mismatch without policy: rejected
            o = self.operand(ty, c.w + r.randint(1, 3))
            a, b = cur, o
        if a is None or b is None: return None
        return (a, b) if r.random() < 0.5 else (b, a)

    def amount_node(self, w, rot=False):
        """a UInt shift amount: width 0..7 or 64, values around w"""
        r = self.r
        aw = r.choice([0, 1, 2, 3, 3, 4, 5, 6, 7, 7, 8, 64])
        if self.all_lits or r.random() < 0.3:
            v = r.choice([0, 1, max(0, w - 1), w, w + 1, 2 * w + 1, r.randint(0, 2 * w + 2)])
            v = min(v, (1 << aw) - 1) if aw else 0
            return self.add("const U %d %d" % (v, aw))
        return self.add("pin U %d" % aw)

    def step(self, cur):
        r = self.r
        c = self.vals[cur]
        w = c.w
        cats = {"U": ["arith", "arith", "logic", "cmp", "cmp", "sshift", "sshift", "dshift", "ext", "slice", "slice", "cat", "mux", "cast", "not", "bitarith", "addc", "shra", "dyn", "dyn", "veclogicbit", "eqv", "mslice", "mslice"],
                "S": ["arith", "arith", "arith", "logic", "cmp", "cmp", "cmp", "sshift", "sshift", "dshift", "ext", "slice", "slice", "cat", "mux", "cast", "not", "abs", "abs", "bitarith", "veclogicbit", "eqv", "mslice"],
                "V": ["logic", "cmp", "sshift", "dshift", "ext", "slice", "slice", "cat", "mux", "cast", "not", "veclogicbit", "eqv", "mslice"],
                "B": ["logic", "cmp", "not", "bitext", "cat", "muxsel", "bitarith_b", "veclogicbit_b", "mux"]}[c.ty]
        cat = r.choice(cats)
        if cat == "arith":
            ops = ["add", "sub", "mul", "div", "rem"] if c.ty == "U" else ["add", "sub", "mul", "mul"]
            op = r.choice(ops)
            if c.ty == "S" and op == "mul" and r.random() < 0.5:          # signed product of different widths
                o = self.operand("S", self.width(1, 70))
                if o is None: return None
                pair = (cur, o) if r.random() < 0.5 else (o, cur)
            else: pair = self.partner(cur)
            return None if pair is None else self.add("%s %d %d" % (op, pair[0], pair[1]))
        if cat == "logic":
            pair = self.partner(cur)
            return None if pair is None else self.add("%s %d %d" % (r.choice(list(LOGIC)), pair[0], pair[1]))
        if cat == "cmp":
            if c.ty == "S" and r.random() < 0.75:
                o = self.operand("S", w if r.random() < 0.6 else self.width(1, 70))
                if o is None: return None
                pair = (cur, o) if r.random() < 0.5 else (o, cur)
                return self.add("%s %d %d" % (r.choice(["lt", "gt", "leq", "geq"]), pair[0], pair[1]))
            pair = self.partner(cur)
            ops = ["eq", "neq", "lt", "gt", "leq", "geq"] if c.ty == "U" else ["eq", "neq"]
            return None if pair is None else self.add("%s %d %d" % (r.choice(ops), pair[0], pair[1]))
        if cat == "eqv":
            other = "V" if c.ty in "US" else r.choice("US")
            pair = self.partner(cur, other)
            return None if pair is None else self.add("%s %d %d" % (r.choice(["eq", "neq"]), pair[0], pair[1]))
        if cat == "sshift":
            n = r.choice([0, 1, 1, max(0, w - 1), w, w + 1, w + 2, 2 * w, 2 * w + 3, r.randint(0, max(1, 3 * w))])
            return self.add("%s %d %d" % (r.choice(["shl", "shr", "shr", "rotl", "rotl", "rotr", "rotr"]), n, cur))
        if cat == "dshift":
            a = self.amount_node(w)
            if a is None: return None
            return self.add("%s %d %d" % (r.choice(["zshl", "oshl", "sshl", "zshr", "oshr", "sshr", "drotl", "drotr", "dshl", "dshr"]), cur, a))
        if cat in ("ext", "bitext"):
            p = r.choice("zosd" if c.ty != "V" else "zos")
            if r.random() < 0.5: return self.add("extby %s %d %d" % (p, r.choice([0, 0, 1, 2, 7, 8, r.randint(0, 40)]), cur))
            tw = w + r.choice([0, 1, 1, 5, 31, r.randint(0, 40)]) if r.random() < 0.93 else max(0, w - 1)
            return self.add("extto %s %d %d" % (p, tw, cur))
        if cat == "slice":
            q = r.random()
            if w == 0 and q < 0.7: return self.add("slice 0 0 %d" % cur)
            if q < 0.3:
                sw = r.randint(0, w); off = r.randint(0, w - sw)
                if r.random() < 0.05: off += w + 1
                return self.add("slice %d %d %d" % (off, sw, cur))
            if q < 0.42: return self.add("%s %d %d" % (r.choice(["upper", "lower"]), r.randint(0, w) if r.random() < 0.95 else w + 1, cur))
            if q < 0.52: return self.add("%s %d %d" % (r.choice(["upperR", "lowerR"]), r.randint(0, w), cur))
            if q < 0.68: return self.add("%s %d" % (r.choice(["msb", "lsb"]), cur))
            if q < 0.84: return self.add("bit %d %d" % (r.randint(0, max(0, w - 1)) if r.random() < 0.95 else w, cur))
            return self.add("bitn %d %d" % (r.randint(-w, max(0, w - 1)) if w else 0, cur))
        if cat == "cat":
            n = r.choice([1, 2, 2, 2, 3])
            parts = [cur]
            for _ in range(n - 1):
                o = self.operand(r.choice("USVB"), self.width(0, 40))
                if o is None: return None
                parts.append(o)
            r.shuffle(parts)
            return self.add("%s %s" % (r.choice(["cat", "pack"]), " ".join(map(str, parts))))
        if cat == "mux":                                           # cur is a table entry
            q = r.random()
            if q < 0.4:
                sel = self.operand("B", 1); n = 2 if r.random() < 0.85 else r.choice([1, 3])
            else:
                sw = r.choice([0, 1, 2, 2, 3, 3]); sel = self.operand("U", sw)
                n = r.choice([1, 2, 3, (1 << sw), (1 << sw), max(1, (1 << sw) - 1), (1 << sw) + 1])
            if sel is None: return None
            if n > (1 << self.vals[sel].w) and r.random() < 0.85: sel = self.with_policy(sel) if self.vals[sel].ty != "B" else sel
            if sel is None: return None
            table = [cur]
            for _ in range(n - 1):
                o = self.operand(c.ty, w)
                if o is None: return None
                table.append(o)
            r.shuffle(table)
            return self.add("mux %d %s" % (sel, " ".join(map(str, table))))
        if cat == "muxsel":                                        # cur is a Bit selector
            ty = r.choice("USVB"); tw = self.width()
            a, b = self.operand(ty, tw), self.operand(ty, tw)
            if a is None or b is None: return None
            return self.add("mux %d %d %d" % (cur, a, b))
        if cat == "cast": return self.add("cast %s %d" % (r.choice([t for t in "USV" if t != c.ty]), cur))
        if cat == "not": return self.add("not %d" % cur)
        if cat == "abs": return self.add("abs %d" % cur)
        if cat == "bitarith":
            b = self.operand("B", 1)
            if b is None: return None
            op = r.choice(["add", "sub"])
            if r.random() < 0.3 and (op == "add" or c.ty == "S"): return self.add("%s %d %d" % (op, b, cur))
            return self.add("%s %d %d" % (op, cur, b))
        if cat == "bitarith_b":
            ty = r.choice("US"); o = self.operand(ty, self.width(1, 70))
            if o is None: return None
            return self.add("%s %d %d" % (r.choice(["add", "sub"]), o, cur))
        if cat in ("veclogicbit", "veclogicbit_b"):
            if cat == "veclogicbit": v, b = cur, self.operand("B", 1)
            else: v, b = self.operand(r.choice("USV"), self.width(1 if r.random() < 0.95 else 0, 70)), cur
            if v is None or b is None: return None
            pair = (v, b) if r.random() < 0.5 else (b, v)
            return self.add("%s %d %d" % (r.choice(list(LOGIC)), pair[0], pair[1]))
        if cat == "addc":
            pair = self.partner(cur); cbit = self.operand("B", 1)
            if pair is None or cbit is None: return None
            return self.add("addc %d %d %d" % (pair[0], pair[1], cbit))
        if cat == "shra":
            cbit = self.operand("B", 1)
            if cbit is None: return None
            if w in (1, 2, 4, 8, 16, 32, 64) and r.random() < 0.5:
                amt = self.operand("U", w.bit_length() - 1)
                return None if amt is None else self.add("dshra %d %d %d" % (cur, amt, cbit))
            n = r.choice([1, 1, max(1, w - 1), w, r.randint(1, max(1, w))]) if r.random() < 0.92 else r.choice([0, w + 1])
            return self.add("shra %d %d %d" % (n, cur, cbit))
        if cat == "dyn":
            if w == 0: return self.add("not %d" % cur)
            if r.random() < 0.5:
                idx = self.operand("U", r.choice([0, 1, 2, 3, 4, max(1, (w - 1).bit_length())]))
                return None if idx is None else self.add("dynbit %d %d" % (cur, idx))
            off = self.operand("U", r.choice([0, 1, 2, 3, 4]))
            return None if off is None else self.add("dynslice %d %d %d" % (r.randint(0, min(w, 12)), cur, off))
        if cat == "mslice": return self.mslice(cur)
        raise ValueError(cat)

    def mslice(self, cur):
        """several slices of ONE object, in forms whose alias-cache keys coincide in some fields (same index signal with
        different strides / widths, same offsets with different widths, ...), reads and writes, random request order"""
        r = self.r
        c = self.vals[cur]; w = c.w
        if w == 0: return self.add("mslice rs:0:0,ro:0 %d" % cur)
        iw = r.choice([1, 2, 2, 3])
        while (1 << iw) > w and iw > 0: iw -= 1
        P = 1 << iw
        div = (w % P == 0)
        pw = w // P if div else r.randint(1, w)
        aux = []
        def auxnode(i):
            if i is None: return None
            aux.append(i); return len(aux) - 1
        k0 = auxnode(self.operand("U", iw))
        k1 = auxnode(self.operand("U", iw)) if r.random() < 0.5 else k0
        if k0 is None or k1 is None: return None
        vv = vb = None
        items = []
        n = r.choice([2, 2, 3, 3, 4, 5, 6])
        forms = (["d", "d", "p", "q", "b", "s", "t", "i", "m", "l", "u", "o"] if div else ["d", "d", "b", "s", "i", "m", "l", "u", "o"])
        # the collision pattern first, in either order, in a third of the cases
        seq = []
        if div and pw > 1 and r.random() < 0.35:
            seq = [r.choice("pq"), "d"]; r.shuffle(seq)
        while len(seq) < n: seq.append(r.choice(forms))
        first_pair = len(seq) >= 2 and set(seq[:2]) <= set("pqd") and "d" in seq[:2] and (("p" in seq[:2]) or ("q" in seq[:2]))
        grow_at = r.randrange(1, len(seq)) if r.random() < 0.2 else None
        if grow_at is not None:      # x[idx] / x[i] across a growth: m_dynamicBitAlias / m_bitAlias are not invalidated (reported)
            forms = [f for f in forms if f not in GROW_EXCLUDES]; seq = [f if f not in GROW_EXCLUDES else "d" for f in seq]
        if c.ty == "S":
            seq = [(r.choice("aML") if r.random() < 0.2 else f) for f in seq]
        for j, fm in enumerate(seq):
            if j == grow_at:
                # x = wider value: the object grows (its caches must follow); widths of later requests still refer to the old width, which stays valid
                gv = auxnode(self.operand(c.ty, w + r.choice([1, 1, w, P, 8, r.randint(1, 20)])))
                if gv is None: return None
                items.append("g:%d" % gv)
            write = r.random() < 0.3 and not (first_pair and j < 2 and r.random() < 0.7)
            k = k0 if (first_pair and j < 2) else r.choice([k0, k1])
            if fm == "d":
                W = pw if (first_pair and j < 2) else r.choice([pw, pw, 1, r.randint(0, min(w, 12))])
                body, sw, bitform = "d:%d:%d" % (W, k), W, False
            elif fm in "pq": body, sw, bitform = "%s:%d:%d" % (fm, P, k), pw, False
            elif fm == "b": body, sw, bitform = "b:%d" % k, 1, True
            elif fm == "s":
                sw = r.choice([pw, pw, 1, r.randint(0, w)]); sw = min(sw, w)
                off = r.choice([0, pw * r.randrange(P) if div else 0, r.randint(0, w - sw)])
                if off + sw > w: off = w - sw
                if write and off >= w: off = max(0, w - 1); sw = min(sw, w - off)
                body, bitform = "s:%d:%d" % (off, sw), False
            elif fm == "t": body, sw, bitform = "t:%d:%d" % (P, r.randrange(P)), pw, False
            elif fm == "i": body, sw, bitform = "i:%d" % r.randrange(w), 1, True
            elif fm in "ml": body, sw, bitform = fm, 1, True
            elif fm in "aML":
                if fm == "a": items.append("ra"); continue
                o = auxnode(self.operand("S", r.choice([w, self.width(1, 70)])))
                if o is None: return None
                items.append("r%s:%d" % (fm, o)); continue
            else:
                sw = r.choice([pw, r.randint(0, w)]); sw = min(sw, w)
                if write and fm == "u" and sw == 0: sw = 1
                body, bitform = "%s:%d" % (fm, sw), False
            if write:
                if bitform:
                    if vb is None: vb = auxnode(self.operand("B", 1))
                    if vb is None: return None
                    items.append("w%s:%d" % (body, vb))
                else:
                    v = auxnode(self.operand(c.ty, sw))
                    if v is None: return None
                    items.append("w%s:%d" % (body, v))
            else: items.append("r" + body)
        return self.add("mslice %s %d %s" % (",".join(items), cur, " ".join(map(str, aux))))

def exhaustive_cases(maxw):
    """all operand pairs for the width-sensitive signed operators at small widths, one case per
    (operator, wa, wb); the vectors enumerate all value pairs"""
    out = []
    def words(w): return ["".join(t) or "-" for t in itertools.product("01", repeat=w)]
    for wa in range(1, maxw + 1):
        for wb in range(1, maxw + 1):
            vecs = " | ".join("%s %s" % (a, b) for a in words(wa) for b in words(wb))
            for op in ("lt", "gt", "leq", "geq", "mul"):
                out.append("pin S %d ; pin S %d ; %s 0 1 | %s" % (wa, wb, op, vecs))
            # the narrower operand extended by its policy, then + - == on SInt and UInt
            for ty in "SU":
                for p in "zos":
                    lo, hi = (0, 1) if wa <= wb else (1, 0)
                    for op in ("add", "sub", "mul", "eq", "and", "xnor") + (("lt", "geq", "div", "rem") if ty == "U" else ()):
                        out.append("pin %s %d ; pin %s %d ; extby %s 0 %d ; %s %d %d | %s" % (ty, wa, ty, wb, p, lo, op, 2 if lo == 0 else hi, 2 if lo == 1 else hi, vecs) if wa != wb
                                   else "pin %s %d ; pin %s %d ; %s 0 1 | %s" % (ty, wa, ty, wb, op, vecs))
    for w in range(0, maxw + 2):
        vecs = " | ".join(words(w))
        for n in range(0, 2 * w + 3):
            for op in ("shl", "shr", "rotl", "rotr"):
                for ty in "US":
                    out.append("pin %s %d ; %s %d 0 | %s" % (ty, w, op, n, vecs))
        if w >= 1: out.append("pin S %d ; abs 0 | %s" % (w, vecs))
    return list(dict.fromkeys(out))

# ----------------------------------------------------------------------------
# Runners and comparison
# ----------------------------------------------------------------------------

def write_cases(cases, name):
    WORK.mkdir(parents=True, exist_ok=True)
    p = WORK / name
    p.write_text("\n".join(cases) + "\n")
    return p

def read_out(path, n):
    """-> per case dict: {'R': j} | {'T': j} | {'W': ..} | {'E': msg} plus 'V': {vec: [vals]}, 'C': [vals]"""
    res = [dict() for _ in range(n)]
    if Path(path).exists():
        for line in Path(path).read_text().splitlines():
            f = line.split(" ", 2)
            if len(f) < 2: continue
            i = int(f[0]); kind = f[1]; rest = f[2] if len(f) > 2 else ""
            if i >= n: continue
            if kind == "V":
                g = rest.split()
                res[i].setdefault("V", {})[int(g[0])] = g[1:]
            elif kind == "C": res[i]["C"] = rest.split()
            elif kind in ("R", "T", "W"): res[i][kind] = int(rest.split()[0]); res[i][kind + "msg"] = rest
            else: res[i]["E"] = rest
    return res

def run_harness(harness, cases, tag):
    cf = write_cases(cases, "%s_cases.txt" % tag)
    of = WORK / ("%s_impl.txt" % tag)
    if of.exists(): of.unlink()
    done = 0
    # the harness runs all cases in one process; if it dies, the remaining cases are run one at a time
    rc, out = V.run([harness, str(cf), str(of)], timeout=3000)
    res = read_out(of, len(cases))
    if rc != 0:
        first_missing = next((i for i, r in enumerate(res) if not r), len(cases))
        res[first_missing] = {"E": "harness process died (rc=%s) on this case" % rc}
        rest = cases[first_missing + 1:]
        if rest:
            sub = run_harness(harness, rest, tag + "_r")
            res[first_missing + 1:] = sub
    return res

def run_model(driver, cases, tag):
    cf = write_cases(cases, "%s_mcases.txt" % tag)
    of = WORK / ("%s_model.txt" % tag)
    if of.exists(): of.unlink()
    V.run([driver, str(cf), str(of)], timeout=3000)
    return read_out(of, len(cases))

def bits_agree(obs, exp):
    """exp may contain '?' (oracle abstains)"""
    if len(obs) != len(exp): return False
    return all(e == "?" or o == e for o, e in zip(obs, exp))

def fmt(v): return "%s%s:%s" % (v.ty, v.pol, v.bits or "-")

def compare_case(case, impl, model, use_model=True):
    """returns list of (what, node, vec, expected, observed)"""
    dis = []
    orc = py_case(case)
    # ---- rejection
    irej = impl.get("R")
    if "E" in impl or "T" in impl or "W" in impl:
        kind = "E" if "E" in impl else "T" if "T" in impl else "W"
        dis.append(("impl-error(%s)" % kind, impl.get(kind, -1) if kind != "E" else -1, -1, "a value or a design-check rejection", impl.get(kind + "msg", impl.get("E"))))
        return dis
    if isinstance(orc, tuple):
        if irej != orc[1]: dis.append(("oracle-vs-impl(rejection)", orc[1], -1, "rejected at node %d" % orc[1], "rejected at node %s" % irej if irej is not None else "accepted"))
    elif irej is not None:
        dis.append(("oracle-vs-impl(rejection)", irej, -1, "accepted", "rejected: " + impl.get("Rmsg", "")))
    if use_model:
        mrej = model.get("R")
        if "E" in model: dis.append(("model-error", -1, -1, "", model["E"]))
        elif mrej != irej: dis.append(("model-vs-impl(rejection)", mrej if mrej is not None else irej, -1, "model: " + ("rejected at node %d" % mrej if mrej is not None else "accepted"),
                                       "impl: " + ("rejected at node %d" % irej if irej is not None else "accepted")))
    if irej is not None or isinstance(orc, tuple): return dis
    # ---- values
    iv = impl.get("V", {})
    for v, ovals in enumerate(orc):
        obs = iv.get(v)
        if obs is None:
            dis.append(("impl-missing-vector", -1, v, "", "")); continue
        mv = model.get("V", {}).get(v) if use_model else None
        for j, o in enumerate(ovals):
            if j >= len(obs): dis.append(("impl-missing-node", j, v, fmt(o), "")); break
            ot = obs[j]
            head, _, ob = ot.partition(":"); ob = "" if ob == "-" else ob
            if head != o.ty + o.pol or not bits_agree(ob, o.bits):
                dis.append(("oracle-vs-impl", j, v, fmt(o), ot)); break
            if use_model:
                if mv is None or j >= len(mv): dis.append(("model-missing", j, v, "", ot)); break
                if mv[j] != ot: dis.append(("model-vs-impl", j, v, mv[j], ot)); break
    # ---- construction time: must refine the run-time value (C01's clause: post-processing may resolve the simulator's
    # pessimistic X - a mux with an out-of-range or undefined selector - but never contradicts a defined bit).  Where run
    # time has X and construction time a value, the value is checked against the oracle on both completions of the
    # literal X bits wherever those are defined.
    if "C" in impl and 0 in iv:
        comps = None
        for j, (c, s) in enumerate(zip(impl["C"], iv[0])):
            if c == s: continue
            ch, _, cb = c.partition(":"); sh, _, sb = s.partition(":")
            ok = ch == sh and len(cb) == len(sb) and all(y == "X" or x == y for x, y in zip(cb, sb))
            if ok:
                if comps is None: comps = [py_case(complete_case(case, f)) for f in "01"]
                for cv in comps:
                    if isinstance(cv, tuple) or j >= len(cv[0]): continue
                    ob = cv[0][j].bits
                    if len(ob) == len(cb) and any(y == "X" and o in "01" and x in "01" and x != o for x, y, o in zip(cb, sb, ob)): ok = False
            if not ok:
                dis.append(("construction-time-vs-simulation", j, 0, s, c)); break
    return dis

def complete_case(case, fill):
    """the case with every undefined literal bit replaced by `fill`"""
    out = []
    for node in case.split("|")[0].split(";"):
        t = node.split()
        if t[0] == "litb" and t[1] in "xX": t[1] = fill
        elif t[0] == "lits": t[4] = "".join(({"b": "1", "o": "7", "x": "f"}[t[3]] if fill == "1" else "0") if ch in "xX" else ch for ch in t[4])
        elif t[0] == "undef": t = ["lits", t[1], t[2], "b", (fill * int(t[2])) or "_"]
        out.append(" ".join(t))
    return " ; ".join(out)

def cone(case, j):
    """the sub-DAG feeding node j, renumbered (shrinks a failing case)"""
    nodes, vecs = parse_case(case)
    toks = [s.strip() for s in case.split("|")[0].split(";")]
    need = set(); st = [j]
    while st:
        k = st.pop()
        if k in need: continue
        need.add(k); st += nodes[k][2]
    keep = sorted(need); ren = {k: i for i, k in enumerate(keep)}
    out = []
    for k in keep:
        op, par, refs = nodes[k]
        out.append(" ".join([op] + list(par) + [str(ren[x]) for x in refs]))
    pin_idx = [k for k, n in enumerate(nodes) if n[0] == "pin"]
    kept_pins = [i for i, k in enumerate(pin_idx) if k in need]
    line = " ; ".join(out)
    if kept_pins and vecs and vecs[0]:
        line += " | " + " | ".join(" ".join(v[i] for i in kept_pins) for v in vecs)
    return line

def classify(case):
    """histogram keys: operator x width class of the result x signedness(type) for every operator node"""
    keys = []
    orc = py_case(case)
    nodes, _ = parse_case(case)
    vals = None if isinstance(orc, tuple) else orc[0]
    for j, (op, par, refs) in enumerate(nodes):
        if op == "pin": continue
        if vals is None:
            if j == orc[1]: keys.append("%s|rejected|-" % op)
            if j >= orc[1]: break
            continue
        o = vals[j]
        tys = "".join(vals[x].ty for x in refs) or o.ty
        keys.append("%s|%s|%s" % (op, width_class(o.w if refs == [] or o.ty != "B" else max(vals[x].w for x in refs)), tys))
    return keys

def corpus_cases():
    out = []
    d = V.VERIF / "corpus" / CID
    if d.exists():
        for f in sorted(d.glob("*.txt")):
            for line in f.read_text().splitlines():
                line = line.strip()
                if line and not line.startswith("#"): out.append(line)
    return out

def all_cases(tier, seed):
    g = Gen(seed)
    cases = corpus_cases(); ncorpus = len(cases)
    ex = exhaustive_cases(3 if tier == "quick" else 4)
    cases += ex
    n = 1500 if tier == "quick" else 60000
    cases += [g.case(nvec=4 if tier == "quick" else 5) for _ in range(n)]
    return cases, ncorpus, len(ex)

KNOWN_PROBE = "pin U 8 ; extred z 10 0 | 00000001"

def known_probe(harness, rep):
    """the recorded finding: ext(x, BitReduce) has an inverted design check"""
    known, _ = V.known_findings("C03")
    if not any(k.startswith("ext-bitreduce-inverted-check") for k in known): return None
    res = run_harness(harness, [KNOWN_PROBE, "pin U 8 ; extred z 2 0 | 00000001"], CID + "_known")
    if "W" in res[0] and "R" in res[1]:
        rep.known("ext-bitreduce-inverted-check zext(a8, -2_b) is rejected while zext(a8, -10_b) is accepted with width %s (case: %s)"
                  % (res[0]["Wmsg"].split()[-1], KNOWN_PROBE.split("|")[0].strip()))
        return True
    return False

def replay(path, harness, driver):
    obj = json.loads(Path(path).read_text())
    case = obj["case"]
    impl = run_harness(harness, [case], "replay")[0]
    model = run_model(driver, [case], "replay")[0] if driver else {}
    dis = compare_case(case, impl, model, use_model=bool(driver))
    print("case    :", case)
    orc = py_case(case)
    print("expected:", orc if isinstance(orc, tuple) else [[fmt(v) for v in vs] for vs in orc])
    print("model   :", model)
    print("observed:", impl)
    for d in dis: print("DISAGREE", d)
    print("REPLAY", "passes" if not dis else "STILL FAILS")
    return 0 if not dis else 1

def main():
    tier = V.tier()
    rep = V.Report(CID)
    V.build_gatery()
    harness = V.build_harness("C03_expr")
    res = V.check_properties(CID)
    driver = V.build_model(CID)
    if "--build-only" in sys.argv: sys.exit(0)
    if "--replay" in sys.argv: sys.exit(replay(sys.argv[sys.argv.index("--replay") + 1], harness, driver))
    rep.add_proof(res)

    cases, ncorpus, nex = all_cases(tier, V.seed())
    impl = run_harness(harness, cases, CID)
    model = run_model(driver, cases, CID) if driver else [dict() for _ in cases]

    problems = []
    if not res["ok"]: problems.append("proof obligations failed: %s\n%s" % (res["failed"], res["log"][-1500:]))
    if driver is None: problems.append("extracted model no longer builds: " + V.last_model_log[-800:])

    dis = []
    for i, c in enumerate(cases):
        for d in compare_case(c, impl[i], model[i], use_model=driver is not None):
            dis.append((i,) + d)

    # ---- search mode ---------------------------------------------------------
    if problems or dis:
        budget = 60 if tier == "quick" else 600
        t0 = time.time()
        concrete = [(cases[i], what, j, v, exp, obs) for (i, what, j, v, exp, obs) in dis if not what.startswith("model-")]
        g = Gen(V.seed() + 7919); searched = 0
        while not concrete and time.time() - t0 < budget:
            extra = [g.case() for _ in range(1500)]
            ei = run_harness(harness, extra, CID + "_search"); searched += len(extra)
            for c, im in zip(extra, ei):
                for d in compare_case(c, im, {}, use_model=False):
                    concrete.append((c,) + d); break
                if concrete: break
        rep.cov["search_mode"] = {"entered": True, "seconds": round(time.time() - t0, 1), "fresh_cases": searched}
        if concrete:
            seen = set()
            shrunk = []
            for (case, what, j, v, exp, obs) in concrete:
                small = cone(case, j) if j is not None and j >= 0 else case
                if v is not None and v >= 0 and "|" in small:                     # keep the failing vector only
                    parts = small.split("|"); small = parts[0] + "|" + parts[1 + v]
                shrunk.append((small, what, exp, obs))
            shrunk.sort(key=lambda t: len(t[0]))
            for (small, what, exp, obs) in shrunk:
                key = what + ":" + small.split("|")[0].split(";")[-1].split()[0]
                if key in seen or len(seen) >= 6: continue
                seen.add(key)
                rep.violation({"property": "C03", "package": CID, "case": small, "what": what, "expected": exp, "observed": obs,
                               "broke": problems + ["%d correspondence disagreements" % len(dis)],
                               "replay_cmd": "python3 checks/C03b.py --replay <this file>"})
        else:
            rep.violation({"property": "C03", "package": CID, "no_failing_input_found": True,
                           "broke": problems + ["%d correspondence disagreements; first: %r" % (len(dis), [(cases[d[0]],) + d[1:] for d in dis[:3]])],
                           "searched_s": round(time.time() - t0, 1)}, nofail=True)

    kp = known_probe(harness, rep)

    # ---- evidence --------------------------------------------------------------
    ct_more_defined = 0
    hist = collections.Counter(); distinct = set(); evals = 0; ct = 0; rejected = 0; abstained = 0; xvec = 0; nodes_cmp = 0
    opwidth = collections.Counter()
    for i, c in enumerate(cases):
        ks = classify(c)
        for k in ks: hist[k] += 1
        orc = py_case(c)
        if isinstance(orc, tuple): rejected += 1; evals += 1; distinct.add(c.split("|")[0]); continue
        nv = len(orc); evals += nv
        if "C" in impl[i]:
            ct += 1
            if impl[i]["C"] != impl[i].get("V", {}).get(0): ct_more_defined += 1
        for v, vals in enumerate(orc):
            nodes_cmp += len(vals)
            if any("?" in x.bits for x in vals): abstained += 1
            pins = [x for x, n in zip(vals, parse_case(c)[0]) if n[0] == "pin"]
            if any("X" in p.bits for p in pins): xvec += 1
            if any(ch in "01" for x in vals[-1:] for ch in x.bits) or any("X" in p.bits for p in pins):
                distinct.add(c.split("|")[0] + "|" + " ".join(p.bits or "-" for p in pins))
    ops = collections.Counter(k.split("|")[0] for k in hist.elements())
    rep.cov["evaluations"] = evals
    rep.cov["distinct_nontrivial"] = len(distinct)
    rep.cov["rule"] = ("cases = corpus + exhaustive operand pairs at widths <= %d for signed compare / signed multiply / policy-normalised + - * == / static shifts and rotates with every amount 0..2w+2 / abs "
                       "+ seeded random expression DAGs (1..6 operators over UInt/SInt/BVec/Bit pins and literals, widths 0..70 with emphasis on 0,1,2,7,8,31,32,33,63,64,65, shared sub-expressions, "
                       "operand values 0, all ones, 1, most negative, most positive, small, random; the last vector of every case has undefined bits). An evaluation = one (DAG, operand vector) "
                       "(or one rejected DAG); every node of the DAG is compared. distinct = distinct (DAG text, operand vector); non-trivial = the output has a defined bit or an operand has an undefined bit, or the DAG is a rejection test" % (3 if tier == "quick" else 4))
    samp = [i for i in sorted(set([0, ncorpus, ncorpus + nex, ncorpus + nex + 1, len(cases) - 1])) if i < len(cases)]
    rep.cov["samples"] = [{"case": cases[i], "impl": impl[i].get("V", impl[i]), "construction_time": impl[i].get("C"), "model": model[i].get("V", model[i])} for i in samp][:6]
    rep.cov["traces_validated_against_impl"] = evals
    rep.cov["nodes_compared"] = nodes_cmp
    rep.cov["construction_time_dags"] = ct
    rep.cov["construction_time_more_defined_than_simulation"] = ct_more_defined
    rep.cov["rejection_tests"] = rejected
    rep.cov["vectors_with_undefined_operand_bits"] = xvec
    rep.cov["vectors_with_oracle_abstention"] = abstained
    rep.cov["corpus_cases"] = ncorpus
    rep.cov["exhaustive_small_width_cases"] = nex
    rep.cov["disagreements"] = len(dis)
    rep.cov["known_finding_probe"] = kp
    rep.cov["cases_per_operator"] = dict(sorted(ops.items()))
    rep.cov["histogram_operator_widthclass_operandtypes"] = dict(sorted(hist.items()))
    rep.cov["exhaustive"] = False
    rep.assumptions = [
        "modelled, not verified: FrontendOpsDefs.v is a hand transcription of the frontend operator code (graph construction); agreement with the C++ is established by this sampled differential run only",
        "ConnectionType BOOL/BITVEC and Node_Signal forwarding nodes are not modelled (value-neutral)",
        "the python oracle abstains ('?') on undefined operands of composite operators (mixed-width signed multiply); those bits are compared model-vs-implementation only",
        "dynamic shift amounts wider than 64 bit, dynamic slices with more than 2^16 options, x[int] with index < -width, upper/lower(BitReduce) beyond the width and ext(x, BitReduce) are outside the generated language (the last one is a recorded known finding)",
        "construction-time evaluation must REFINE the un-postprocessed run-time simulation: equal on every bit the simulation defines; it may be more defined where the simulation is pessimistic (mux with out-of-range or undefined selector resolved by post-processing, e.g. `b = x[6]; mux(b, {x})` or `mux(s,{c,mux(s,{a,c})})` with s = 'x'); such values are checked against the oracle on both completions of the literal X bits; counted above",
        "construction-time evaluation of zero-width expressions is skipped by the harness (ConstructionTimeSimulationContext::getSignal crashes on them); every case contains one extra 1-bit pin because a design of zero-width signals only gives the simulator an empty state vector",
        "layer (a) of C03 (hlim node semantics, NodeSemDefs.v) is checks/C03.py",
    ]
    rep.finish()


if __name__ == "__main__":
    main()
