#!/usr/bin/env python3
"""C03 (node level): every hlim operator node evaluates in the reference simulator to its
integer / bit-vector definition modulo 2^w, for all operand values and widths.

Pipeline (AGENT_BRIEF.md):
  1. rebuild gatery + harness/C03_node.cpp from the current /repo tree,
  2. re-check coq/Gatery/Properties_C03.v,
  3. extract the model (coq/extract/Extract_C03.v) + ocaml/C03_driver.ml,
  4. correspondence: the same generated case file is evaluated by
       (a) the real nodes, simulateEvaluate called directly on a hand-laid state vector,
       (b) the real nodes inside the real ReferenceSimulator (hlim::evaluateStatically),
       (c) the extracted Coq `eval`, and
       (d) an independent python oracle (`py_eval`, the mathematical definition, below),
     and all four must agree line by line,
  5. on any failure: search for a concrete failing input (implementation vs python oracle).

This file is also imported by checks/C08.py (shared case generation and runners).
"""
import sys, os; sys.path.insert(0, os.path.join(os.path.dirname(os.path.abspath(__file__)), "..", "lib"))
import vcommon as V
import subprocess, json, random, time, itertools, collections
from pathlib import Path

CID = "C03"
WORK = V.BUILD / "work"

LOGIC_OPS = ["AND", "NAND", "OR", "NOR", "XOR", "EQ", "NOT"]
ARITH_OPS = ["ADD", "SUB", "MUL", "DIV", "REM"]
CMP_OPS = ["EQ", "NEQ", "LT", "GT", "LEQ", "GEQ"]
FWD_KINDS = ["SIGNAL", "ATTR", "CDC", "REGHINT", "BLOCKER", "EXPORT"]
EDGE_WIDTHS = [0, 1, 2, 3, 7, 8, 31, 32, 33, 63, 64, 65, 127, 128, 129, 191, 192, 193, 200]

# ----------------------------------------------------------------------------
# 4-state strings: MSB first, chars 0 1 X x ('x' = undefined with hidden VALUE bit 1)
# ----------------------------------------------------------------------------

def canon(s):
    return s.replace("x", "X")

def is_defined(s):
    return "X" not in s and "x" not in s

def val(s):
    return int(s, 2) if s else 0

def bits_of(v, w):
    return format(v % (1 << w), "0%db" % w) if w else ""

def bit(s, i):
    """bit i (LSB = 0) of an MSB-first string, canonical"""
    c = s[len(s) - 1 - i]
    return "X" if c in "Xx" else c

def from_lsb(lst):
    return "".join(reversed(lst))

# ----------------------------------------------------------------------------
# Independent oracle: the mathematical definition of every node kind, in python.
# Deliberately NOT derived from the Coq model: integers, strings, no word tricks.
# Operands: list of None (unconnected) or MSB-first strings.  Returns output string.
# ----------------------------------------------------------------------------

def k_and(a, b):
    if a == "0" or b == "0": return "0"
    if a == "1" and b == "1": return "1"
    return "X"

def k_or(a, b):
    if a == "1" or b == "1": return "1"
    if a == "0" and b == "0": return "0"
    return "X"

def k_not(a):
    return {"0": "1", "1": "0"}.get(a, "X")

def k_xor(a, b):
    if a == "X" or b == "X": return "X"
    return "1" if a != b else "0"

def py_eval(kind, par, ops):
    ops = [None if o is None else canon(o) for o in ops]
    if kind == "logic":
        op, w = par[0], int(par[1])
        a = ops[0] if len(ops) > 0 and ops[0] is not None else "X" * w
        b = ops[1] if len(ops) > 1 and ops[1] is not None else "X" * w
        out = []
        for i in range(w):
            x, y = bit(a, i), bit(b, i)
            r = {"AND": lambda: k_and(x, y), "NAND": lambda: k_not(k_and(x, y)), "OR": lambda: k_or(x, y),
                 "NOR": lambda: k_not(k_or(x, y)), "XOR": lambda: k_xor(x, y), "EQ": lambda: k_not(k_xor(x, y)),
                 "NOT": lambda: k_not(x)}[op]()
            out.append(r)
        return from_lsb(out)
    if kind == "arith":
        op, w = par[0], int(par[1])
        if any(o is None or not is_defined(o) for o in ops):
            return "X" * w
        vs = [val(o) for o in ops]
        r = vs[0] if vs else 0
        for v in vs[1:]:
            if op == "ADD": r += v
            elif op == "SUB": r -= v
            elif op == "MUL": r *= v
            elif v == 0: return "X" * w            # division by zero: undefined
            elif op == "DIV": r //= v
            else: r %= v
        return bits_of(r, w)
    if kind == "cmp":
        op = par[0]
        a, b = ops[0], ops[1]
        if a is None or b is None: return "X"
        if not (len(a) == 0 and len(b) == 0) and not (is_defined(a) and is_defined(b)): return "X"
        x, y = val(a), val(b)
        return "1" if {"EQ": x == y, "NEQ": x != y, "LT": x < y, "GT": x > y, "LEQ": x <= y, "GEQ": x >= y}[op] else "0"
    if kind == "shift":
        d, f, w = par[0], par[1], int(par[2])
        x, amt = ops[0], ops[1]
        if amt is None or not is_defined(amt): return "X" * w
        a = val(amt)
        xb = [bit(x, i) for i in range(w)]
        if f == "R":
            if w == 0: return ""
            a %= w
            if d == "L": out = [xb[(i - a) % w] for i in range(w)]
            else: out = [xb[(i + a) % w] for i in range(w)]
            return from_lsb(out)
        fill = {"Z": "0", "O": "1"}.get(f)
        if f == "L": fill = ("0" if w == 0 else (xb[0] if d == "L" else xb[w - 1]))
        out = []
        for i in range(w):
            j = i - a if d == "L" else i + a
            out.append(xb[j] if 0 <= j < w else fill)
        return from_lsb(out)
    if kind == "rewire":
        out = []
        for r in par:
            f = r.split(":")
            if f[0] == "I":
                idx, off, sw = int(f[1]), int(f[2]), int(f[3])
                src = ops[idx] if idx < len(ops) else None
                out += ["X"] * sw if src is None else [bit(src, off + i) for i in range(sw)]
            else:
                out += [{"Z": "0", "O": "1", "U": "X"}[f[0]]] * int(f[1])
        return from_lsb(out)
    if kind == "mux":
        n, w = int(par[0]), int(par[1])
        sel = ops[0]
        if sel is None: return "X" * w
        data = ops[1:1 + n]
        if is_defined(sel):
            s = val(sel)
            if s >= n or data[s] is None: return "X" * w
            return canon(data[s])
        out = []
        for i in range(w):
            bs = [("X" if dd is None else bit(dd, i)) for dd in data]
            out.append(bs[0] if bs and bs[0] != "X" and all(b == bs[0] for b in bs) else "X")
        return from_lsb(out)
    if kind == "prio":
        n, w = int(par[0]), int(par[1])
        for i in range(n):
            c, v = ops[1 + 2 * i], ops[2 + 2 * i]
            if c is None or bit(c, 0) == "X": return "X" * w
            if bit(c, 0) == "1": return canon(v) if v is not None else "X" * w
        return canon(ops[0]) if ops[0] is not None else "X" * w
    if kind == "const":
        return canon(par[0][1:])
    if kind == "fwd":
        w = int(par[1])
        return canon(ops[0]) if ops[0] is not None else "X" * w
    raise ValueError(kind)

def py_reg(par, opseq):
    """Node_Register: power-on, latch (E), advance (A), reset change (R) as described in the
    register's documentation: enable undefined poisons the output, sync reset acts on the
    clock edge, async reset immediately."""
    w, rst, ty, act = int(par[0]), par[1], par[2], par[3]
    rv = None if rst == "-" else canon(rst[1:])
    data, en, inrst, out = "X" * w, "X", False, "X" * w
    res = []
    for op in opseq:
        f = op.split(":")
        if f[0] == "P":
            data = out = (rv if rv is not None else "X" * w); inrst = False
        elif f[0] == "R":
            inrst = ((f[1] == "1") == (act == "H")) and rv is not None
            if inrst and ty == "A": data = out = rv
        elif f[0] == "E":
            data = "X" * w if f[1] == "-" else canon(f[1][1:])
            en = "1" if f[2] == "-" else canon(f[2][1:])
        elif f[0] == "A":
            if inrst:
                if ty == "S": data = out = rv
            elif en == "X": out = "X" * w
            elif en == "1": out = data
        res.append("b%s,b%s,%s,b%s" % (data, en, "1" if inrst else "0", out))
    return " ".join(res)

def py_line(case):
    kind, par, ops = parse_case(case)
    if kind == "reg":
        return py_reg(par, ops)
    return "b" + py_eval(kind, par, [None if o == "-" else o[1:] for o in ops])

def parse_case(line):
    head, _, tail = line.partition("|")
    h = head.split()
    return h[0], h[1:], tail.split()

# ----------------------------------------------------------------------------
# Case generation (every random choice comes from one PRNG seeded by V.seed())
# ----------------------------------------------------------------------------

class Gen:
    def __init__(self, seed):
        self.r = random.Random(seed)

    def width(self, lo=0, hi=200):
        r = self.r
        if r.random() < 0.6:
            c = [w for w in EDGE_WIDTHS if lo <= w <= hi]
            if c: return r.choice(c)
        return r.randint(lo, hi)

    def defined_bits(self, w):
        r = self.r
        if w == 0: return ""
        p = r.random()
        if p < 0.08: v = 0
        elif p < 0.16: v = (1 << w) - 1
        elif p < 0.22: v = 1
        elif p < 0.28: v = 1 << (w - 1)
        elif p < 0.34 and w > 64: v = (1 << 64) - 1 + r.randint(0, 2)          # around the word border
        elif p < 0.40: v = r.getrandbits(min(w, r.randint(1, 8)))             # small numbers
        else: v = r.getrandbits(w)
        return bits_of(v, w)

    def bits(self, w, mode=None):
        """mode: 'def' (no X), 'some' (a few / many X), 'all' (all X); None = random mix"""
        r = self.r
        if mode is None:
            mode = r.choices(["def", "some", "all"], [0.6, 0.3, 0.1])[0]
        s = list(self.defined_bits(w))
        if w == 0: return ""
        if mode == "all":
            s = [r.choice("Xx") for _ in range(w)]
        elif mode == "some":
            k = r.choice([1, 1, 2, 3, max(1, w // 3), max(1, w // 2)])
            for i in r.sample(range(w), min(k, w)):
                s[i] = r.choice("Xx")
        return "".join(s)

    def op(self, w, mode=None, unconn=0.03):
        if self.r.random() < unconn: return "-"
        return "b" + self.bits(w, mode)

    # -- one generator per kind ------------------------------------------------
    def logic(self):
        r = self.r
        op = r.choice(LOGIC_OPS); w = self.width()
        ops = [self.op(w)] if op == "NOT" else [self.op(w), self.op(w)]
        if all(o == "-" for o in ops): w = 0          # an undriven logic node has no width
        return "logic %s %d | %s" % (op, w, " ".join(ops))

    def arith(self):
        r = self.r
        op = r.choice(ARITH_OPS); n = r.choices([1, 2, 3, 4], [0.05, 0.75, 0.15, 0.05])[0]
        w = self.width()
        ws = [w if r.random() < 0.8 else r.randint(0, w) for _ in range(n)]
        mode = r.choices([None, "def"], [0.25, 0.75])[0]
        ops = [self.op(x, mode, unconn=0.02) for x in ws]
        p = r.random()
        if mode == "def" and n >= 2 and ops[0] != "-" and ops[1] != "-":
            if p < 0.12: ops[1] = "b" + "0" * ws[1]                                    # zero second operand (div by zero)
            elif p < 0.22 and ws[0] == ws[1]: ops[1] = ops[0]                              # equal operands
            elif p < 0.34 and ws[0] == ws[1] and val(ops[0][1:]) > val(ops[1][1:]):       # a < b : negative intermediate for SUB
                ops[0], ops[1] = ops[1], ops[0]
            elif p < 0.42 and ws[1] > 0: ops[1] = "b" + bits_of(r.randint(1, 3), ws[1])   # small divisor
        wo = max([len(o) - 1 for o in ops if o != "-"], default=0)
        return "arith %s %d | %s" % (op, wo, " ".join(ops))

    def cmp(self):
        r = self.r
        op = r.choice(CMP_OPS); wl = self.width(); wr = wl if r.random() < 0.85 else self.width()
        mode = r.choices([None, "def"], [0.25, 0.75])[0]
        a, b = self.op(wl, mode, 0.02), self.op(wr, mode, 0.02)
        p = r.random()
        if mode == "def" and a != "-" and b != "-" and wl == wr and wl > 0:
            if p < 0.3: b = a
            elif p < 0.5:                                  # differ in exactly one bit
                i = r.randrange(wl); s = list(a[1:]); s[i] = "1" if s[i] == "0" else "0"; b = "b" + "".join(s)
        return "cmp %s | %s %s" % (op, a, b)

    def shift(self):
        r = self.r
        d = r.choice("LR"); f = r.choice("ZOLR"); w = self.width()
        aw = r.choice([0, 1, 2, 3, 4, 5, 7, 8, 9, 16, 32, 63, 64, r.randint(0, 64)])
        x = "b" + self.bits(w, r.choices(["def", "some", "all"], [0.6, 0.35, 0.05])[0])
        p = r.random()
        if p < 0.04: amt = "-"
        elif p < 0.14: amt = "b" + self.bits(aw, "some")
        elif p < 0.17: amt = "b" + self.bits(aw, "all")
        else:
            cand = [0, 1, w - 1, w, w + 1, 2 * w, 2 * w + 1, (1 << aw) - 1, r.randint(0, max(0, 2 * w)), r.getrandbits(aw) if aw else 0]
            v = r.choice([c for c in cand if c >= 0])
            amt = "b" + bits_of(min(v, (1 << aw) - 1) if aw else 0, aw)
        return "shift %s %s %d | %s %s" % (d, f, w, x, amt)

    def rewire(self):
        r = self.r
        nin = r.randint(1, 3)
        ws = [self.width(0, 130) for _ in range(nin)]
        ops = [self.op(w, None, 0.06) for w in ws]
        target = r.choice([r.randint(0, 64), r.randint(0, 64), 64, r.randint(65, 200), self.width()])
        ranges, tot = [], 0
        while tot < target and len(ranges) < 12:
            left = target - tot
            p = r.random()
            if p < 0.6:
                idx = r.randrange(nin)
                if ws[idx] == 0: continue
                sw = r.randint(0 if r.random() < 0.1 else 1, min(left, ws[idx], 64 if target <= 64 else 200))
                off = r.randint(0, ws[idx] - sw)
                if sw == 1 and r.random() < 0.4:                       # repeated bit (sign extension pattern)
                    for _ in range(min(r.randint(2, 5), left)):
                        ranges.append("I:%d:%d:1" % (idx, off)); tot += 1
                    continue
                ranges.append("I:%d:%d:%d" % (idx, off, sw)); tot += sw
            else:
                sw = r.randint(0 if r.random() < 0.1 else 1, left)
                ranges.append("%s:%d" % (r.choice("ZOU"), sw)); tot += sw
        return "rewire %s | %s" % (" ".join(ranges), " ".join(ops))

    def mux(self):
        r = self.r
        n = r.choice([1, 2, 2, 2, 3, 3, 4, 5, 7, 8, 9]); w = self.width()
        sw = r.choice([0, 1, 1, 2, 2, 3, 4, 8, 64])
        base = self.bits(w, "def")
        data = []
        style = r.choice(["agree", "agree-but-one", "random", "agreeX"])
        for i in range(n):
            if r.random() < 0.04: data.append("-"); continue
            if style == "agree": s = base
            elif style == "agreeX":
                s = list(base)
                for j in r.sample(range(w), min(w, r.randint(0, 2))): s[j] = r.choice("Xx")
                s = "".join(s)
            elif style == "agree-but-one" and i == n - 1 and w > 0:
                s = list(base); j = r.randrange(w); s[j] = "1" if s[j] == "0" else "0"; s = "".join(s)
            elif style == "agree-but-one": s = base
            else: s = self.bits(w)
            data.append("b" + s)
        p = r.random()
        if p < 0.04: sel = "-"
        elif p < 0.30: sel = "b" + self.bits(sw, "some")
        elif p < 0.38: sel = "b" + self.bits(sw, "all")
        elif p < 0.55 and sw > 0 and (1 << sw) > n: sel = "b" + bits_of(r.randint(n, (1 << sw) - 1), sw)   # defined, out of range
        else: sel = "b" + bits_of(r.randrange(max(1, min(n, 1 << sw))), sw)
        if all(d == "-" for d in data): w = 0           # an undriven multiplexer has no width
        return "mux %d %d | %s %s" % (n, w, sel, " ".join(data))

    def prio(self):
        r = self.r
        n = r.choice([0, 1, 1, 2, 2, 3, 4, 6]); w = self.width()
        ops = [self.op(w, None, 0.0)]
        for i in range(n):
            p = r.random()
            c = "-" if p < 0.03 else "b" + ("X" if p < 0.12 else "x" if p < 0.15 else "1" if p < 0.4 else "0")
            ops += [c, self.op(w, None, 0.0)]
        return "prio %d %d | %s" % (n, w, " ".join(ops))

    def const(self):
        return "const b%s |" % self.bits(self.width())

    def fwd(self):
        r = self.r
        f = r.choice(FWD_KINDS); w = self.width()
        o = self.op(w, None, 0.1)
        if o == "-" and f in ("CDC", "BLOCKER"): w = 0      # these cannot be given a type without a driver
        return "fwd %s %d | %s" % (f, w, o)

    def reg(self):
        r = self.r
        w = self.width(0, 130)
        rst = "-" if r.random() < 0.3 else "b" + self.bits(w, r.choices(["def", "some"], [0.8, 0.2])[0])
        ops = ["P"] if r.random() < 0.8 else []
        for _ in range(r.randint(1, 10)):
            p = r.random()
            if p < 0.45:
                e = r.choices(["-", "b1", "b0", "bX", "bx"], [0.15, 0.4, 0.2, 0.15, 0.1])[0]
                ops.append("E:%s:%s" % (self.op(w, None, 0.05), e))
            elif p < 0.8: ops.append("A")
            else: ops.append("R:%d" % r.randint(0, 1))
        return "reg %d %s %s %s | %s" % (w, rst, r.choice("SA"), r.choice("HL"), " ".join(ops))

    KINDS = [("logic", 14), ("arith", 22), ("cmp", 14), ("shift", 16), ("rewire", 10), ("mux", 12),
             ("prio", 5), ("const", 1), ("fwd", 3), ("reg", 3)]

    def random_cases(self, n):
        names = [k for k, _ in self.KINDS]; weights = [w for _, w in self.KINDS]
        return [getattr(self, self.r.choices(names, weights)[0])() for _ in range(n)]


def exhaustive_cases(maxw, alphabet="01X"):
    """all operators x all operand values over `alphabet` for every width <= maxw"""
    out = []
    def words(w): return ("".join(t) for t in itertools.product(alphabet, repeat=w))
    for w in range(maxw + 1):
        for a in words(w):
            out.append("logic NOT %d | b%s" % (w, a))
            for b in words(w):
                for op in LOGIC_OPS[:-1]: out.append("logic %s %d | b%s b%s" % (op, w, a, b))
                for op in ARITH_OPS: out.append("arith %s %d | b%s b%s" % (op, w, a, b))
                for op in CMP_OPS: out.append("cmp %s | b%s b%s" % (op, a, b))
            for aw in range(min(maxw, 3) + 1):
                for amt in words(aw):
                    for d in "LR":
                        for f in "ZOLR": out.append("shift %s %s %d | b%s b%s" % (d, f, w, a, amt))
    for n in range(1, 4):
        for sw in range(0, 3):
            for w in range(0, min(maxw, 2) + 1):
                for sel in words(sw):
                    for data in itertools.product(list(words(w)), repeat=n):
                        out.append("mux %d %d | b%s %s" % (n, w, sel, " ".join("b" + d for d in data)))
    for n in range(0, 3):
        for conds in itertools.product(alphabet, repeat=n):
            for vals in itertools.product(list(words(1)), repeat=n + 1):
                ops = ["b" + vals[0]]
                for c, v in zip(conds, vals[1:]): ops += ["b" + c, "b" + v]
                out.append("prio %d 1 | %s" % (n, " ".join(ops)))
    return out

# ----------------------------------------------------------------------------
# Runners
# ----------------------------------------------------------------------------

def write_cases(cases, name):
    WORK.mkdir(parents=True, exist_ok=True)
    p = WORK / name
    p.write_text("\n".join(cases) + "\n")
    return p

def read_results(path, n):
    res = {}
    if Path(path).exists():
        for line in Path(path).read_text().splitlines():
            i, _, rest = line.partition(" ")
            res[int(i)] = rest
    return [res.get(i, "MISSING (process died)") for i in range(n)]

def run_harness(harness, mode, cases, tag):
    cf = write_cases(cases, "%s_%s_cases.txt" % (tag, mode))
    of = WORK / ("%s_%s_impl.txt" % (tag, mode))
    if of.exists(): of.unlink()
    rc, out = V.run([harness, mode, str(cf), str(of), str(V.seed())], timeout=3000)
    return read_results(of, len(cases)), rc

def run_model(driver, cases, tag):
    cf = write_cases(cases, "%s_model_cases.txt" % tag)
    of = WORK / ("%s_model.txt" % tag)
    if of.exists(): of.unlink()
    rc, out = V.run([driver, str(cf), str(of)], timeout=3000)
    return read_results(of, len(cases)), rc

def static_acceptable(case, impl_static):
    """(b) has documented holes: registers / export override are not evaluated statically; a cone that
    contains only zero-width signals makes the simulator's state vector empty and
    extractNonStraddling asserts (harmless corner, reported in the evidence)."""
    if impl_static == "SKIP": return "skip"
    if impl_static.startswith("EXC Assertion failed: start /"):
        kind, par, ops = parse_case(case)
        if all(o in ("-", "b") for o in ops): return "empty-state-assert"
    return None

def width_class(w):
    return "0" if w == 0 else "1" if w == 1 else "2-63" if w < 64 else "64" if w == 64 else "65-127" if w < 128 else "128" if w == 128 else "129+"

def classify(case, out):
    """(kind/op, width class, definedness class, branch) for the coverage histogram"""
    kind, par, ops = parse_case(case)
    operands = [o for o in ops if o.startswith("b") or o == "-"] if kind != "reg" else []
    if kind == "reg":
        wmax = int(par[0]); operands = []
        for o in ops:
            f = o.split(":")
            if f[0] == "E": operands += [f[1], f[2]]
    else:
        wmax = max([len(o) - 1 for o in operands if o != "-"] + [len(out.split()[0]) - 1 if out.startswith("b") else 0], default=0)
    anyx = any(("X" in o or "x" in o) for o in operands)
    allx = any(o != "-" and len(o) > 1 and all(c in "Xx" for c in o[1:]) for o in operands)
    dclass = ("unconn+" if "-" in operands else "") + ("allX" if allx else "someX" if anyx else "defined")
    name = kind + ("/" + par[0] if kind in ("logic", "arith", "cmp", "fwd") else "/" + par[0] + par[1] if kind == "shift" else "")
    branch = ""
    if kind == "arith":
        w = int(par[1]); branch = "fast64" if w <= 64 else "bigint"
        if dclass == "defined" and par[0] == "SUB" and len(ops) >= 2 and val(ops[0][1:]) < val(ops[1][1:]): branch += "/negative"
        if dclass == "defined" and par[0] in ("DIV", "REM") and any(val(o[1:]) == 0 for o in ops[1:]): branch += "/div0"
    elif kind == "cmp":
        ws = [len(o) - 1 for o in ops if o != "-"]
        branch = "zero-width" if ws and max(ws) == 0 else "fast64" if all(w <= 64 for w in ws) else "bigint"
        if dclass == "defined" and len(ws) == 2 and ops[0] == ops[1]: branch += "/equal"
    elif kind == "rewire":
        tot = sum(int(r.split(":")[-1]) for r in par); branch = "fast64" if tot <= 64 else "ranges"
    elif kind == "shift":
        w = int(par[2]); amt = ops[1]
        if amt == "-": branch = "amount-unconnected"
        elif not is_defined(amt): branch = "amount-undefined"
        else:
            a = val(amt[1:]); branch = "a=0" if a == 0 else "a<w" if a < w else "a=w" if a == w else "a>w"
            if len(amt) - 1 == 64: branch += "/aw64"
    elif kind == "mux":
        n = int(par[0]); sel = ops[0]
        if sel == "-": branch = "sel-unconnected"
        elif not is_defined(sel): branch = "sel-undefined/" + ("merged-some-defined" if any(c in "01" for c in out) else "merged-all-X")
        else: branch = "sel-in-range" if val(sel[1:]) < n else "sel-out-of-range"
    elif kind == "prio":
        conds = [ops[1 + 2 * i] for i in range(int(par[0]))]
        branch = "cond-X" if out[1:] and set(out[1:]) == {"X"} and any(c in ("bX", "bx", "-") for c in conds) else "choice" if "b1" in conds else "default"
    return name, width_class(wmax), dclass, branch

def nontrivial(case, out):
    """non-trivial: some operand has non-zero width AND (the result has a defined bit, or an
    operand bit is undefined / a port unconnected, i.e. a definedness rule is exercised)"""
    kind, par, ops = parse_case(case)
    txt = " ".join(ops)
    if not any(c in txt for c in "01Xx"): return False
    return any(c in out for c in "01") or any(c in txt for c in "Xx-")

# ----------------------------------------------------------------------------
# Corpus: regression cases (minimised earlier findings), run first
# ----------------------------------------------------------------------------

def corpus_cases(cid=CID):
    out = []
    d = V.VERIF / "corpus" / cid
    if d.exists():
        for f in sorted(d.glob("*.txt")):
            for line in f.read_text().splitlines():
                line = line.strip()
                if line and not line.startswith("#"): out.append(line)
    return out

def all_cases(tier, seed):
    g = Gen(seed)
    cases = corpus_cases()
    ncorpus = len(cases)
    if tier == "thorough":
        cases += exhaustive_cases(4, "01X")
        cases += g.random_cases(250000)
    else:
        cases += exhaustive_cases(2, "01X")
        cases += g.random_cases(3000)
    return cases, ncorpus

def compare(cases, impl, impl_static, model, oracle=True):
    """returns list of disagreements (index, what, expected, observed) and counters"""
    dis, cnt = [], collections.Counter()
    for i, c in enumerate(cases):
        m, d = model[i], impl[i]
        direct_skipped = (d == "SKIP" and c.startswith(("fwd SIGNAL", "fwd ATTR")))   # no simulateEvaluate: static mode only
        if direct_skipped:
            cnt["direct:skip(signal/attributes, compared in static mode)"] += 1
            d = impl_static[i] if impl_static is not None else m
        if d != m:
            dis.append((i, "model-vs-impl(direct simulateEvaluate)", m, d))
        if impl_static is not None:
            s = impl_static[i]
            acc = static_acceptable(c, s)
            if acc: cnt["static:" + acc] += 1
            else:
                cnt["static:compared"] += 1
                if s != m: dis.append((i, "model-vs-impl(ReferenceSimulator static evaluation)", m, s))
        if oracle:
            o = py_line(c)
            if o != d: dis.append((i, "python-oracle-vs-impl(direct)", o, d))
    return dis, cnt

def replay(path, harness, driver):
    obj = json.loads(Path(path).read_text())
    case = obj["case"]
    impl, _ = run_harness(harness, "direct", [case], "replay")
    model = run_model(driver, [case], "replay")[0] if driver else ["(model unavailable)"]
    exp = py_line(case)
    print("case    :", case)
    print("expected:", exp, "(python oracle)")
    print("model   :", model[0])
    print("observed:", impl[0])
    ok = impl[0] == exp and (not driver or model[0] == impl[0])
    print("REPLAY", "passes" if ok else "STILL FAILS")
    return 0 if ok else 1

def main():
    tier = V.tier()
    rep = V.Report(CID)
    V.build_gatery()
    harness = V.build_harness("C03_node")
    res = V.check_properties(CID)
    driver = V.build_model(CID)
    here = os.path.dirname(os.path.abspath(__file__))
    if "--build-only" in sys.argv:
        sys.exit(subprocess.run([sys.executable, os.path.join(here, "C03b.py"), "--build-only"]).returncode)
    if "--replay" in sys.argv:
        rp = sys.argv[sys.argv.index("--replay") + 1]
        if "/replays/C03b/" in os.path.abspath(rp):     # replays of the frontend-operator layer
            sys.exit(subprocess.run([sys.executable, os.path.join(here, "C03b.py"), "--replay", rp]).returncode)
        sys.exit(replay(rp, harness, driver))

    rep.add_proof(res)
    cases, ncorpus = all_cases(tier, V.seed())
    impl, rc_d = run_harness(harness, "direct", cases, CID)
    impl_static, rc_s = run_harness(harness, "static", cases, CID)
    model = run_model(driver, cases, CID)[0] if driver else None

    problems = []
    if not res["ok"]:
        problems.append("proof obligations failed: %s\n%s" % (res["failed"], res["log"][-1500:]))
    if driver is None:
        problems.append("extracted model no longer builds: " + V.last_model_log[-800:])
    dis, cnt = compare(cases, impl, impl_static, model if model else impl, oracle=True)
    if model is None:
        dis = [d for d in dis if d[1].startswith("python")]

    # ---- search mode --------------------------------------------------------
    if problems or dis:
        budget = 60 if tier == "quick" else 600
        t0 = time.time()
        found = [d for d in dis if d[1].startswith("python-oracle") or d[1].startswith("model-vs-impl")]
        # a model/impl disagreement is a concrete failing input iff the implementation also disagrees with the oracle
        concrete = []
        for (i, what, exp, obs) in found:
            o = py_line(cases[i])
            io = impl[i] if "static" not in what else impl_static[i]
            if o != io: concrete.append((i, what, o, io))
        concrete = [(cases[i], what, exp, obs) for (i, what, exp, obs) in concrete]
        g = Gen(V.seed() + 7919)
        searched_cases = 0
        while not concrete and time.time() - t0 < budget:
            extra = g.random_cases(4000)
            ei, _ = run_harness(harness, "direct", extra, CID + "_search")
            searched_cases += len(extra)
            for c, d in zip(extra, ei):
                if d == "SKIP": continue                    # signal / attributes nodes: static mode only
                o = py_line(c)
                if o != d:
                    concrete.append((c, "search: python-oracle-vs-impl(direct)", o, d)); break
        rep.cov["search_mode"] = {"entered": True, "seconds": round(time.time() - t0, 1), "fresh_cases": searched_cases}
        if concrete:
            # report the smallest failing cases (shortest line) per kind, at most 5
            concrete.sort(key=lambda t: len(t[0]))
            seen = set()
            for (case, what, exp, obs) in concrete:
                k = " ".join(case.split("|")[0].split()[:2])
                if k in seen or len(seen) >= 5: continue
                seen.add(k)
                rep.violation({"property": CID, "case": case, "expected": exp, "observed": obs, "what": what,
                               "broke": problems + ["%d correspondence lines differ" % len(dis)],
                               "replay_cmd": "python3 checks/C03.py --replay <this file>"})
        else:
            rep.violation({"property": CID, "no_failing_input_found": True,
                           "broke": problems + ["%d correspondence lines differ; first: %r" % (len(dis), [(cases[d[0]],) + d[1:] for d in dis[:3]])],
                           "searched_s": round(time.time() - t0, 1)}, nofail=True)

    # ---- evidence --------------------------------------------------------------
    hist = collections.Counter()
    distinct = set()
    for c, d in zip(cases, impl):
        hist["|".join(classify(c, d))] += 1
        if nontrivial(c, d): distinct.add(c)
    kinds = collections.Counter(h.split("|")[0].split("/")[0] for h in hist.elements())
    rep.cov["evaluations"] = len(cases)
    rep.cov["distinct_nontrivial"] = len(distinct)
    rep.cov["rule"] = ("cases = corpus + exhaustive small widths (all operators x all operand values over {0,1,X}) + seeded random "
                       "(widths 0..200 with emphasis on 0,1,63,64,65,127,128,129; operands none/some/all undefined; selector out of range; "
                       "shift amounts 0,w-1,w,w+1,huge). distinct = distinct case lines; non-trivial = some operand has non-zero width and "
                       "(the result has a defined bit or an operand has an undefined bit / unconnected port)")
    rep.cov["samples"] = [{"case": cases[i], "impl": impl[i], "model": (model[i] if model else None)}
                          for i in sorted(set([0, ncorpus, len(cases) // 2, len(cases) - 1] + list(range(ncorpus, min(len(cases), ncorpus + 3)))))
                          if i < len(cases)][:8]
    rep.cov["traces_validated_against_impl"] = len(cases) + cnt["static:compared"]
    rep.cov["static_mode"] = dict(cnt)
    rep.cov["corpus_cases"] = ncorpus
    rep.cov["disagreements"] = len(dis)
    rep.cov["cases_per_kind"] = dict(kinds)
    rep.cov["histogram_kind_width_definedness_branch"] = dict(sorted(hist.items()))
    rep.cov["exhaustive"] = False
    rep.assumptions = [
        "modelled, not verified: NodeSemDefs.v/NodeSemReg.v are hand transcriptions of simulateEvaluate etc.; agreement with the C++ is established by this sampled differential run only",
        "operands are given the widths the node expects (no reads beyond an operand); Node_Shift operand and Node_PriorityConditional value/default inputs are connected (the C++ does not check these)",
        "hidden VALUE-plane bits of undefined operand bits are randomised ('X'/'x') to expose dependence on them; the model has no hidden plane",
        "layer (b) of C03 (frontend operator lowering: FrontendOps*.v, Properties_C03b.v, checks/C03b.py) runs as the second half of this check; its coverage is under coverage.frontend_operator_layer",
        "static mode: registers and export-override nodes are not evaluated by evaluateStatically (skipped); cones consisting only of zero-width signals make extractNonStraddling assert on an empty state vector (counted as empty-state-assert)",
    ]
    # ---- layer (b): frontend operators (own script, own Coq file); its lines are re-issued under C03
    evdir = str(V.BUILD / "work" / "C03b_evidence")       # "C03b" is not a property id: its evidence is merged into evidence/C03.json
    p = subprocess.run([sys.executable, os.path.join(here, "C03b.py")], capture_output=True, text=True, errors="replace",
                       env=dict(os.environ, VERIF_EVIDENCE_DIR=evdir))
    evb = {}
    try:
        evb = json.load(open(os.path.join(evdir, "C03b.json")))
    except Exception as e:
        evb = {"error": "no evidence written by checks/C03b.py: %s" % e}
    covb = evb.get("coverage", {})
    rep.cov["frontend_operator_layer"] = {k: v for k, v in covb.items() if k not in ("trusted_base",)}
    rep.cov["obligations"] += covb.get("obligations", 0); rep.cov["discharged"] += covb.get("discharged", 0)
    rep.cov["evaluations"] += covb.get("evaluations", 0); rep.cov["distinct_nontrivial"] += covb.get("distinct_nontrivial", 0)
    rep.cov.setdefault("theorems", []).extend(covb.get("theorems", []))
    rep.assumptions += ["frontend layer: " + a for a in evb.get("assumptions", [])]
    seen_known = set(rep.known_hits)
    nb = 0
    for line in p.stdout.splitlines():
        if line.startswith("KNOWN-FINDING: property=C03b "):
            w = line[len("KNOWN-FINDING: property=C03b "):]
            if w not in seen_known: rep.known(w); seen_known.add(w)
        elif line.startswith("VIOLATION property=C03b replay="):
            rest = line[len("VIOLATION property=C03b replay="):].split()
            rep.violations.append((rest[0], "no-failing-input-found" in rest[1:])); nb += 1
    if p.returncode != 0 and nb == 0:
        rep.violation({"property": CID, "kind": "frontend-operator layer check failed to run", "rc": p.returncode,
                       "output": (p.stdout + p.stderr)[-2000:]}, nofail=True, tag="layerb")
    rep.finish()


if __name__ == "__main__":
    main()
