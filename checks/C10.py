#!/usr/bin/env python3
"""C10 — Results are a function of the design only, not of memory addresses or node order.

Two halves (claimed as level "other", see `explanation` in the evidence):

 (A) THEOREMS (coq/Gatery/Perm*.v, Properties_C10.v): for the modelled algorithms that iterate
     pointer-ordered containers (hlim::Conjunction predicates / intersect / removeTerms / build) the
     results are invariant under every permutation of the term order; the circuit semantics of
     NetDefs (node values, register states of all cycles, pin traces) is invariant under every
     topologically valid permutation of the node storage order.

 (B) RUNTIME DIFFERENTIAL on the real library (harness/C10_det.cpp) — a test:
     1. every design is constructed several times in ONE process with the global operator new
        perturbed between and during the constructions (relative address order of the nodes differs:
        measured and required), post-processed, exported (VHDL, test bench + test vectors, project
        files of the default/GHDL/Vivado/Quartus back ends, clocks/constraints files, source file
        lists), simulated with identical stimuli (pin traces, simulation-process reads, VCD):
        everything must be byte identical;
     2. the same in separate PROCESSES with ASLR on/off (setarch -R), MALLOC_PERTURB_, MALLOC_ARENA_MAX,
        tcache off, mmap threshold, different pre-allocation: sha256 of all outputs equal to process 0;
     3. Circuit::shuffleNodes() 1..k times before post-processing: pin traces identical to the
        unshuffled build; the exported text may differ, the BEHAVIOUR of the post-processed circuits
        is compared by the verified certificate checker (`driver cert strict`, theorem
        shuffle_certificate_sound = ProductCert.cert_sound_strict: identical pin values for ALL
        stimuli and ALL cycles), with the model tied to the real traces of both circuits.
"""
import sys, os, json, glob, hashlib, re, shutil, time, subprocess, concurrent.futures
sys.path.insert(0, os.path.join(os.path.dirname(os.path.abspath(__file__)), "..", "lib"))
import vcommon as V, circ, designgen as G

CID = "C10"
WORK = V.BUILD / "work" / CID
HANDS = ["h_dev_intel_m9k_m20k", "h_dev_intel_m20k_m9k_mlab", "h_dev_intel_fifo", "h_dev_intel_builtin", "h_dev_intel_agilex",
         "h_dev_xilinx_lutrams", "h_dev_xilinx_builtin", "h_dev_xilinx_fifo", "h_default0", "h_default1", "h_default2", "h_areafam0", "h_areafam1", "h_areafam2", "h_areafam3", "h_clockfam0", "h_clockfam1", "h_clockfam2", "h_clockfam3", "h_mem_rmw", "h_mem_condwrite", "h_mem_multi", "h_mem_wrorder", "h_retime_enable", "h_retime_intersect", "h_retime_hint", "h_negreg",
         "h_hier_partition", "h_hier_entity", "h_small_hier", "h_multiclock", "h_fifo", "h_dcfifo", "h_wide_logic"]
OMODES = ["single", "entity", "partition"]
TOOLS = ["default", "ghdl", "vivado", "quartus"]
KNOWN_PARTITION = "partition-file-order"
HEAP_MODES = ["unperturbed construction (plain malloc)",
              "operator new randomly perturbed during construction (second-of-two candidates, dummies) + holes punched before it",
              "address-sorted pools per 16 byte size class (<= 2 KB), refilled before construction / post-processing / export / simulation, handed out in DESCENDING address order",
              "address-sorted pools per 16 byte size class (<= 2 KB), refilled before every phase, handed out in ASCENDING address order",
              "address-sorted pools per 16 byte size class (<= 2 KB), refilled before every phase, handed out in random order"]
MAX_CERT_INPUT_BITS = 8
MAX_CERT_REG_BITS = 12
# files whose content is (only) a list of source files in the order of AST::getSourceFiles()
LISTFILES = ("files.txt", "files_sim.txt", "export/standalone.txt", "export/project.txt")


# ---------------------------------------------------------------------------------------------------
# Static audit of every StableCompare<> specialisation in the CURRENT source tree (a lint, fail closed):
# "a stable comparator never orders by address".  Inside the body of operator() a pointer - the argument
# itself when the key type is a pointer, or a member of the key struct declared with `*` - may only be
#   compared with nullptr, dereferenced as `->getId()`, or handed to another stable comparator
#   (a local `StableCompare<..> name;` object, `StableCompare<..>()(..)`, stableCompareWithId, stableCompareNodes);
# std::tie / std::less / <=> / casts to integers / taking the address of an argument are rejected outright.
# Anything the scanner cannot parse counts as a finding.
# ---------------------------------------------------------------------------------------------------
def _strip_comments(t):
    t = re.sub(r"/\*.*?\*/", " ", t, flags=re.S)
    return re.sub(r"//[^\n]*", " ", t)


def _balanced(t, i, op="{", cl="}"):
    """t[i] == op; returns index after the matching close"""
    depth = 0
    for j in range(i, len(t)):
        if t[j] == op:
            depth += 1
        elif t[j] == cl:
            depth -= 1
            if depth == 0:
                return j + 1
    return -1


def _pointer_members(alltext, typename):
    """names of the members of struct/class <typename> whose declaration contains '*'; None if not found"""
    base = typename.split("::")[-1].strip()
    m = re.search(r"\b(?:struct|class)\s+" + re.escape(base) + r"\b[^;{]*\{", alltext)
    if not m:
        return None
    end = _balanced(alltext, m.end() - 1)
    body = alltext[m.end():end - 1]
    # drop nested braces (inline functions)
    flat, depth = [], 0
    for ch in body:
        if ch == "{":
            depth += 1
        elif ch == "}":
            depth -= 1
        elif depth == 0:
            flat.append(ch)
    res = set()
    for decl in "".join(flat).split(";"):
        if "(" in decl:
            continue
        mm = re.search(r"\*\s*(?:const\s+)?(\w+)\s*(?:=[^,]*)?$", decl.strip())
        if mm and "*" in decl:
            res.add(mm.group(1))
    return res


def audit_comparators(repo):
    src = {}
    for root, _, files in os.walk(os.path.join(str(repo), "source", "gatery")):
        for f in files:
            if f.endswith((".h", ".cpp")):
                p = os.path.join(root, f)
                try:
                    src[p] = _strip_comments(open(p, errors="replace").read())
                except OSError:
                    pass
    alltext = "\n".join(src.values())
    found, findings = [], []
    helper_bodies = {}
    for p, t in src.items():
        for m in re.finditer(r"\b(stableCompareWithId|stableCompareNodes)\s*\(([^)]*)\)\s*\{", t):
            end = _balanced(t, m.end() - 1)
            helper_bodies[m.group(1)] = (p, m.group(2), t[m.end():end - 1])
    items = []   # (file, key type, arg names, body)
    for p, t in src.items():
        # in-class definitions:  struct [ns::]StableCompare<KEY> { bool operator()(A lhs, B rhs) const { ... } };
        for m in re.finditer(r"struct\s+(?:[\w:]*::)?StableCompare\s*<([^{;]*?)>\s*\{", t):
            end = _balanced(t, m.end() - 1)
            cls = t[m.end():end - 1]
            key = m.group(1).strip()
            om = re.search(r"operator\s*\(\s*\)\s*\(([^)]*)\)\s*const\s*(\{|;)", cls)
            if not om:
                if "operator" in cls:
                    findings.append(f"{p}: StableCompare<{key}>: operator() not parsed")
                continue      # the generic template without operator()
            if om.group(2) == "{":
                b_end = _balanced(cls, om.end() - 1)
                items.append((p, key, om.group(1), cls[om.end():b_end - 1]))
        # out-of-class definitions:  bool StableCompare<KEY>::operator()(...) const { ... }
        for m in re.finditer(r"StableCompare\s*<([^{;]*?)>\s*::\s*operator\s*\(\s*\)\s*\(([^)]*)\)\s*const\s*\{", t):
            end = _balanced(t, m.end() - 1)
            items.append((p, m.group(1).strip(), m.group(2), t[m.end():end - 1]))
    for name, (p, args, body) in helper_bodies.items():
        items.append((p, "Type*", args, body))
    for p, key, args, body in items:
        an = [a.strip().split()[-1].lstrip("&*") for a in args.split(",") if a.strip()]
        rel = os.path.relpath(p, str(repo))
        tag = f"{rel}: StableCompare<{key}>" if key != "Type*" else f"{rel}: helper"
        found.append(tag)
        if len(an) != 2:
            findings.append(f"{tag}: argument list not parsed"); continue
        key_is_ptr = key.rstrip().endswith("*") or key == "Type*" or "NodeType" in key
        pm = set()
        if not key_is_ptr:
            pm = _pointer_members(alltext, key)
            if pm is None:
                findings.append(f"{tag}: key type definition not found"); continue
        for bad in ("std::tie", "std::less", "std::greater", "<=>", "reinterpret_cast", "uintptr_t", "intptr_t", "std::hash", "(size_t)", "(uint64_t)"):
            if bad in body:
                findings.append(f"{tag}: uses {bad}")
        for a in an:
            if re.search(r"&\s*" + re.escape(a) + r"\b(?!\s*\.)", body):
                findings.append(f"{tag}: takes the address of argument {a}")
        stable_objs = set(re.findall(r"StableCompare\s*<[^;]*?>\s+(\w+)\s*;", body)) | {"stableCompareWithId", "stableCompareNodes"}
        # pointer-valued expressions of the arguments
        pexprs = ([(re.escape(a), a) for a in an] if key_is_ptr
                  else [(re.escape(a) + r"\s*\.\s*" + re.escape(mb), f"{a}.{mb}") for a in an for mb in pm])
        # remove the allowed contexts, then no pointer expression may remain
        chk = body
        for o in stable_objs:
            chk = re.sub(r"\b" + re.escape(o) + r"\s*\([^()]*\)", " OK ", chk)
        chk = re.sub(r"StableCompare\s*<[^;]*?>\s*\(\s*\)\s*\([^()]*\)", " OK ", chk)
        for pe, shown in pexprs:
            chk = re.sub(pe + r"\s*->\s*getId\s*\(\s*\)", " ID ", chk)
            chk = re.sub(pe + r"\s*[!=]=\s*nullptr", " NULLTEST ", chk)
            chk = re.sub(r"nullptr\s*[!=]=\s*" + pe, " NULLTEST ", chk)
            if re.search(r"(?<![\w.>])" + pe + r"(?![\w])(?!\s*\.)", chk):
                findings.append(f"{tag}: pointer `{shown}` used outside nullptr test / ->getId() / stable comparator")
    return dict(comparators=found, findings=sorted(set(findings)))


# ---------------------------------------------------------------------------------------------------
# HEURISTIC lint, second part: operator< / operator> / operator<=> defined INSIDE a struct or class of
# export/vhdl (they order what std::sort / std::set / std::map of the exporter iterate).  If the struct holds
# a union or raw pointer members, the operator may not touch them: a union that overlays indices with
# pointers (ConcurrentStatement::ref) read through an integer member orders by ADDRESS without any visible
# pointer comparison.  Allowed: `ptr->getId()`.  `= default` on such a struct is rejected.  Regex based,
# fail closed on what it cannot parse; it proves nothing, it only narrows where address order can enter.
# ---------------------------------------------------------------------------------------------------
def _unsafe_members(body):
    """(names of union variables + members of unions, names of raw pointer members) of a struct body"""
    unions, ptrs = set(), set()
    i = 0
    flat = []
    while i < len(body):
        m = re.compile(r"\bunion\b[^;{]*\{").search(body, i)
        if not m:
            flat.append(body[i:]); break
        flat.append(body[i:m.start()])
        end = _balanced(body, m.end() - 1)
        ub = body[m.end():end - 1]
        for decl in ub.split(";"):
            mm = re.search(r"(\w+)\s*(?:\[[^\]]*\])?\s*$", decl.strip())
            if mm and decl.strip():
                unions.add(mm.group(1))
        tail = re.match(r"\s*(\w+)?\s*;", body[end:])
        if tail and tail.group(1):
            unions.add(tail.group(1))
        i = end + (tail.end() if tail else 0)
    rest, depth, out = "".join(flat), 0, []
    for ch in rest:
        if ch == "{":
            depth += 1
        elif ch == "}":
            depth -= 1
        elif depth == 0:
            out.append(ch)
    for decl in "".join(out).split(";"):
        if "(" in decl or "*" not in decl:
            continue
        mm = re.search(r"\*\s*(?:const\s+)?(\w+)\s*(?:=[^,]*)?$", decl.strip())
        if mm:
            ptrs.add(mm.group(1))
    return unions, ptrs


def audit_ordering_operators(repo):
    base = os.path.join(str(repo), "source", "gatery", "export", "vhdl")
    found, findings = [], []
    for f in sorted(os.listdir(base)) if os.path.isdir(base) else []:
        if not f.endswith((".h", ".cpp")):
            continue
        t = _strip_comments(open(os.path.join(base, f), errors="replace").read())
        rel = os.path.join("source/gatery/export/vhdl", f)
        structs = []
        for m in re.finditer(r"\b(?:struct|class)\s+(\w+)\b[^;{()]*\{", t):
            end = _balanced(t, m.end() - 1)
            if end > 0:
                structs.append((m.group(1), m.end(), end - 1))
        for m in re.finditer(r"operator\s*(<=>|<|>)(?![<>=])\s*\(([^)]*)\)\s*(?:const)?\s*(?:noexcept)?\s*(\{|=\s*default|;)", t):
            enc = [s for s in structs if s[1] <= m.start() < s[2]]
            if not enc:
                continue          # free function / StableCompare specialisation: covered by the first audit
            name, b0, b1 = min(enc, key=lambda s: s[2] - s[1])
            tag = f"{rel}: {name}::operator{m.group(1)}"
            found.append(tag)
            unions, ptrs = _unsafe_members(t[b0:b1])
            if not unions and not ptrs:
                continue
            if m.group(3) == ";":
                findings.append(f"{tag}: defined out of line in a struct with union/pointer members (not scanned)"); continue
            if m.group(3).startswith("="):
                findings.append(f"{tag}: defaulted comparison of a struct with union/pointer members {sorted(unions | ptrs)}"); continue
            bend = _balanced(t, m.end() - 1)
            body = t[m.end():bend - 1]
            for u in sorted(unions):
                if re.search(r"\b" + re.escape(u) + r"\b", body):
                    findings.append(f"{tag}: reads union member `{u}` (a union overlaying indices and pointers orders by address)")
            for q in sorted(ptrs):
                chk = re.sub(r"\b" + re.escape(q) + r"\s*->\s*getId\s*\(\s*\)", " ID ", body)
                if re.search(r"\b" + re.escape(q) + r"\b", chk):
                    findings.append(f"{tag}: uses raw pointer member `{q}`")
            if re.search(r"\bthis\b\s*[<>]|&\s*rhs\b|&\s*other\b", body):
                findings.append(f"{tag}: compares object addresses")
    return dict(operators=found, findings=sorted(set(findings)))


# ---------------------------------------------------------------------------------------------------
# Which post-processing passes can see the node storage order, and does the permutation family contain a design on
# which a pass's result depends on its visiting order?  Three independent sources per pass:
#   iterates   HEURISTIC regex scan of the pass's definition in the current source: storage list (m_nodes /
#              getNodes()), id-ordered subnet / stable container, or neither
#   fired / differs   measured with the pass-boundary hook H1: id-free structural fingerprint of the circuit after
#              every pass in the unpermuted and in every permuted construction
#   shape      a hand maintained table of shapes known to make the pass's result depend on visiting order, with a
#              detector evaluated on this run's designs; passes without an entry are listed as "none identified"
# ---------------------------------------------------------------------------------------------------
ORDER_SENSITIVE_SHAPES = {
    "defaultValueResolution": ("two or more Node_Default nodes on one signal loop (several defaults on one never driven signal): the one "
                               "visited first sees the loop and wins", lambda ai: ai.get("defaults_chained", 0) >= 2),
}


def scan_pass_iteration(repo, names):
    src = {}
    for root, _, files in os.walk(os.path.join(str(repo), "source", "gatery", "hlim")):
        for f in files:
            if f.endswith(".cpp"):
                try:
                    src[os.path.join(root, f)] = _strip_comments(open(os.path.join(root, f), errors="replace").read())
                except OSError:
                    pass
    res = {}
    for n in names:
        kinds, where = set(), None
        for p, t in src.items():
            for m in re.finditer(r"\b(?:\w+::)?" + re.escape(n) + r"\s*\(([^;{}]*)\)\s*(?:const\s*)?\{", t):
                end = _balanced(t, m.end() - 1)
                body = t[m.end():end - 1]
                where = os.path.relpath(p, str(repo))
                if re.search(r"\bm_nodes\b|getNodes\s*\(\s*\)", body):
                    kinds.add("node storage list")
                if re.search(r":\s*\*?\s*\w*[sS]ubnet\b|\b[sS]ubnet\w*\.(?:begin|getNodes)|Subnet::all", body):
                    kinds.add("subnet (id ordered)")
                if re.search(r"anyOrder\s*\(", body):
                    kinds.add("anyOrder()")
        res[n] = dict(iterates=sorted(kinds) if kinds else (["neither / delegated"] if where else ["definition not found"]), defined_in=where)
    return res


def pass_table(out, designs, ref, shuffled, repo):
    def load(d, t):
        rows = []
        try:
            for line in open(out / t / d / "passes.txt"):
                p = line.split()
                if len(p) >= 4:
                    rows.append((p[1], p[2]))
        except OSError:
            pass
        return rows
    fired, differs, seen, order = {}, {}, {}, []
    ndes = 0
    for d in designs:
        r0 = load(d, ref)
        if not r0:
            continue
        ndes += 1
        f_here = set()
        for i, (nm, fp) in enumerate(r0):
            pn = nm.split(":", 1)[-1]
            if pn not in seen:
                seen[pn] = 0; order.append(pn)
            if i > 0 and fp != r0[i - 1][1]:
                f_here.add(pn)
        for pn in {nm.split(":", 1)[-1] for nm, _ in r0}:
            seen[pn] += 1
        for pn in f_here:
            fired[pn] = fired.get(pn, 0) + 1
        d_here = set()
        for s in shuffled:
            rs = load(d, s)
            for i, ((n0, f0), (n1, f1)) in enumerate(zip(r0, rs)):
                if n0 != n1:
                    break
                if f0 != f1:
                    d_here.add(n0.split(":", 1)[-1])     # first boundary at which the permuted construction differs structurally
                    break
        for pn in d_here:
            differs[pn] = differs.get(pn, 0) + 1
    names = [n for n in order if n not in ("begin", "end")]
    stat = scan_pass_iteration(repo, names)
    infos = {d: addr_info(out / ref / d) for d in designs}
    table = []
    for n in names:
        shp = ORDER_SENSITIVE_SHAPES.get(n)
        present = sum(1 for d in designs if shp[1](infos[d])) if shp else None
        table.append(dict(**{"pass": n}, iterates_static_heuristic=stat[n]["iterates"], defined_in=stat[n]["defined_in"], designs_run=seen.get(n, 0),
                          changed_the_circuit_in_designs=fired.get(n, 0),
                          first_structural_difference_between_permutations_in_designs=differs.get(n, 0),
                          known_order_sensitive_shape=shp[0] if shp else "none identified",
                          shape_present="n/a" if shp is None else ("yes" if present else "no"), shape_present_in_designs=present))
    return table, ndes


def have_setarch():
    try:
        return subprocess.run(["setarch", "-R", "true"], capture_output=True).returncode == 0
    except OSError:
        return False


def process_configs(tier, seed, setarch):
    """(tag, argv-prefix, env, pseed, prealloc_kb, description)"""
    R = ["setarch", "-R"] if setarch else []
    cfg = [
        ("p0", [], {}, seed, 0, "ASLR on, default malloc"),
        ("p1", R, {"MALLOC_PERTURB_": "165"}, seed + 101, 1500, ("ASLR off (setarch -R)" if setarch else "ASLR on (no setarch)") + ", MALLOC_PERTURB_=165, 1500 KB pre-allocation"),
        ("p2", [], {"MALLOC_ARENA_MAX": "1", "GLIBC_TUNABLES": "glibc.malloc.tcache_count=0"}, seed + 202, 37, "ASLR on, MALLOC_ARENA_MAX=1, tcache off, 37 KB pre-allocation"),
    ]
    if tier == "thorough":
        cfg += [
            ("p3", R, {"GLIBC_TUNABLES": "glibc.malloc.tcache_count=0"}, seed + 303, 0, "ASLR off, tcache off"),
            ("p4", [], {"MALLOC_MMAP_THRESHOLD_": "256", "MALLOC_PERTURB_": "77"}, seed + 404, 300, "ASLR on, every block >= 256 bytes mmapped, MALLOC_PERTURB_=77"),
            ("p5", R, {"MALLOC_TOP_PAD_": "1048576", "MALLOC_TRIM_THRESHOLD_": "4096"}, seed + 505, 9000, "ASLR off, top pad 1 MB, 9 MB pre-allocation"),
            ("p6", [], {"MALLOC_ARENA_MAX": "1", "MALLOC_PERTURB_": "1"}, seed + 606, 120, "ASLR on, arena max 1, MALLOC_PERTURB_=1"),
            ("p7", [], {}, seed + 707, 2, "ASLR on, default malloc, other perturbation seed"),
        ]
    return cfg


def gen_programs(seed, n):
    progs = []
    for i in range(n):
        lines, used = G.gen_design(seed * 500009 + i, f"g{i}")
        extra = [f"omode {OMODES[i % 3]}", f"tool {TOOLS[(i // 3) % 4]}"]
        body = lines[1:]
        if i % 4 == 3:   # a memory with a conditional write and a registered read
            body += ["in xma 2", "in xmd 3", "inb xmw", f"mem M{i} 4 3 zero", f"memwrite M{i} xma xmd xmw",
                     f"memread xmr M{i} xma", "reg xmq xmr", "out om xmq"]
        progs.append((f"g{i}", [lines[0]] + extra + body, used))
    for i in range(max(6, n // 4)):
        progs.append(gen_clockfam(seed, i))
    for i in range(max(6, n // 4)):
        progs.append(gen_areafam(seed, i))
    for i in range(max(8, n // 4)):
        progs.append(gen_defaultfam(seed, i))
    for i in range(max(9, n // 4)):
        progs.append(gen_devicefam(seed, i))
    return progs


def gen_clockfam(seed, i):
    """Design family for the exporter's grouping of registers into clocked processes: ONE area holds registers
    (with and without reset value) and sometimes a memory of several clocks that share clock pin and/or reset
    pin in random combinations (derived clocks: other reset name / polarity / kind / trigger edge; named derived
    clocks and root clocks: other clock pin).  Creation order of the clocks and order of use are unrelated."""
    import random
    r = random.Random(seed * 700001 + i)
    did = f"k{i}"
    L = [f"design {did}", f"omode {OMODES[i % 3]}", f"tool {TOOLS[(i // 3) % 4]}"]
    ncl = r.choice([2, 3, 3, 4, 5, 6])
    names = []
    kind = {"base": "sync"}       # effective reset kind / reset name per clock (children inherit what they do not set)
    rname = {"base": "reset"}
    for j in range(ncl):
        opts = []
        rn = r.choice(["rst_a", "rst_b", "rst_c"]) if r.random() < 0.75 else None
        if r.random() < 0.3:
            opts.append("active=low")
        k = r.random()
        rk = "async" if k < 0.2 else "none" if k < 0.3 else None
        if r.random() < 0.25:
            opts.append("trig=falling")
        root = r.random() < 0.15
        parent = "base" if root or not names else r.choice(["base"] * 3 + names)
        if not root and kind[parent] == "none" and rk in ("async",) and (rn is None or rn == rname[parent]):
            # KNOWN EXPORTER CRASH, not a C10 matter (reported): a clock WITH a reset derived from a clock with
            # ResetType::NONE and the same reset name inherits a null reset pin source -> SIGSEGV in allocateResetName
            rn = f"rst_k{j}"
        if rn:
            opts.append("rstname=" + rn)
        if rk:
            opts.append("rst=" + rk)
        if root:
            L.append(f"rclock c{j} {r.choice([50000000, 75000000, 100000000])} " + " ".join(opts))
            kind[f"c{j}"] = rk or "sync"; rname[f"c{j}"] = rn or "reset"
        else:
            if r.random() < 0.15:
                opts.append(f"name=pin_c{j}")
            L.append(f"dclock c{j} {parent} " + " ".join(opts))
            kind[f"c{j}"] = rk or kind[parent]; rname[f"c{j}"] = rn or rname[parent]
        names.append(f"c{j}")
    wrap = r.random() < 0.6
    if wrap:
        L.append("area fam entity")
    order = names[:]
    r.shuffle(order)
    if r.random() < 0.5:
        order.append(r.choice(names))     # a second, separate chain on one of the clocks
    for n, c in enumerate(order):
        w = r.choice([1, 2, 3])
        rv = "".join(r.choice("01") for _ in range(w))
        L += [f"clk {c}", f"in i{n} {w}"]
        L.append(f"reg q{n} i{n}" + (f" rst {rv}" if r.random() < 0.8 else ""))
        L.append(f"not n{n} q{n}")
        L.append(f"reg p{n} n{n}" + (f" rst {rv[::-1]}" if r.random() < 0.4 else ""))
        L.append(f"bin x{n} xor p{n} q{n}")
        res = f"x{n}"
        if r.random() < 0.25:
            L += [f"inb w{n}", f"slice a{n} x{n} 0 1", f"mem M{n} 2 {w} zero", f"memwrite M{n} a{n} p{n} w{n}", f"memread m{n} M{n} a{n}",
                  f"reg mq{n} m{n}", f"bin y{n} xor mq{n} x{n}"]
            res = f"y{n}"
        L += [f"out o{n} {res}", "endclk"]
    if wrap:
        L.append("endarea")
    L += ["in bx 2", "reg bq bx rst 01", "out bo bq"]
    return (did, L, ["clockfam"])


def gen_areafam(seed, i):
    """Design family for the exporter's ordering of concurrent statements: node groups of type AREA (`area NAME`
    without `entity`) that become VHDL BLOCKs because they contain a sub-entity (directly or in a nested area), as
    siblings of each other, of logic-only areas (processes) and of direct entity instantiations; in the root entity
    or inside a sub-entity."""
    import random
    r = random.Random(seed * 900001 + i)
    did = f"a{i}"
    L = [f"design {did}", f"omode {OMODES[i % 3]}", f"tool {TOOLS[(i // 3) % 4]}", "in x 2", "inb c"]
    inside = r.random() < 0.4
    if inside:
        L.append("area holder entity")
    nl = r.choice([2, 2, 3, 3, 4, 5])
    res = []
    ops = ["add", "xor", "and", "or", "sub"]
    for j in range(nl):
        kind = r.choice(["ent", "ent", "ent", "nested", "plain", "direct"]) if j >= 2 else r.choice(["ent", "ent", "nested"])
        n = f"lane_{chr(97 + j)}"
        if kind == "direct":
            L += [f"area {n}_direct entity", f"bin t{j} {r.choice(ops)} x x", f"reg r{j} t{j} rst {r.choice(['00', '01', '10', '11'])}", "endarea"]
            res.append(f"r{j}")
            continue
        L += [f"area {n}", f"bin t{j} {r.choice(ops)} x x"]
        if kind == "plain":
            L += [f"mux m{j} c t{j} x", f"reg r{j} m{j}"]
        else:
            if kind == "nested":
                L += [f"area {n}_inner", f"not q{j} t{j}"]
            src = f"q{j}" if kind == "nested" else f"t{j}"
            L += [f"area {n}_ent entity", f"mux m{j} c {src} x", f"reg r{j} m{j}" + (f" rst {r.choice(['00', '01', '10', '11'])}" if r.random() < 0.7 else ""), "endarea"]
            if kind == "nested":
                L.append("endarea")
        L += [f"bin u{j} {r.choice(ops)} r{j} x", "endarea"]
        res.append(f"u{j}")
    acc = res[0]
    for j, v in enumerate(res[1:]):
        L.append(f"bin s{j} {r.choice(ops)} {acc} {v}")
        acc = f"s{j}"
    if inside:
        L.append("endarea")
    L.append(f"out o {acc}")
    for j, v in enumerate(res[:2]):
        L.append(f"out p{j} {v}")
    return (did, L, ["areafam"])


def gen_defaultfam(seed, i):
    """Design family for default values (Node_Default): never driven bits / vectors with one, two or three defaults of
    different values on the SAME signal object, read before and after, overridden unconditionally (dead default) or
    conditionally, before or after the second default, default taken from another signal; in the root or in entities."""
    import random
    r = random.Random(seed * 1100003 + i)
    did = f"d{i}"
    L = [f"design {did}", f"omode {OMODES[i % 2]}", f"tool {TOOLS[(i // 2) % 4]}", "inb a", "inb b", "in x 2"]
    outs = 0
    for j in range(r.choice([2, 3, 3, 4, 5])):
        wrap = r.random() < 0.35
        if wrap:
            L.append(f"area e{j} entity")
        vec = r.random() < 0.3
        n = f"s{j}"
        vals = r.sample(["0", "1", "2", "3"], 3) if vec else [r.choice("01")]
        if not vec:
            vals += ["1" if vals[0] == "0" else "0", vals[0]]
        L.append(f"defu {n} 2 {vals[0]}" if vec else f"defb {n} {vals[0]}")
        if r.random() < 0.5:
            L.append(f"var {n}_early {n}")
        k = r.random()
        steps = []
        if k < 0.55:
            steps.append(f"defagain {n} {vals[1]}")               # two defaults on one signal
            if r.random() < 0.3:
                steps.append(f"defagain {n} {vals[2]}")           # three
        elif k < 0.7:
            steps.append(f"defsig {n} " + ("x" if vec else "b"))
            steps.append(f"defagain {n} {vals[1]}")
        cond = ["if a", f"set {n} " + ("x" if vec else "b"), "endif"]
        m = r.random()
        if m < 0.3:
            steps = steps[:1] + cond + steps[1:]                   # conditional override between the defaults
        elif m < 0.5:
            steps = steps + cond                                   # ... after them
        elif m < 0.6:
            steps = steps + [f"set {n} " + ("x" if vec else "b")]  # unconditional: every default is dead
        L += steps
        L.append(f"out o{outs} {n}"); outs += 1
        if any(l == f"var {n}_early {n}" for l in L):
            L.append(f"out o{outs} {n}_early"); outs += 1
        if not vec and r.random() < 0.5:
            L += [f"reg q{j} x en {n}", f"out o{outs} q{j}"]; outs += 1
        if wrap:
            L.append("endarea")
    return (did, L, ["defaultfam"])


INTEL_PRIMS = ["MLAB", "M9K", "M20K", "M20KStratix10Agilex"]
XILINX_PRIMS = ["Lutram7Series", "LutramUltrascale", "BlockramUltrascale"]
DEVICE_STRINGS = ["intel:device=10CX220YF780I5G", "intel:family=Arria_10", "intel:family=Agilex", "intel:family=MAX_10",
                  "xilinx:device=XCKU035-1FBVA900C", "xilinx:family=Zynq7", "xilinx:family=Virtex_Ultrascale"]


def gen_devicefam(seed, i):
    """Design family exported for a TARGET DEVICE: memories of random geometry / type / read latency that technology
    mapping has to place into the device's embedded memory primitives.  Two out of three devices are assembled through
    custom_composition from a random subset (>= 2) of the vendor's primitives in random order, so that primitives of
    EQUAL priority (same size category: M9K / M20K / M20KStratix10Agilex, Lutram7Series / LutramUltrascale) compete."""
    import random
    r = random.Random(seed * 1300021 + i)
    did = f"v{i}"
    if i % 3 == 2:
        dev = r.choice(DEVICE_STRINGS)
    else:
        prims = INTEL_PRIMS if r.random() < 0.6 else XILINX_PRIMS
        k = r.randint(2, len(prims))
        sel = r.sample(prims, k)
        dev = ("intel" if prims is INTEL_PRIMS else "xilinx") + ":custom=" + "+".join(sel)
    tool = "quartus" if dev.startswith("intel") else "vivado"
    L = [f"design {did}", f"omode {OMODES[i % 2]}", f"tool {r.choice([tool, tool, 'default'])}", f"device {dev}"]
    for j in range(r.choice([1, 1, 2, 3])):
        depth = r.choice([16, 32, 64, 256, 512, 512, 1024, 2048])
        width = r.choice([1, 4, 8, 8, 9, 16])
        typ = r.choice(["medium", "medium", "small", "large", "dontcare"]) if depth > 64 else r.choice(["small", "dontcare", "medium"])
        lat = r.choice([1, 1, 1, 2]) if typ != "small" else r.choice([0, 1])
        aw = max(1, (depth - 1).bit_length())
        L += [f"in wa{j} {aw}", f"in wd{j} {width}", f"inb we{j}", f"in ra{j} {aw}",
              f"mem M{j} {depth} {width} type={typ} lat={lat}" + (" zero" if r.random() < 0.3 else ""),
              f"memread r{j}_0 M{j} ra{j}", f"memwrite M{j} wa{j} wd{j} we{j}"]
        for q in range(lat):
            L.append(f"regb r{j}_{q + 1} r{j}_{q}")
        L.append(f"out o{j} r{j}_{lat}")
    return (did, L, ["devicefam"])


def sha(path):
    h = hashlib.sha256()
    with open(path, "rb") as f:
        data = f.read()
    if path.endswith(".vcd"):
        # the VCD header carries the wall clock ($date); everything else is compared
        data = re.sub(rb"\$date\n[^\n]*\n\$end", b"$date\n-\n$end", data, count=1)
    h.update(data)
    return h.hexdigest()


def tree(d):
    res = {}
    for root, _, files in os.walk(d):
        for f in files:
            p = os.path.join(root, f)
            rel = os.path.relpath(p, d)
            if rel in ("addr.txt", "passes.txt"):
                continue
            res[rel] = sha(p)
    return res


def first_diff(a, b):
    try:
        la = open(a, errors="replace").read().splitlines()
        lb = open(b, errors="replace").read().splitlines()
    except OSError as e:
        return dict(error=str(e))
    for i, (x, y) in enumerate(zip(la, lb)):
        if x != y:
            return dict(line=i + 1, a=x[:300], b=y[:300])
    return dict(line=min(len(la), len(lb)) + 1, a="<end of file>" if len(la) <= len(lb) else la[len(lb)][:300],
                b="<end of file>" if len(lb) <= len(la) else lb[len(la)][:300])


def only_line_order_differs(a, b):
    try:
        la = sorted(open(a).read().splitlines()); lb = sorted(open(b).read().splitlines())
    except OSError:
        return False
    return la == lb


def net_stats(netfile):
    """(nodes, register bits, number of distinct clocks that drive registers) of a dump"""
    n = r = 0
    clocks = set()
    try:
        for line in open(netfile):
            p = line.split()
            if len(p) > 7 and p[0] == "N" and p[2] == "reg":     # N <id> reg <w> <rsttype> <activehigh> <resetvalue> <clock id> | ...
                r += int(p[3]); clocks.add(p[7])
            if p and p[0] == "N":
                n += 1
    except (OSError, ValueError):
        return (10 ** 6, 10 ** 6, 10 ** 6)
    return (n, r, len(clocks))


def input_bits(tracefile):
    try:
        for line in open(tracefile):
            p = line.split()
            if p and p[0] == "pins":
                return sum(int(x.rsplit(":", 1)[1]) for x in p[2:p.index("out")])
    except (OSError, ValueError):
        pass
    return 10 ** 6


def addr_info(d):
    info = {}
    try:
        for line in open(os.path.join(d, "addr.txt")):
            p = line.split()
            if p[0] == "base":
                info["base"] = p[1]
            elif p[0] == "nodes":
                info["nodes"] = int(p[1]); info["inversions"] = int(p[3])
            elif p[0] == "order":
                info["order"] = p[1:]
            elif p[0] == "clocks":
                info["clocks"] = int(p[1]); info["clock_inversions"] = int(p[3])
            elif p[0] == "clockorder":
                info["clockorder"] = p[1:]
            elif p[0] == "embmems":
                info["embmems"] = int(p[1]); info["embrank"] = p[3:]
            elif p[0] == "defaults":
                info["defaults"] = int(p[1]); info["defaults_chained"] = int(p[3])
            elif p[0] == "vhdlentities":
                info["vhdlentities"] = int(p[1]); info["entityrank"] = p[3:]
            elif p[0] == "vhdlblocks":
                info["vhdlblocks"] = int(p[1]); info["maxblocks"] = int(p[3]); info["blockrank"] = p[5:]
            elif p[0] == "allocs":
                info["allocs"] = int(p[1]); info["swapped"] = int(p[3]); info["dummies"] = int(p[5])
    except OSError:
        pass
    return info


def run_process(harness, cfg, progfile, hands, out, nbuilds, shuffles, cycles, stimfile=None):
    tag, prefix, env, pseed, prealloc, desc = cfg
    cmd = prefix + [harness, "build", progfile, hands, str(out), tag, str(pseed), str(prealloc), str(nbuilds), str(shuffles), str(cycles)]
    if stimfile:
        cmd.append(stimfile)
    e = {"VERIF_SEED": str(V.seed())}
    e.update(env)
    rc, log = V.run(cmd, timeout=3000, env=e)
    crashed = None
    if rc < 0 or rc >= 128:
        # the LIBRARY crashed the process (signal): name the design, the caller decides
        b = [l.split()[1] for l in log.splitlines() if l.startswith("BEGIN ") and len(l.split()) > 1]
        crashed = b[-1] if b else "?"
    elif rc != 0:
        V.infra_error(f"C10_det failed rc={rc} in process {tag} ({desc}): {log[-1500:]}")
    return dict(tag=tag, cmd=" ".join(f"{k}={v}" for k, v in e.items()) + " " + " ".join(cmd), desc=desc, log=log[-300:], crashed=crashed, rc=rc)


def main():
    rep = V.Report(CID, "other")
    V.build_gatery()
    harness = V.build_harness("C10_det")
    driver = V.build_model("C01", name="C01")
    if "--build-only" in sys.argv:
        sys.exit(0)
    res = V.check_properties(CID)
    rep.add_proof(res)
    forb = V.scan_forbidden()
    audit = audit_comparators(V.REPO)
    audit2 = audit_ordering_operators(V.REPO)
    known, _ = V.known_findings(CID)
    known_partition = any(k.startswith(KNOWN_PARTITION) for k in known)
    thorough = rep.tier == "thorough"
    setarch = have_setarch()

    # ---- designs -------------------------------------------------------------------------------
    ngen = 600 if thorough else 32
    nbuilds = 5 if thorough else 4
    nshuffle = 5 if thorough else 3
    cycles = 24 if thorough else 12
    budget = 4000000 if thorough else 400000
    progs = gen_programs(rep.seed, ngen)
    for f in sorted(glob.glob(str(V.VERIF / "corpus" / CID / "*.prog"))):
        lines = [l for l in open(f).read().splitlines() if l.strip() and not l.startswith("#")]
        did = "c_" + os.path.splitext(os.path.basename(f))[0]
        progs.append((did, [f"design {did}"] + [l for l in lines if not l.startswith("design ")], ["corpus"]))
    hands = list(HANDS)
    replay = None
    if "--replay" in sys.argv:
        replay = json.loads(open(sys.argv[sys.argv.index("--replay") + 1]).read())
        if replay.get("program"):
            progs = [(replay["design"], replay["program"], ["replay"])]
            hands = []
        elif replay.get("design") in HANDS:
            progs = []
            hands = [replay["design"]]
    prog_of = {d: l for d, l, _ in progs}
    designs = [d for d, _, _ in progs] + hands

    out = WORK / "run"
    if out.exists():
        shutil.rmtree(out)
    out.mkdir(parents=True, exist_ok=True)
    progfile = str(out / "designs.txt")
    G.write_programs(progfile, [l for _, l, _ in progs])
    if not progs:
        progfile = "-"
    handarg = ",".join(hands) if hands else "-"

    # ---- (B1)+(B2)+(B3): run the processes (process 0 also does the shuffles) ----------------------
    cfgs = process_configs(rep.tier, rep.seed, setarch)
    t0 = time.time()
    crashing = []          # designs on which the library kills EVERY process (not a C10 matter; excluded and reported)
    crash_viol = None
    for attempt in range(8):
        with concurrent.futures.ThreadPoolExecutor(max_workers=min(len(cfgs), V.NCPU)) as ex:
            futs = [ex.submit(run_process, harness, c, progfile, handarg, out, nbuilds, nshuffle if c[0] == "p0" else 0, cycles) for c in cfgs]
            procs = [f.result() for f in futs]
        cr = {pr["crashed"] for pr in procs}
        if cr == {None}:
            break
        if len(cr) == 1 and "?" not in cr:
            d = cr.pop()
            crashing.append(d)
            progs = [x for x in progs if x[0] != d]
            hands = [h for h in hands if h != d]
            designs = [x for x in designs if x != d]
            shutil.rmtree(out); out.mkdir(parents=True)
            G.write_programs(str(out / "designs.txt"), [l for _, l, _ in progs])
            progfile = str(out / "designs.txt") if progs else "-"
            handarg = ",".join(hands) if hands else "-"
            continue
        # crashes in some processes only, or at different designs: that IS heap-layout dependence
        crash_viol = {pr["tag"]: dict(crashed_at=pr["crashed"], rc=pr["rc"], command=pr["cmd"]) for pr in procs}
        break
    else:
        V.infra_error(f"the library crashes the harness on too many designs: {crashing}")
    t_run = time.time() - t0
    if not designs:
        rep.cov["designs_excluded_library_crashes_every_process"] = crashing
        rep.cov["rule"] = "no design left to compare"
        rep.cov["samples"] = [dict(crashing=crashing)]
        rep.finish()
    if crash_viol:
        rep.violation(dict(property=CID, kind="the library crashes (signal) in some processes / at different designs only: the crash depends on the heap layout",
                           processes=crash_viol, programs={d: prog_of.get(d) for d in {v["crashed_at"] for v in crash_viol.values() if v["crashed_at"]}}), tag="crash")
        rep.finish()
    recipe = {}
    for c, pr in zip(cfgs, procs):
        for b in range(nbuilds):
            recipe[f"{c[0]}.{b}"] = dict(process=c[5], command=pr["cmd"], build_index=b,
                                        heap=HEAP_MODES[b] if b < len(HEAP_MODES) else HEAP_MODES[1])
        if c[0] == "p0":
            for s in range(1, nshuffle + 1):
                recipe[f"p0.s{s}"] = dict(process=c[5], command=pr["cmd"], heap=HEAP_MODES[s % 5],
                                          node_storage_order="Circuit::shuffleNodes()" if s == 1 else "reversed" if s == 2 else f"random permutation (variant {s})")

    ref = "p0.0"
    builds = [f"{c[0]}.{b}" for c in cfgs for b in range(nbuilds) if f"{c[0]}.{b}" != ref]
    shuffled = [f"p0.s{s}" for s in range(1, nshuffle + 1)]

    # ---- compare builds / processes byte for byte ------------------------------------------------
    viol = []          # (kind, design, treeA, treeB, file, firstdiff)
    known_hits = []
    files_compared = 0
    both_skipped = 0
    skipped = []
    netdump_differs = 0
    addr_changed = {b: 0 for b in builds}
    addr_total = 0
    ref_trees = {}
    inv_hist = []
    bases = {}
    for d in designs:
        rd = out / ref / d
        if (rd / "SKIP").exists() or not rd.exists():
            skipped.append((d, (rd / "SKIP").read_text()[:200] if (rd / "SKIP").exists() else "not built"))
        ref_trees[d] = tree(rd)
    for d in designs:
        rt = ref_trees[d]
        ra = addr_info(out / ref / d)
        addr_total += 1
        for b in builds:
            bd = out / b / d
            bt = tree(bd)
            ba = addr_info(bd)
            bases.setdefault(b.split(".")[0], ba.get("base"))
            if ra.get("order") and ba.get("order") and ra["order"] != ba["order"]:
                addr_changed[b] += 1
            if ba.get("nodes"):
                inv_hist.append(round(ba["inversions"] / max(1, ba["nodes"] * (ba["nodes"] - 1) // 2), 2))
            if ("SKIP" in rt) != ("SKIP" in bt):
                viol.append(("design could be constructed in one build only", d, ref, b, "SKIP", dict(a=rt.get("SKIP"), b=bt.get("SKIP"))))
                continue
            if "SKIP" in rt:
                # the export threw in both constructions: only the reason is compared, what had been written before is not a result
                both_skipped += 1
                if rt["SKIP"] != bt["SKIP"]:
                    viol.append(("construction fails with different errors", d, ref, b, "SKIP", first_diff(str(out / ref / d / "SKIP"), str(bd / "SKIP"))))
                continue
            names = sorted(set(rt) | set(bt))
            for n in names:
                files_compared += 1
                if n not in rt or n not in bt:
                    viol.append(("set of written files differs", d, ref, b, n, dict(a="present" if n in rt else "missing", b="present" if n in bt else "missing")))
                    continue
                if rt[n] == bt[n]:
                    continue
                if n == "post.net":
                    netdump_differs += 1      # node ids after post-processing: diagnostic, not claimed by the property
                    continue
                if n == "SKIP":
                    continue
                fd = first_diff(str(out / ref / d / n), str(bd / n))
                pm = [l.split()[1] for l in prog_of.get(d, []) if l.startswith("omode ")]
                is_part = (pm and pm[0] == "partition") or d in ("h_hier_partition", "h_small_hier")
                if is_part and n in LISTFILES and only_line_order_differs(str(out / ref / d / n), str(bd / n)):
                    known_hits.append((d, b, n, fd))
                    continue
                viol.append(("exported artefact / trace differs between two constructions of the same design", d, ref, b, n, fd))

    # ---- shuffles: traces identical; behaviour of the post-processed circuits certified ------------
    shuf_trace_cmp = 0
    shuf_export_equal = 0
    shuf_export_cmp = 0
    for d in designs:
        rt = ref_trees[d]
        for s in shuffled:
            sd = out / s / d
            stt = tree(sd)
            if ("SKIP" in rt) != ("SKIP" in stt):
                viol.append(("design could be constructed only with / only without shuffleNodes()", d, ref, s, "SKIP", dict(a=rt.get("SKIP"), b=stt.get("SKIP"))))
                continue
            for n in ("sim.trace", "tb.trace", "export/testbench.testvectors"):
                if n in rt or n in stt:
                    shuf_trace_cmp += 1
                    if rt.get(n) != stt.get(n):
                        viol.append(("simulation trace / recorded test vectors change when the node storage order is permuted before post-processing", d, ref, s, n,
                                     first_diff(str(out / ref / d / n), str(sd / n))))
            ex_r = {k: v for k, v in rt.items() if k.startswith("export/")}
            ex_s = {k: v for k, v in stt.items() if k.startswith("export/")}
            shuf_export_cmp += 1
            shuf_export_equal += ex_r == ex_s

    lines = []
    cert_pairs = {}
    cert_skipped_wide = 0
    model_skipped_multiclock = 0
    if driver:
        nets = WORK / "nets"
        if nets.exists():
            shutil.rmtree(nets)
        nets.mkdir(parents=True)
        cmds = []
        for d in designs:
            if "SKIP" in ref_trees[d] or not (out / ref / d / "post.net").exists():
                continue
            a = nets / f"{d}.ref.net"
            os.symlink(out / ref / d / "post.net", a)
            tr = out / ref / d / "sim.trace"
            cmds.append(f"tie {a} {tr}")
            ibits = input_bits(tr)
            nn, rbits, nclk = net_stats(out / ref / d / "post.net")
            if nclk > 1:
                model_skipped_multiclock += 1     # NetDefs models one clock: neither tie nor certificate
                cmds.pop()
                continue
            # cost of one model evaluation grows with nodes^2 (measured 1.7 ms at 190 nodes): bound the time per certificate
            bud = max(2000, min(budget, (4 if thorough else 1) * 400000000 // max(1, nn * nn)))
            for s in shuffled:
                if not (out / s / d / "post.net").exists():
                    continue
                b = nets / f"{d}.{s.split('.')[1]}.net"
                os.symlink(out / s / d / "post.net", b)
                cmds.append(f"tie {b} {out / s / d / 'sim.trace'}")
                if ibits <= MAX_CERT_INPUT_BITS and rbits <= MAX_CERT_REG_BITS:      # the checker enumerates all 3^bits input vectors
                    cmds.append(f"cert strict {a} {b} {tr} {bud}")
                    cert_pairs[(a.name, b.name)] = (d, s)
                else:
                    cert_skipped_wide += 1
        lines = circ.run_driver(driver, cmds, str(WORK / "batch"))
    tie_ok = sum(1 for l in lines if l.startswith("TIE") and " ok " in l)
    tie_bad = [l for l in lines if l.startswith("TIE") and "MISMATCH" in l]
    tie_uns = sum(1 for l in lines if l.startswith("TIE") and ("UNSUPPORTED" in l or "BADORDER" in l))
    cert = [l for l in lines if l.startswith("CERT")]
    cert_ok = [l for l in cert if " OK " in l]
    cert_fail = [l for l in cert if " FAIL " in l]
    cert_rej = [l for l in cert if " REJECTED " in l]
    cert_big = [l for l in cert if " TOOBIG " in l]
    cert_uns = [l for l in cert if " UNSUPPORTED " in l]
    errors = [l for l in lines if l.startswith("ERROR")]

    # confirm model counterexamples on the real simulator (same stimulus on unshuffled and shuffled build)
    confirmed, unconfirmed = [], []
    for l in cert_fail[:6]:
        p = l.split()
        d, s = cert_pairs.get((p[1], p[2]), (None, None))
        m = [x for x in p if x.startswith("stimulus=")]
        if d is None or not m:
            unconfirmed.append((l, d, s, None)); continue
        stim = m[0][len("stimulus="):]
        cex = WORK / "cex"
        if cex.exists():
            shutil.rmtree(cex)
        cex.mkdir(parents=True)
        open(cex / "stim.txt", "w").write(f"{d} {stim}\n")
        if d in prog_of:
            G.write_programs(cex / "designs.txt", [prog_of[d]]); pf, hl = str(cex / "designs.txt"), "-"
        else:
            pf, hl = "-", d
        k = int(s.split(".s")[1])
        run_process(harness, ("cx", [], {}, rep.seed, 0, "counterexample replay"), pf, hl, cex, 1, k, cycles, str(cex / "stim.txt"))
        ta = circ.parse_traces(cex / "cx.0" / d / "sim.trace")
        tb = circ.parse_traces(cex / f"cx.s{k}" / d / "sim.trace")
        key = f"{d} 3"
        real = None
        if key in ta and key in tb:
            for c, (x, y) in enumerate(zip(ta[key]["cycles"], tb[key]["cycles"])):
                if x[1] != y[1]:
                    real = dict(cycle=c, unshuffled=x[1], shuffled=y[1]); break
        (confirmed if real else unconfirmed).append((l, d, s, real, stim))

    # ---- the perturbation must have had an effect, otherwise the differential has no power ----------
    frac_changed = {b: addr_changed[b] / max(1, addr_total) for b in builds}
    # (the ascending-pool build .3 may legitimately coincide with a fresh plain heap; it is the mirror image of .2)
    weak = [b for b in builds if b.rsplit(".", 1)[1] in ("1", "2", "4") and frac_changed[b] < 0.8]
    # Clock objects: the descending and the ascending pool build must order them differently
    clk_designs = clk_mirrored = 0
    clk_orders = 0
    for d in designs:
        a2, a3 = addr_info(out / "p0.2" / d), addr_info(out / "p0.3" / d)
        if a2.get("clocks", 0) >= 3 and a3.get("clocks", 0) >= 3:
            clk_designs += 1
            clk_mirrored += a2["clockorder"] != a3["clockorder"]
            clk_orders += len({tuple(addr_info(out / b / d).get("clockorder", [])) for b in [ref] + builds})
    # objects the EXPORTER allocates during the export phase (vhdl::Block, vhdl::Entity)
    blk_designs = blk_mirrored = ent_designs = ent_mirrored = 0
    for d in designs:
        a2, a3 = addr_info(out / "p0.2" / d), addr_info(out / "p0.3" / d)
        if a2.get("maxblocks", 0) >= 2 and a3.get("maxblocks", 0) >= 2:
            blk_designs += 1
            blk_mirrored += a2["blockrank"] != a3["blockrank"]
        if a2.get("vhdlentities", 0) >= 2 and a3.get("vhdlentities", 0) >= 2:
            ent_designs += 1
            ent_mirrored += a2["entityrank"] != a3["entityrank"]
    # primitive descriptions of target devices (allocated when the device is configured)
    dev_designs = dev_varied = 0
    for d in designs:
        infos_d = [addr_info(out / b / d) for b in [ref] + builds]
        if infos_d[0].get("embmems", 0) >= 2:
            dev_designs += 1
            dev_varied += len({tuple(x.get("embrank", [])) for x in infos_d}) >= 2
    if dev_designs and dev_varied < 0.9 * dev_designs and not replay:
        V.infra_error(f"heap perturbation does not reorder the target device's primitive descriptions: only {dev_varied}/{dev_designs} designs saw two address orders")
    if ((blk_designs and blk_mirrored < 0.9 * blk_designs) or (ent_designs and ent_mirrored < 0.9 * ent_designs)) and not replay:
        V.infra_error(f"heap perturbation does not reorder the exporter's objects: descending/ascending pool builds differ in "
                      f"{blk_mirrored}/{blk_designs} designs (vhdl::Block) and {ent_mirrored}/{ent_designs} designs (vhdl::Entity)")
    if clk_designs and clk_mirrored < 0.9 * clk_designs and not replay:
        V.infra_error(f"heap perturbation does not reorder Clock objects: descending/ascending pool builds order the clocks differently in only {clk_mirrored}/{clk_designs} designs")
    if weak and not replay:
        V.infra_error(f"heap perturbation ineffective: relative node address order equals the reference build in too many designs for {weak}: {frac_changed}")

    # ---- evidence ---------------------------------------------------------------------------------
    nbuilt = len(designs) - len(skipped)
    rep.cov["evaluations"] = (len(builds) + 1 + len(shuffled)) * len(designs)
    rep.cov["distinct_nontrivial"] = sum(1 for d in designs if d not in [x for x, _ in skipped]
                                         and any(addr_info(out / b / d).get("order") != addr_info(out / ref / d).get("order") for b in builds))
    rep.cov["rule"] = ("evaluation = one complete construction (frontend -> postprocess -> export -> simulation) of one design; designs = seeded design "
                       "programs of lib/designgen.py (output mode single/entity/partition x back end default/GHDL/Vivado/Quartus, every 4th with a memory) "
                       "+ corpus + 12 hand written designs (memories with RMW hazard logic, retiming with enable conjunctions, negative registers, "
                       "partitions/entities, 3 clocks with CDC, scl FIFOs single/dual clock); a design counts as non-trivial when at least one compared "
                       "construction had a DIFFERENT relative address order of its nodes than the reference construction (measured from the node addresses)")
    rep.cov["explanation"] = (
        "Split claim. (A) proof: Properties_C10.v - order/permutation irrelevance theorems for the modelled Conjunction operations "
        "(isEqualTo/isNegationOf/isSubsetOf/cannotBothBeTrue/intersectTermsWith/removeTerms/build) and for the NetDefs circuit semantics "
        "(node values, register states, pin traces under any topologically valid node order); plus shuffle_certificate_sound for the shuffle experiment. "
        "(B) test, not proof: runtime differential on the real library - same design constructed repeatedly in one process under a perturbed global "
        "operator new, in several processes with ASLR on/off and different malloc tunables, and with Circuit::shuffleNodes() before post-processing; "
        "all exported files, file lists, test vectors, traces and VCDs compared byte for byte (shuffles: traces + verified behavioural certificate). "
        "Address independence of the un-modelled code (AST.cpp, Process.cpp, RegisterRetiming.cpp, MemoryDetector, simulator) rests on (B) only: "
        "a pointer-order dependence that none of the sampled heap layouts exposes is not detected.")
    rep.cov["programs"] = len(designs)
    rep.cov["designs_generated"] = len([1 for d in designs if d.startswith("g")])
    rep.cov["designs_generated_clock_family"] = len([1 for d in designs if d.startswith("k")])
    rep.cov["designs_generated_target_device_family"] = len([1 for d in designs if re.match(r"v\d+$", d)])
    rep.cov["designs_generated_default_value_family"] = len([1 for d in designs if re.match(r"d\d+$", d)])
    rep.cov["designs_with_two_or_more_defaults_on_one_signal"] = sum(1 for d in designs if addr_info(out / ref / d).get("defaults_chained", 0) >= 2)
    rep.cov["designs_generated_area_block_family"] = len([1 for d in designs if re.match(r"a\d+$", d)])
    rep.cov["designs_hand_written"] = len(hands)
    rep.cov["designs_corpus"] = len([1 for d in designs if d.startswith("c_")])
    rep.cov["designs_excluded_library_crashes_every_process"] = crashing
    rep.cov["designs_skipped_not_constructible"] = [f"{d}: {why}" for d, why in skipped][:10]
    rep.cov["processes"] = len(cfgs)
    rep.cov["process_configs"] = [c[5] for c in cfgs]
    rep.cov["aslr_control"] = "setarch -R available" if setarch else "setarch not available: ASLR left on in all processes"
    rep.cov["first_node_address_per_process"] = bases
    rep.cov["constructions_per_design_per_process"] = nbuilds
    rep.cov["constructions_compared_to_reference"] = len(builds) * nbuilt
    rep.cov["files_compared"] = files_compared
    rep.cov["shuffle_variants_per_design"] = len(shuffled)
    rep.cov["shuffle_traces_compared"] = shuf_trace_cmp
    rep.cov["shuffle_exports_textually_equal"] = f"{shuf_export_equal}/{shuf_export_cmp}"
    rep.cov["netlist_dump_differs_between_plain_builds"] = netdump_differs
    rep.cov["fraction_of_designs_with_changed_address_order"] = {b: round(v, 2) for b, v in frac_changed.items()}
    rep.cov["designs_with_3_or_more_clocks"] = clk_designs
    rep.cov["of_those_clock_address_order_differs_between_descending_and_ascending_build"] = clk_mirrored
    rep.cov["mean_distinct_clock_address_orders_per_such_design"] = round(clk_orders / clk_designs, 1) if clk_designs else 0
    rep.cov["designs_with_target_device_of_2_or_more_embedded_memory_primitives"] = dev_designs
    rep.cov["of_those_primitive_descriptions_seen_in_2_or_more_address_orders"] = dev_varied
    rep.cov["designs_with_2_or_more_vhdl_blocks_in_one_entity"] = blk_designs
    rep.cov["of_those_block_address_order_differs_between_descending_and_ascending_build"] = blk_mirrored
    rep.cov["designs_with_2_or_more_vhdl_entities"] = ent_designs
    rep.cov["of_those_entity_address_order_differs_between_descending_and_ascending_build"] = ent_mirrored
    rep.cov["address_inversion_fraction_min_median_max"] = (
        [min(inv_hist), sorted(inv_hist)[len(inv_hist) // 2], max(inv_hist)] if inv_hist else [])
    rep.cov["traces_validated_against_impl"] = tie_ok
    rep.cov["tie_unsupported"] = tie_uns
    rep.cov["tie_mismatch"] = len(tie_bad)
    rep.cov["certificates_accepted"] = len(cert_ok)
    rep.cov["certificates_failed"] = len(cert_fail)
    rep.cov["certificates_rejected_by_checker"] = len(cert_rej)
    rep.cov["certificates_too_big"] = len(cert_big)
    rep.cov["certificates_unsupported"] = len(cert_uns)
    rep.cov["certificates_not_attempted_more_than_8_input_or_12_register_bits"] = cert_skipped_wide
    rep.cov["designs_outside_single_clock_model_multiclock_or_memory"] = model_skipped_multiclock
    rep.cov["disagreements_checked"] = len(cert_fail)
    rep.cov["wall_s_harness_processes"] = round(t_run, 1)
    ptab, pdes = pass_table(out, designs, ref, shuffled, V.REPO)
    rep.cov["postprocessing_passes"] = dict(
        explanation="per pass of DefaultPostprocessing (names from the pass-boundary hook): whether its definition iterates the node storage list or an id-ordered "
                    "subnet (regex heuristic on the current source), in how many designs of the permutation family it changed the circuit, in how many designs the "
                    "FIRST structural difference (id-free fingerprint) between the unpermuted and a permuted construction appears right after it, and whether a "
                    "shape KNOWN to make its result depend on the visiting order is present. `none identified` + 0 differences = nothing in this check would notice "
                    "an order dependence of that pass unless it changes a trace.",
        designs_with_pass_records=pdes, permutations=["Circuit::shuffleNodes()", "reversed"] + [f"random {k}" for k in range(3, len(shuffled) + 1)],
        passes=ptab)
    rep.cov["passes_iterating_the_node_storage_list"] = [r["pass"] for r in ptab if "node storage list" in r["iterates_static_heuristic"]]
    rep.cov["passes_with_known_order_sensitive_shape_present"] = [r["pass"] for r in ptab if r["shape_present"] == "yes"]
    rep.cov["comparator_audit"] = dict(rule="static scan of every StableCompare<> specialisation (+ stableCompareWithId/stableCompareNodes) of the current tree: "
                                            "pointers only in nullptr tests, ->getId() or as arguments of another stable comparator; no std::tie/std::less/<=>/integer casts",
                                       definitions_scanned=audit["comparators"], findings=audit["findings"])
    rep.cov["ordering_operator_lint"] = dict(rule="HEURISTIC regex lint: in-class operator< / > / <=> of export/vhdl structs that hold a union or raw pointers may not read those "
                                                  "members (except ptr->getId()); defaulted or out-of-line comparisons of such structs are rejected",
                                             operators_scanned=audit2["operators"], findings=audit2["findings"])
    sd = designs[0]
    rep.cov["samples"] = [
        dict(design=sd, program=prog_of.get(sd), reference=recipe[ref], compared=recipe[builds[0]],
             files={k: v[:16] for k, v in sorted(ref_trees[sd].items())[:12]},
             address_order_reference=addr_info(out / ref / sd).get("order", [])[:24],
             address_order_compared=addr_info(out / builds[0] / sd).get("order", [])[:24]),
    ]
    if cert_ok:
        cd_, cs_ = cert_pairs.get(tuple(cert_ok[0].split()[1:3]), (None, None))
        rep.cov["samples"].append(dict(kind="shuffled vs unshuffled post-processed circuit, verified certificate", design=cd_, shuffled_build=cs_,
                                       program=prog_of.get(cd_), driver_output=cert_ok[0]))
    rep.assumptions += [
        "part (B) is a test: it samples heap layouts (perturbed operator new, glibc malloc tunables, ASLR) and node permutations (shuffleNodes is seeded "
        "with a default-constructed mt19937: k calls give k fixed permutations); it does not quantify over all of them",
        "part (A) is about hand transcriptions (ConjDefs.v, NetDefs.v) whose agreement with the C++ is established by the C14 / C01 correspondence runs, not here",
        "the VCD header's $date line is blanked before comparison; addr.txt (diagnostic address order) is not compared; post.net (node ids after post-processing) "
        "is compared but a difference there is only counted, the property does not claim stable internal ids",
        "behavioural comparison of shuffled builds is limited to designs the NetDefs model supports and whose product state space fits the budget "
        "(others are counted as unsupported / too big and rely on the trace comparison alone); the exported VHDL of a shuffled build is related to its "
        "circuit only through C02",
        "single threaded constructions; allocation through malloc/operator new only",
    ]

    broken = []
    if not res["ok"]:
        broken.append("proof obligations failed: " + ", ".join(res["failed"]) + " | " + res["log"][-600:])
    if forb:
        broken.append("forbidden constructs: " + "; ".join(forb[:5]))
    if audit["findings"]:
        broken.append("comparator audit (a StableCompare specialisation may order by address): " + "; ".join(audit["findings"][:6]))
    if audit2["findings"]:
        broken.append("ordering-operator lint (heuristic; export/vhdl struct with union/pointer members ordered through them): " + "; ".join(audit2["findings"][:6]))
    if len(audit["comparators"]) < 8:
        broken.append(f"comparator audit found only {len(audit['comparators'])} StableCompare definitions (scanner out of date?)")
    if driver is None:
        broken.append("extracted model (C01) no longer builds: " + V.last_model_log[-600:])
    if tie_bad:
        broken.append(f"{len(tie_bad)} tie mismatches (model vs real trace), first: {tie_bad[0][:300]}")
    if cert_rej:
        broken.append(f"{len(cert_rej)} certificates rejected by the verified checker, first: {cert_rej[0][:300]}")
    if errors:
        broken.append(f"driver errors: {errors[0][:300]}")
    if unconfirmed:
        broken.append(f"{len(unconfirmed)} model counterexamples (shuffled vs unshuffled) not reproduced on the real simulator, first: {unconfirmed[0][0][:300]}")

    def replay_obj(kind, d, a, b, f, fd):
        return dict(property=CID, kind=kind, design=d, program=prog_of.get(d), hand_written=d in HANDS,
                    buildA=a, recipeA=recipe.get(a), buildB=b, recipeB=recipe.get(b), artefact=f, first_difference=fd,
                    reproduce=f"python3 checks/C10.py --replay <this file>   (or run both recipe commands and diff {a}/{d}/{f} against {b}/{d}/{f})",
                    broken=broken)

    if known_hits:
        dk = sorted({d for d, _, _, _ in known_hits})
        if known_partition:
            rep.known(f"{KNOWN_PARTITION} source file list order differs between constructions for {len(dk)} partition-mode designs "
                      f"({', '.join(dk[:4])}): e.g. {known_hits[0][2]} line {known_hits[0][3].get('line')}: {known_hits[0][3].get('a')} / {known_hits[0][3].get('b')}")
        else:
            d, b, n, fd = known_hits[0]
            rep.violation(replay_obj("FILE_PER_PARTITION: order of the exported source file list / project script depends on heap addresses "
                                     "(AST.cpp entitiesByPartition keyed by Entity*)", d, ref, b, n, fd), tag="partition")
    rep.cov["known_finding_partition_file_order_hits"] = len(known_hits)
    seen = set()
    for kind, d, a, b, f, fd in viol:
        if (d, f) in seen or len(seen) >= 8:
            continue
        seen.add((d, f))
        rep.violation(replay_obj(kind, d, a, b, f, fd), tag="diff")
    for l, d, s, real, stim in confirmed:
        rep.violation(dict(replay_obj("shuffling the node storage order before post-processing changes the behaviour (product BFS counterexample, confirmed on the real simulator)",
                                      d, ref, s, "sim.trace", real), stimulus=stim, model=l), tag="cex")
    if broken and not rep.violations:
        rep.violation(dict(property=CID, kind="proof, tie or certificate broken; no failing input found", broken=broken), nofail=True, tag="tie")
    if thorough and not rep.violations and not rep.known_hits:
        shutil.rmtree(out, ignore_errors=True)     # several 100k small files; kept only when something has to be looked at
    rep.finish()


if __name__ == "__main__":
    main()
