#!/usr/bin/env python3
"""C07 -- memories behave as arrays with program-order port semantics at any latency.

Pipeline (AGENT_BRIEF.md): build gatery + harness from the current /repo tree, re-check the Coq
theorems (Properties_C07.v), extract the memory-port model + array specification (MemDefs.v), build
memories through the REAL frontend (harness/C07_mem.cpp) and diff, cycle by cycle,
  (a) the un-postprocessed circuit against the extracted simulator model -- exactly, 4-state,
  (b) the circuit after design.postprocess() (generic / Intel / Xilinx devices, memory types,
      latencies 0..3, power-on and reset initialisation) against the extracted array specification
      with the declared read latency ("X" in the specification = anything allowed),
  (c) every trace against an independent python dict-based array oracle,
  (d) structurally: after postprocessing no two write ports of an ordered memory may be enabled on the
      same address in the same cycle (hardware has no commit order).
Any broken obligation / tie difference -> search mode: more random designs against the python oracle.
"""
import sys, os
sys.path.insert(0, os.path.join(os.path.dirname(os.path.abspath(__file__)), "..", "lib"))
import vcommon as V
import json, time, collections, hashlib, glob, random, re, resource, subprocess
from concurrent.futures import ThreadPoolExecutor

CID = "C07"
WORK = V.BUILD / "work" / CID
INTEL = ["arria10", "cyclone10", "agilex", "max10"]
XILINX = ["zynq7", "kintexus", "virtexus"]

# ----------------------------------------------------------------------------- known findings
# token -> predicate(case kv, kind, text) ; kind in {"reject", "collision"}
KNOWN_TOKENS = {
    "rom-initzero-no-write-port": lambda kv, kind, t: kind == "reject" and "No suitable write port" in t,
    "noconflicts-two-dependent-write-ports": lambda kv, kind, t: kind == "reject" and "isOrderedBefore" in t,
    "rmw-ringbuffer-too-many-read-ports": lambda kv, kind, t: kind == "reject" and "too many read ports" in t and kv.get("type") != "S",
    "stratix10-device-string": lambda kv, kind, t: kind == "reject" and kv.get("dev") == "stratix10" and "lexical cast" in t,
    "three-write-ports-unresolved-collision": lambda kv, kind, t: kind == "collision" and n_writes(kv) >= 3,
    # kind "mismatch": t = the oracle tolerance under which the mismatch disappears (see compare())
    "depth-cascade-select-ignores-read-enable": lambda kv, kind, t: kind == "mismatch" and "en_stall" in t,
    "depth-cascade-aliases-out-of-range-write": lambda kv, kind, t: kind == "mismatch" and "oor_alias" in t,
    # write enable = pin AND (condition on read data), write data = pin, read latency >= 1
    "pin-and-readcond-enable-write-one-cycle-early": lambda kv, kind, t: kind == "mismatch" and "pin_and_cond" in t,
    # addResetLogic + read latency >= 1 + fix-up logic: the initialisation network stays connected, simulator reports a cycle
    "addresetlogic-latency-fixup-cyclic": lambda kv, kind, t: (
        kind == "reject" and kv.get("init") == "rlogic" and kv.get("pp") == "1" and kv.get("lat") not in ("0",)
        and "Cyclic dependency" in t and rlogic_fixup_shape(kv)),
}


def rlogic_fixup_shape(kv):
    """memory fix-up logic is needed: a write port declared before a read port, or read-modify-write data"""
    ps = parse_ports(kv.get("ports", ""))
    seen_write = False
    for p in ps:
        if p["kind"] in "WAV":
            seen_write = True
            if p["src"] is not None:
                return True
        elif seen_write:
            return True
    return False


def has_pin_and_cond(kv):
    return any(p["cmode"] == "a" and p["src"] is None for p in parse_ports(kv.get("ports", "")))


def parse_ports(s):
    ps = []
    for tok in s.split(","):
        if not tok:
            continue
        rest = tok[1:].split(":")
        p = dict(kind=tok[0], a=int(rest[0]), src=None, op="p")
        if len(rest) > 1 and rest[1].startswith("r"):
            p["src"] = int(rest[1][1:-1]); p["op"] = rest[1][-1]
        p["cmode"] = "-"
        if len(rest) > 2 and len(rest[2]) >= 4:      # data dependent write enable  <mode><k><rel><x>
            c = rest[2]
            p.update(cmode=c[0], csrc=int(c[1]), crel=c[2], cdata=(c[3] == "d"), cconst=(0 if c[3] == "d" else int(c[3:])))
        ps.append(p)
    return ps


def n_writes(kv):
    return sum(1 for p in parse_ports(kv.get("ports", "")) if p["kind"] in "WAV")


def n_reads(kv):
    return sum(1 for p in parse_ports(kv.get("ports", "")) if p["kind"] in "REN")


def design_rule(kv, text):
    """legitimate refusals of a configuration (documented design rules of the library)"""
    if "too many read ports" in text and kv.get("type") == "S" and n_reads(kv) > 1:
        return "lutram-one-read-port"
    if "too many write ports" in text and kv.get("type") == "S" and n_writes(kv) > 1:
        return "lutram-one-write-port"
    if "missing it's data register" in text and kv.get("type") == "M":
        return "bram-needs-read-register"
    if "No suitable memory configuration" in text:
        return "no-such-memory-on-device"
    if "retiming error" in text and any(p["kind"] == "N" for p in parse_ports(kv.get("ports", ""))) and ":r" in kv.get("ports", ""):
        return "read-enable-registers-with-rmw-not-retimable"
    return None


# ----------------------------------------------------------------------------- case generation
def gen_cases(rng, n_a, n_b, n_dev, tag):
    cases = []

    def ports_for(maxw, raw_ok, rmw_ok):
        nr = rng.randint(1, 3); nw = rng.randint(0, maxw) if rng.random() < 0.85 else maxw
        nAddr = rng.randint(1, 3)
        kinds = ["R"] * nr + ["W"] * nw
        rng.shuffle(kinds)
        if rng.random() < 0.3 and nw:           # classic: read declared first
            kinds.sort(key=lambda k: k != "R")
        ports = []; nreads = 0
        for k in kinds:
            a = rng.randrange(nAddr)
            if k == "R":
                ports.append(("E" if raw_ok and rng.random() < 0.2 else "R") + str(a)); nreads += 1
            else:
                r = rng.random()
                kk = "A" if r < 0.12 else ("V" if raw_ok and r < 0.3 else "W")
                if rmw_ok and nreads and rng.random() < 0.45:
                    ports.append(f"{kk}{a}:r{rng.randrange(nreads)}{rng.choice('+^')}")
                else:
                    ports.append(f"{kk}{a}:p")
        return ports

    def line(i, **kw):
        return " ".join(["M", f"id={tag}{i}"] + [f"{k}={v}" for k, v in kw.items()])

    stims = ["mix", "mix", "hot", "b2b", "oor", "rand", "same", "scan"]
    # (a) un-postprocessed circuits: exact model tie, including undefined bits
    for i in range(n_a):
        depth = rng.choice([2, 3, 4, 5, 6, 7, 8, 9]); width = rng.randint(1, 5)
        ports = ports_for(2, True, True)
        cases.append(line(f"a{i}", depth=depth, width=width, type="D", lat=rng.choice([0, 0, 1, 2, 3]), nc=int(rng.random() < 0.15),
                          init=rng.choice(["none", "zero", "fill", "part"]), iseed=rng.randrange(1000), clk=rng.choice(["PS", "PN", "-S", "PSL", "-SLA", "PAH"]),
                          dev="none", pp=0, exact=int(rng.random() < 0.5), ports=",".join(ports), ncyc=rng.choice([24, 40, 60]),
                          stim=rng.choice(stims), seed=rng.randrange(10 ** 6), xs=int(rng.random() < 0.5)))
    # (b) post-processed circuits
    for i in range(n_b + n_dev):
        dev = "none" if i < n_b else rng.choice(INTEL + XILINX)
        depth = rng.choice([2, 3, 4, 5, 6, 7, 8, 9]); width = rng.randint(1, 5)
        typ = rng.choice("DDSM") if dev == "none" else rng.choice("DSMM")
        lat = rng.choice([0, 1, 1, 2, 3, -1])
        nc = int(rng.random() < 0.12)
        ports = ports_for(2, False, True)
        nw = sum(1 for p in ports if p[0] in "WA"); nr = len(ports) - nw
        # keep inside the library's documented design rules (a few escape on purpose and are counted as rejected)
        if rng.random() < 0.95:
            if typ == "S" and (nr > 1 or nw > 1):
                typ = "D"
            if typ == "M" and lat == 0:
                lat = 1
        init = rng.choice(["none", "zero", "fill", "part"])
        if nw == 0:
            init = rng.choice(["fill", "part"])         # a ROM without contents / initZero ROM: see known findings
        # avoid the recorded known findings in generated designs (each has its corpus case)
        rmw = [p for p in ports if ":r" in p]
        if nc and rmw and nw >= 2 and lat != 0:
            nc = 0
        if nr >= 2 and rmw and lat in (3, -1):
            lat = 2
        cases.append(line(f"b{i}", depth=depth, width=width, type=typ, lat=lat, nc=nc, init=init, iseed=rng.randrange(1000),
                          clk=rng.choice(["PS", "PN", "-S", "-N", "PSL", "-SL", "-ALA", "PSHA", "-SLS3"]), dev=dev, pp=1, exact=0, ports=",".join(ports),
                          ncyc=rng.choice([30, 50, 70]), stim=rng.choice(stims), seed=rng.randrange(10 ** 6), xs=0))
    return cases


LARGE_TABLE = {
    # around the capacities of the primitives: RAMB36E2 32Kx1 .. 512x72 / RAMB18E2, LUTRAM 64/256 deep;
    # M20K 2Kx10 .. 512x40, MLAB 32/64 deep; generic
    "xil_bram": [(65536, 8), (40000, 4), (33000, 2), (5000, 9), (4100, 18), (2048, 40), (9000, 20), (1025, 36), (600, 50),
                 (20000, 1), (16385, 3), (3000, 37), (8193, 5), (1024, 18)],
    "xil_lutram": [(65, 3), (200, 7), (130, 14), (300, 2), (257, 1), (64, 9)],
    "intel_bram": [(5000, 20), (65536, 8), (2049, 10), (513, 40), (40000, 4), (1000, 45)],
    "intel_mlab": [(33, 5), (100, 5), (64, 20), (40, 21)],
    "generic": [(40000, 12), (70000, 3), (5000, 33)],
}


def gen_large(rng, n, tag):
    """LARGE memories per device family: depth cascades (memtools::splitMemoryAlongDepthMux), width splits and both"""
    out = []
    fams = ["xil_bram"] * 5 + ["xil_lutram", "intel_bram", "intel_bram", "intel_mlab", "generic"]
    for i in range(n):
        fam = fams[i % len(fams)] if i < 2 * len(fams) else rng.choice(fams)
        depth, width = rng.choice(LARGE_TABLE[fam])
        if rng.random() < 0.3:
            depth = max(3, depth + rng.choice([-3, -1, 1, 2, 7]))
        dev = {"xil_bram": rng.choice(["virtexus", "kintexus"]), "xil_lutram": rng.choice(XILINX), "intel_bram": rng.choice(INTEL),
               "intel_mlab": rng.choice(["arria10", "cyclone10", "agilex"]), "generic": "none"}[fam]
        typ = {"xil_bram": rng.choice("MMD"), "xil_lutram": "S", "intel_bram": rng.choice("MD"), "intel_mlab": "S", "generic": "D"}[fam]
        lat = rng.choice([-1, -1, 1, 2, 2, 3])
        ports = rng.choice(["R0,W1:p", "W1:p,R0", "N0,W1:p", "N0,W1:p", "W0:p,N0", "R0,W0:r0+", "R0,W0:r0^", "R0"])
        init = rng.choice(["none", "none", "zero", "fill", "part"])
        if ports == "R0":
            init = "fill"
        clk = rng.choice(["PN", "PN", "PS", "-S"]) if depth <= 10000 else "PN"
        out.append(" ".join(["M", f"id={tag}L{i}", f"depth={depth}", f"width={width}", f"type={typ}", f"lat={lat}", "nc=0", f"init={init}",
                             f"iseed={rng.randrange(1000)}", f"clk={clk}", f"dev={dev}", "pp=1", "exact=0", f"ports={ports}",
                             f"ncyc={rng.choice([300, 450, 600])}", f"stim={'alt' if rng.random() < 0.85 else 'rand'}",
                             f"seed={rng.randrange(10 ** 6)}", "xs=0"]))
    return out


def gen_reset(rng, n, tag):
    """reset-initialised contents x clock configurations: initZero / fill / part / addResetLogic, reset polarity LOW/HIGH,
    synchronous / asynchronous (memory) reset, initializeMemory on/off, reset held longer than the minimum; every word is read
    right after the reset release (stim=scan): expected = the declared contents, independent of the clock configuration"""
    out = []
    for i in range(n):
        depth = rng.choice([2, 3, 4, 5, 7, 8, 9, 12]); width = rng.randint(2, 6)
        init = ["rlogic", "fill", "zero", "part", "rlogic", "fill"][i % 6]
        clk = rng.choice("P--") + rng.choice("SSSA") + "HL"[i % 2 if i < 8 else rng.randrange(2)] + rng.choice("SSA")
        if rng.random() < 0.3:
            clk += str(rng.choice([1, 2, 5, depth, 2 * depth + 1]))
        lat = rng.choice([0, 0, 1, 2, 3])
        ports = rng.choice(["R0,W1:p", "R0,W1:p", "W1:p,R0", "R0,W0:p", "R0,W0:r0+", "R0,W1:p,R1", "W0:p,R1,W1:p", "R0,W1:r0^"])
        if ports.count("R") > 1 and ":r" in ports and lat >= 3:
            lat = 2
        dev = "none" if rng.random() < 0.8 else rng.choice(INTEL + XILINX)
        typ = "D" if lat == 0 or dev != "none" or rng.random() < 0.6 else "M"
        ppv = 1 if rng.random() < 0.9 else 0
        if init == "rlogic":
            # the initialisation network loops through the memory node until postprocess() cuts it (not simulable before);
            # with read latency >= 1 and any fix-up logic (write declared before a read, RMW) it stays connected: reported finding
            ppv = 1
            if lat >= 1 and ports not in ("R0,W1:p", "R0,W0:p") and rng.random() < 0.85:
                ports = rng.choice(["R0,W1:p", "R0,W0:p"])      # else: recorded finding addresetlogic-latency-fixup-cyclic
        out.append(" ".join(["M", f"id={tag}Z{i}", f"depth={depth}", f"width={width}", f"type={typ}", f"lat={lat}", "nc=0", f"init={init}",
                             f"iseed={rng.randrange(1000)}", f"clk={clk}", f"dev={dev}", f"pp={ppv}", "exact=0",
                             f"ports={ports}", f"ncyc={rng.choice([30, 50])}", "stim=scan", f"seed={rng.randrange(10 ** 6)}", "xs=0"]))
    return out


def gen_datadep(rng, n, tag, lats):
    """write enables computed from read data (saturating accumulators and relatives), latencies 0..8, declared contents,
    every word read before the pins enable a write (stim=scan): contents must survive start-up untouched"""
    out = []
    for i in range(n):
        depth = rng.choice([8, 8, 2, 3, 5, 6, 9, 12]); width = rng.choice([8, 8, 2, 3, 4, 5, 6])
        lat = lats[i % len(lats)]
        mx = (1 << width) - 1
        const = rng.choice([mx, mx - 1, max(1, mx // 2), rng.randint(1, mx)])
        mode = rng.choice("oooar"); rel = rng.choice("llllne")
        cond = f"{mode}0{rel}{'d' if rng.random() < 0.25 else const}"
        shape = rng.random()
        if shape < 0.5:
            ports = f"R0,W0:r0{rng.choice('++^')}:{cond}"            # accumulator: same address
        elif shape < 0.7:
            ports = f"R0,W1:r0+:{cond}"                              # read one word, accumulate into another
        elif shape < 0.85:
            ports = f"R0,W{rng.choice('01')}:p:{cond}"               # plain data, enable from read data
        else:
            ports = f"R0,W0:r0+:{cond},R1"
        if ":p:a" in ports and lat >= 1:
            ports = ports.replace(":p:a", ":p:o")                    # recorded finding pin-and-readcond-enable-write-one-cycle-early (corpus case)
        typ = "D" if lat == 0 or rng.random() < 0.6 else "M"
        dev = "none" if rng.random() < 0.75 else rng.choice(INTEL + XILINX)
        if ports.endswith(",R1") and lat >= 3:
            lat = 2                                                  # known finding rmw-ringbuffer-too-many-read-ports
        out.append(" ".join(["M", f"id={tag}D{i}", f"depth={depth}", f"width={width}", f"type={typ}", f"lat={lat}", "nc=0",
                             f"init={rng.choice(['fill', 'fill', 'zero', 'part'])}", f"iseed={rng.randrange(1000)}",
                             f"clk={rng.choice(['PN', 'PN', 'PS', '-S'])}", f"dev={dev}", f"pp={1 if rng.random() < 0.85 else 0}", "exact=0",
                             f"ports={ports}", f"ncyc={rng.choice([40, 60, 90])}", f"stim={'scan' if rng.random() < 0.8 else 'hot'}",
                             f"seed={rng.randrange(10 ** 6)}", "xs=0"]))
    return out


# ----------------------------------------------------------------------------- running
def _limits():
    try:
        resource.setrlimit(resource.RLIMIT_AS, (12 << 30, 12 << 30))
    except Exception:
        pass


def run_harness(exe, cases, tag, timeout):
    """runs the cases (list of blocks: M line + optional s lines); survives hangs / crashes of single cases.
    returns (out_path, incidents[list of dict(case, what)])"""
    cf = WORK / f"{tag}.cases"; of = WORK / f"{tag}.out"
    incidents = []
    todo = list(cases); parts = []; rnd = 0
    while todo:
        cfp = WORK / f"{tag}.{rnd}.cases"; ofp = WORK / f"{tag}.{rnd}.out"
        cfp.write_text("\n".join(todo) + "\n")
        if ofp.exists():
            ofp.unlink()
        what = None
        try:
            p = subprocess.run([exe, "run", str(cfp), str(ofp)], capture_output=True, text=True, timeout=timeout, preexec_fn=_limits)
            if p.returncode != 0:
                what = f"harness terminated with code {p.returncode}: {(p.stderr or '')[-300:]}"
        except subprocess.TimeoutExpired:
            what = f"no result within {timeout} s (hang / unbounded allocation)"
        txt = ofp.read_text() if ofp.exists() else ""
        # keep complete cases only
        blocks = re.split(r"(?m)^(?=M )", txt)
        done = [b for b in blocks if b.startswith("M ") and re.search(r"(?m)^[EX] ", b)]
        parts.append("".join(done))
        ndone = len(done)
        if what is None:
            break
        ms = [c for c in todo]
        bad = ms[ndone] if ndone < len(ms) else None
        incidents.append(dict(case=bad.split("\n")[0] if bad else None, what=what))
        todo = ms[ndone + 1:]
        rnd += 1
        if rnd > 8:
            break
    of.write_text("".join(parts))
    cf.write_text("\n".join(cases) + "\n")
    return of, incidents


def read_log(path):
    res = []; cur = None
    for ln in open(path):
        ln = ln.rstrip("\n")
        if not ln:
            continue
        if ln.startswith("M "):
            a, _, b = ln[2:].partition(" | ")
            kv = dict(t.split("=", 1) for t in a.split() if "=" in t)
            hdr = dict(t.split("=", 1) for t in b.split() if "=" in t)
            cur = dict(line=a, kv=kv, hdr=hdr, lines=[], status=None); res.append(cur)
        elif cur is not None and ln[0] in "pc":
            cur["lines"].append(ln)
        elif cur is not None and ln[0] == "E":
            cur["status"] = "ok"
        elif cur is not None and ln[0] == "X":
            cur["status"] = ln
    return res


def read_model(path):
    res = {}; cur = None
    if not path or not os.path.exists(path):
        return res
    for ln in open(path):
        ln = ln.rstrip("\n")
        if ln.startswith("M "):
            t = ln.split()
            cur = dict(mode=t[2] if len(t) > 2 else "?", lines=[]); res[t[1]] = cur
        elif cur is not None and ln.startswith("c"):
            cur["lines"].append(ln.split()[1:])
    return res


def val(bits):
    return None if ("X" in bits or "x" in bits) else int(bits, 2)


def split_line(ln):
    toks = ln.split()
    idx = {k: toks.index(k) for k in ("A", "W", "O")}
    ig = toks.index("G") if "G" in toks else idx["W"]
    ip = toks.index("P") if "P" in toks else len(toks)
    return dict(tag=toks[0], addrs=toks[idx["A"] + 1:ig], gens=toks[ig + 1:idx["W"]] if ig != idx["W"] else [],
                wr=toks[idx["W"] + 1:idx["O"]], outs=toks[idx["O"] + 1:ip], phys=toks[ip + 1:])


# ----------------------------------------------------------------------------- independent oracle
ANY = "any"
UNK = "unknown"


def expand_words(txt):
    """header words=: comma list of <word> or <n>*<word> -> list of (count, value) runs"""
    runs = []
    for tok in txt.split(","):
        if "*" in tok:
            n, w = tok.split("*", 1); runs.append((int(n), val(w)))
        else:
            runs.append((1, val(tok)))
    return runs


class SparseMem:
    """array as a python dict holding only the touched words; untouched words come from the declared contents"""
    def __init__(self, runs, honoured, depth):
        self.depth = depth; self.d = {}
        self.starts = []; self.vals = []
        pos = 0
        for n, v in runs:
            self.starts.append(pos); self.vals.append(v if honoured else None); pos += n
    def __getitem__(self, a):
        if a in self.d:
            return self.d[a]
        if self.vals is None:
            return None
        import bisect
        return self.vals[bisect.bisect_right(self.starts, a) - 1]
    def __setitem__(self, a, v):
        self.d[a] = v
    def nuke(self):
        self.d = {}; self.vals = None
    def snapshot(self):
        c = SparseMem([], True, self.depth); c.starts = self.starts; c.vals = self.vals; c.d = dict(self.d)
        return c


def oracle(kv, hdr, lines, stats, tolerate=()):
    """python dict/list based array model.  Returns list of (cycle, port, expected, observed)."""
    depth = int(kv["depth"]); width = int(kv["width"]); nc = kv["nc"] == "1"
    L = int(hdr["L"]); ports = parse_ports(kv["ports"])
    pp = kv["pp"] == "1"; clk = kv["clk"]
    haswr = any(p["kind"] in "WAV" for p in ports)
    by_reset = pp and clk[1] != "N" and haswr           # generated reset logic loads the declared contents
    honoured = by_reset if kv["init"] == "rlogic" else (clk[0] == "P" or not haswr or by_reset)
    mem = SparseMem(expand_words(hdr["words"]), honoured, depth)
    nrd = sum(1 for p in ports if p["kind"] in "REN")
    pipes = [[UNK] * L for _ in range(nrd)]       # read-latency registers per read port, newest first
    last_half = [None] * nrd
    abits = int(hdr["abits"])
    bad = []; mask = (1 << width) - 1; t = -1
    prev_written = set()
    for ln in lines:
        f = split_line(ln)
        addrs, gens, wr, outs = f["addrs"], f["gens"], f["wr"], f["outs"]
        rds = []; pens = []; gi = 0; wpos = 0
        start = mem.snapshot() if nc else mem; writes = []
        # pre-pass for noConflicts: every enabled write of the cycle
        allw = []
        if nc:
            q = 0
            for p in ports:
                if p["kind"] in "REN":
                    continue
                en = 1 if p["kind"] == "A" else val(wr[q]); q += 2
                if p["kind"] == "V":
                    e2 = val(wr[q]); q += 1
                    en = 0 if (en == 0 or e2 == 0) else (None if (en is None or e2 is None) else 1)
                if p["cmode"] in "or":
                    en = None
                if en != 0:
                    allw.append(val(addrs[p["a"]]))
        for p in ports:
            a = val(addrs[p["a"]])
            if a is None:
                stats["x_addr"] += 1
            if p["kind"] in "REN":
                if p["kind"] == "N":
                    g = val(gens[gi]); gi += 1
                    pens.append(g == 1)
                    if g != 1:
                        stats["read_enable_low"] += 1
                else:
                    pens.append(True)
                if a is not None and abits > 0:
                    hb = a >> (abits - 1)
                    if last_half[len(rds)] is not None and hb != last_half[len(rds)]:
                        stats["read_other_half_than_previous_cycle"] += 1
                    last_half[len(rds)] = hb
                # which branch of MemDefs.read_base / fwd_one this read exercises
                ab = addrs[p["a"]]
                if "X" in ab:
                    stats["branch_read_addr_partial_" + ("exact" if kv.get("exact") == "1" else "undefined_mode")] += 1
                    if writes and not nc:
                        stats["branch_fwd_partial_read_addr"] += 1
                elif a >= depth:
                    stats["branch_read_out_of_range"] += 1
                else:
                    stats["branch_read_in_range"] += 1
                if not nc and any(w[0] is None for w in writes):
                    stats["branch_fwd_write_addr_undefined"] += 1
                en = 1
                if p["kind"] == "E":
                    en = val(gens[gi]); gi += 1
                if a is None or en != 1 or a >= depth:
                    rds.append(ANY)
                    if a is not None and a >= depth:
                        stats["oor_read"] += 1
                elif nc:
                    rds.append(ANY if any(w is None or w == a for w in allw) else start[a])
                else:
                    rds.append(mem[a])
                    if any(w[0] == a for w in writes):
                        stats["fwd_hit"] += 1
                    elif a in prev_written:
                        stats["read_after_write_next_cycle"] += 1
            else:
                en = 1 if p["kind"] == "A" else val(wr[wpos]); din = val(wr[wpos + 1]); wpos += 2
                if p["kind"] == "V":
                    e2 = val(wr[wpos]); wpos += 1
                    en = 0 if (en == 0 or e2 == 0) else (None if (en is None or e2 is None) else 1)
                if p["cmode"] != "-":
                    r = rds[p["csrc"]]
                    x = din if p["cdata"] else p["cconst"]
                    if r is ANY or r is None or x is None:
                        cnd = None
                    else:
                        cnd = int({"l": r < x, "e": r == x, "n": r != x}[p["crel"]])
                    stats["data_dependent_enable_" + {None: "undefined", 0: "low", 1: "high"}[cnd]] += 1
                    if p["cmode"] == "o":
                        en = cnd
                    elif p["cmode"] == "a":
                        en = 0 if (en == 0 or cnd == 0) else (None if (en is None or cnd is None) else 1)
                    else:
                        en = 1 if (en == 1 or cnd == 1) else (None if (en is None or cnd is None) else 0)
                if en is None:
                    stats["x_en"] += 1
                if p["src"] is not None:
                    r = rds[p["src"]]
                    data = None if (r is ANY or r is None or din is None) else (((r + din) if p["op"] == "+" else (r ^ din)) & mask)
                    if p["op"] == "^" and r is not ANY and r is not None and din is None:
                        data = None
                else:
                    data = din
                if en == 0:
                    stats["write_disabled"] += 1
                    continue
                if a is None:
                    stats["branch_commit_nuke"] += 1
                    mem.nuke()
                elif a < depth:
                    if any(w[0] == a for w in writes):
                        stats["ww_collision"] += 1
                    if en is None:
                        mem[a] = None
                    elif nc and sum(1 for w in allw if w is None or w == a) >= 2:
                        mem[a] = None
                    else:
                        mem[a] = data
                else:
                    stats["oor_write"] += 1
                    if "oor_alias" in tolerate:
                        # known finding depth-cascade-aliases-out-of-range-write: words whose address arises from the
                        # out-of-range address by dropping address bits may have been overwritten
                        if bin(a).count("1") > 12:
                            mem.nuke()
                        else:
                            sub = a
                            while True:
                                if sub < depth:
                                    mem[sub] = None
                                if sub == 0:
                                    break
                                sub = (sub - 1) & a
                writes.append((a, data))
        if f["tag"] == "p":
            if any(p["kind"] == "A" or p["cmode"] in "or" for p in ports):
                mem[0] = None        # a port writing during reset: reset logic may have taken the port over
            prev_written = set()
            continue
        prev_written = {w[0] for w in writes if w[0] is not None}
        t += 1
        for k, (rd, o) in enumerate(zip(rds, outs)):
            e = pipes[k][-1] if L else rd
            if pens[k] and L:
                pipes[k] = [rd] + pipes[k][:-1]
            elif L and "en_stall" in tolerate:
                # known finding depth-cascade-select-ignores-read-enable: everything in flight during a stall is open
                pipes[k] = [ANY] * L
            if e is ANY or e is None or e is UNK:
                continue
            stats["reads_checked"] += 1
            if val(o) != e:
                bad.append((t, k, format(e, f"0{width}b"), o))
    return bad


def write_collisions(kv, lines):
    """(d): enabled physical write ports of one cycle must address pairwise different words"""
    out = []
    t = -1
    for ln in lines:
        if not ln.startswith("c "):
            continue
        t += 1
        f = split_line(ln)
        seen = {}
        for i, p in enumerate(f["phys"]):
            a, e, we = p.split(":")
            if e == "1" and we == "1" and "X" not in a and a != "-":
                if a in seen:
                    out.append((t, seen[a], i, a, ln))
                seen[a] = i
    return out


def explicit_block(cs, upto):
    """the case as an explicit-stimulus block, truncated after cycle `upto` (for replays)"""
    a = re.sub(r"\bstim=\S+", "stim=explicit", cs["line"])
    rows = []; t = -1
    for ln in cs["lines"]:
        if ln[0] != "c":
            continue
        t += 1
        f = split_line(ln)
        rows.append("s " + " ".join(f["addrs"]) + ((" G " + " ".join(f["gens"])) if f["gens"] else "") + " W " + " ".join(f["wr"]))
        if t >= upto:
            break
    return "\n".join(["M " + a] + rows)


# ----------------------------------------------------------------------------- comparison
class Agg:
    def __init__(self):
        self.cases = 0; self.cycles = 0
        self.stats = collections.Counter(); self.cfg = collections.Counter(); self.rej = collections.Counter()
        self.hashes = set(); self.nontrivial = set(); self.samples = []
        self.tie = []; self.spec = []; self.orc = []; self.coll = []; self.errs = []; self.known = []; self.fixed_now = []
        self.model_cases = 0; self.spec_cases = 0
        self.mapping = collections.Counter(); self.large = []


def classify(agg, cs, known_tokens, kind, text):
    """a refusal / crash / collision of one case: known finding, design rule, or error"""
    for tok, pred in KNOWN_TOKENS.items():
        if pred(cs["kv"], kind, text):
            if tok in known_tokens:
                agg.known.append((tok, cs["line"], text[:160])); return "known"
            return None
    return None


def compare(agg, log, model, known_tokens, expect=None):
    for cs in log:
        kv = cs["kv"]
        agg.cases += 1
        exp = (expect or {}).get(kv.get("id"))
        if cs["status"] != "ok":
            text = cs["status"] or "no result"
            if classify(agg, cs, known_tokens, "reject", text):
                continue
            dr = design_rule(kv, text)
            if dr:
                agg.rej[dr] += 1; continue
            agg.errs.append(dict(case="M " + cs["line"], what="the library threw while building / post-processing / simulating a legal design",
                                 observed=re.sub(r"^X \S+ ", "", text)[:400]))
            continue
        nknown_before = len(agg.known)
        pp = kv["pp"] == "1"
        ncyc = sum(1 for l in cs["lines"] if l[0] == "c")
        agg.cycles += ncyc
        big = int(kv["depth"]) > 16
        key = f"pp={kv['pp']} dev={kv['dev']} type={kv['type']} L={cs['hdr']['L']}" + (" large" if big else "")
        agg.cfg[key] += 1
        if pp and kv["clk"][1:2] != "N" and n_writes(kv) and kv["init"] != "none":
            c = kv["clk"]
            agg.cfg[f"reset-initialised: init={kv['init']} initializeMemory={'on' if c[0] == 'P' else 'off'} memoryReset={c[1]} "
                    f"active={'LOW' if c[2:3] == 'L' else 'HIGH'} regReset={c[3:4] or 'S'} hold={'longer' if len(c) > 4 else 'min'}"] += 1
        if any(p["cmode"] != "-" for p in parse_ports(kv["ports"])):
            agg.cfg[f"data-dependent write enable pp={kv['pp']} L={cs['hdr']['L']} stim={kv['stim']}"] += 1
        mp = cs["hdr"].get("map", "-")
        if mp != "-":
            for tok in mp.split(","):
                agg.mapping[tok.rsplit(":", 1)[0] + (" (large designs)" if big else "")] += 1
        if big:
            agg.nlarge = getattr(agg, 'nlarge', 0) + 1
        if big and len(agg.large) < 400:
            agg.large.append(f"{kv['id']} dev={kv['dev']} type={kv['type']} {kv['depth']}x{kv['width']} lat={kv['lat']}->L={cs['hdr']['L']} ports={kv['ports']} init={kv['init']} clk={kv['clk']} map={mp}")
        st = collections.Counter()
        bad = oracle(kv, cs["hdr"], cs["lines"], st)
        agg.stats.update(st)
        h = hashlib.sha1("\n".join(cs["lines"]).encode()).hexdigest()
        agg.hashes.add(h)
        if (st["fwd_hit"] or st["ww_collision"] or st["read_after_write_next_cycle"]) and st["reads_checked"]:
            agg.nontrivial.add(h)
        excused = False
        if bad and pp and "depthMuxSplit" in mp:
            # the two recorded memtools::splitMemoryAlongDepthMux findings: accepted only if the design has the trigger AND
            # the mismatch disappears when the oracle tolerates exactly that effect
            depth = int(kv["depth"])
            cand = []
            if any(p["kind"] == "N" for p in parse_ports(kv["ports"])) and st["read_enable_low"]:
                cand.append("en_stall")
            if depth & (depth - 1) and st["oor_write"]:
                cand.append("oor_alias")
            for tol in [(c,) for c in cand] + ([tuple(cand)] if len(cand) == 2 else []):
                if not oracle(kv, cs["hdr"], cs["lines"], collections.Counter(), tolerate=tol):
                    toks = [t for t, pred in KNOWN_TOKENS.items() if pred(kv, "mismatch", tol)]
                    if toks and all(t in known_tokens for t in toks):
                        t0, k0, e0, o0 = bad[0]
                        for t in toks:
                            agg.known.append((t, cs["line"], f"cycle {t0} port {k0} expected {e0} observed {o0}"))
                        excused = True
                    break
        if bad and pp and not excused and has_pin_and_cond(kv) and int(cs["hdr"]["L"]) >= 1:
            tok = "pin-and-readcond-enable-write-one-cycle-early"
            if tok in known_tokens:
                t0, k0, e0, o0 = bad[0]
                agg.known.append((tok, cs["line"], f"cycle {t0} port {k0} expected {e0} observed {o0}"))
                excused = True
        if bad and not excused:
            t, k, e, o = bad[0]
            agg.orc.append(dict(case="M " + cs["line"], cycle=t, read_port=k, expected=e, observed=o, header=cs["hdr"],
                                replay_block=explicit_block(cs, t), what="read data differs from the array oracle"))
        # model / spec tie
        m = model.get(kv["id"]) if not excused else {"lines": None}
        if excused:
            pass
        elif m is None:
            if model:
                agg.tie.append(dict(case="M " + cs["line"], cycle=-1, what="model driver produced no lines for this case"))
        else:
            t = -1
            (agg.__dict__.__setitem__("spec_cases", agg.spec_cases + 1) if pp else agg.__dict__.__setitem__("model_cases", agg.model_cases + 1))
            for ln in cs["lines"]:
                if ln[0] != "c":
                    continue
                t += 1
                outs = split_line(ln)["outs"]
                if t >= len(m["lines"]):
                    agg.tie.append(dict(case="M " + cs["line"], cycle=t, what="model log too short")); break
                mo = m["lines"][t]
                diff = None
                for k, (o, e) in enumerate(zip(outs, mo)):
                    if e == "?":
                        continue
                    if not pp:
                        if o != e:
                            diff = (k, e, o); break
                    else:
                        if len(o) != len(e) or any(eb != "X" and eb != ob for eb, ob in zip(e, o)):
                            diff = (k, e, o); break
                if diff:
                    (agg.spec if pp else agg.tie).append(dict(
                        case="M " + cs["line"], cycle=t, read_port=diff[0], expected=diff[1], observed=diff[2], header=cs["hdr"],
                        replay_block=explicit_block(cs, t),
                        what=("post-processed circuit: read data contradicts the extracted array specification after the declared latency"
                              if pp else "un-postprocessed circuit: read data differs from the extracted Node_MemPort model (MemDefs.v)")))
                    break
        # structural write-collision check
        if pp and kv["nc"] == "0":
            col = write_collisions(kv, cs["lines"])
            if col:
                t, i, j, a, ln = col[0]
                text = f"cycle {t}: physical write ports #{i} and #{j} both enabled on address {a}"
                if not classify(agg, cs, known_tokens, "collision", text):
                    agg.coll.append(dict(case="M " + cs["line"], cycle=t, observed=ln, replay_block=explicit_block(cs, t),
                                         what="after postprocess two write ports of an ordered memory are enabled on the same address in one cycle "
                                              "(hardware has no commit order; the later declared write must win by logic): " + text))
        if exp and not any(tk == exp for tk, _, _ in agg.known[nknown_before:]):
            agg.fixed_now.append((exp, cs["line"]))
        if len(agg.samples) < 4 and ncyc >= 20 and (st["fwd_hit"] or st["ww_collision"]):
            agg.samples.append(dict(case="M " + cs["line"], header=cs["hdr"], first_cycles=cs["lines"][1:7]))


def run_batch(exe, drv, blocks, tag, timeout):
    of, inc = run_harness(exe, blocks, tag, timeout)
    mf = None
    if drv:
        mf = WORK / f"{tag}.model"
        rc, out = V.run([drv, str(of), str(mf)], timeout=1800)
        if rc != 0:
            inc.append(dict(case=None, what=f"model driver failed rc={rc}: {out[-300:]}"))
            mf = None
    return of, mf, inc


def load_corpus():
    """corpus files: blocks of `M ...` (+ `s ...`) lines; a preceding `# known=<token>` marks a recorded known finding"""
    blocks = []; expect = {}
    for cf in sorted(glob.glob(str(V.VERIF / "corpus" / CID / "*.txt"))):
        pend = None; cur = None
        for ln in open(cf):
            ln = ln.rstrip("\n")
            if ln.startswith("# known="):
                pend = ln.split("=", 1)[1].strip()
            elif ln.startswith("M "):
                cur = [ln]; blocks.append(cur)
                if pend:
                    m = re.search(r"\bid=(\S+)", ln)
                    expect[m.group(1)] = pend; pend = None
            elif ln.startswith("s ") and cur is not None:
                cur.append(ln)
    return ["\n".join(b) for b in blocks], expect


def main():
    t0 = time.time()
    tiername = V.tier(); seed = V.seed()
    WORK.mkdir(parents=True, exist_ok=True)
    V.build_gatery()
    exe = V.build_harness("C07_mem")
    res = V.check_properties(CID)
    drv = V.build_model(CID)
    V.build_harness("C01_design"); V.build_model("NM")
    if "--build-only" in sys.argv:
        sys.exit(0)
    rep = V.Report(CID)
    rep.add_proof(res)
    known, _fixed = V.known_findings(CID)
    known_tokens = {k.split()[0]: k for k in known}

    # ---------------- replay mode
    if "--replay" in sys.argv:
        rp = json.load(open(sys.argv[sys.argv.index("--replay") + 1]))
        blk = rp.get("replay_block") or rp.get("case")
        if not blk or not blk.startswith("M "):
            print(json.dumps(dict(replay=None, still_failing=True, details="replay names no concrete case: run the check itself")))
            sys.exit(1)
        of, mf, inc = run_batch(exe, drv, [blk], "replay", 300)
        agg = Agg()
        compare(agg, read_log(of), read_model(mf), known_tokens)
        still = agg.orc + agg.tie + agg.spec + agg.coll + agg.errs + inc
        print(json.dumps(dict(replay=blk.split("\n")[0], still_failing=bool(still), details=still[:2]), indent=1, default=str))
        sys.exit(1 if still else 0)

    agg = Agg(); incidents = []
    # ---------------- corpus first
    cblocks, expect = load_corpus()
    if cblocks:
        of, mf, inc = run_batch(exe, drv, cblocks, "corpus", 300)
        incidents += inc
        compare(agg, read_log(of), read_model(mf), known_tokens, expect)
    ncorpus = len(cblocks)

    # ---------------- generated cases
    if tiername == "quick":
        nshards, n_a, n_b, n_dev = 8, 320, 220, 90
    else:
        nshards, n_a, n_b, n_dev = 16, 4000, 3000, 2000
    n_large = 3 if tiername == "quick" else 40        # per shard
    shards = []
    for i in range(nshards):
        rng = random.Random(seed * 7919 + i * 104729 + (1 if tiername == "quick" else 2))
        lats = [5, 6, 7, 3, 0, 1, 2, 4, 8]
        shards.append(gen_large(rng, n_large, f"s{i}_") + gen_datadep(rng, 18 if tiername == "quick" else 180, f"s{i}_", lats[i % 3:] + lats[:i % 3])
                      + gen_reset(rng, 24 if tiername == "quick" else 250, f"s{i}_")
                      + gen_cases(rng, n_a, n_b, n_dev, f"s{i}_"))
    tmo = 150 if tiername == "quick" else 900
    with ThreadPoolExecutor(max_workers=min(nshards, V.NCPU)) as ex:
        futs = [ex.submit(run_batch, exe, drv, sh, f"{tiername}{i}", tmo) for i, sh in enumerate(shards)]
        results = [f.result() for f in futs]
    for of, mf, inc in results:
        incidents += inc
        compare(agg, read_log(of), read_model(mf), known_tokens)

    # ---------------- verdict
    hard = agg.orc + agg.spec + agg.coll
    tie_broken = bool(agg.tie) or drv is None or not res["ok"]
    search_info = {}
    if tie_broken and not hard:
        budget = 60 if tiername == "quick" else 600
        ts = time.time(); rounds = 0
        # (1) concretisation experiment on the real implementation (independent of the Coq model): a bit the
        #     implementation reports as defined under undefined inputs must survive every way of resolving the
        #     undefined input bits (C08 for memories)
        crng = random.Random(seed * 13 + 3)
        for m in [m for m in agg.tie if "replay_block" in m and "X" in m["replay_block"].split("\n", 1)[-1]][:12]:
            blk = m["replay_block"].split("\n")
            variants = []
            for v in range(12):
                rows = ["".join((crng.choice("01") if ch == "X" else ch) for ch in r) for r in blk[1:]]
                variants.append("\n".join([re.sub(r"\bid=\S+", f"id=conc{v}", blk[0])] + rows))
            of, inc = run_harness(exe, ["\n".join(blk)] + variants, "concretise", 120)
            logs = read_log(of)
            search_info["concretisations_run"] = search_info.get("concretisations_run", 0) + len(variants)
            if len(logs) < 2 or logs[0]["status"] != "ok":
                continue
            base = [split_line(l)["outs"] for l in logs[0]["lines"] if l[0] == "c"]
            for lg in logs[1:]:
                if lg["status"] != "ok":
                    continue
                conc = [split_line(l)["outs"] for l in lg["lines"] if l[0] == "c"]
                for t, (bo, co) in enumerate(zip(base, conc)):
                    for k, (x, y) in enumerate(zip(bo, co)):
                        if any(a != "X" and b != "X" and a != b for a, b in zip(x, y)):
                            hard.append(dict(case=blk[0], cycle=t, read_port=k, expected=f"{y} (same design, undefined input bits resolved)", observed=x,
                                             replay_block="\n".join(blk), concretised_block=explicit_block(lg, t),
                                             what="a read data bit reported as DEFINED under partially undefined inputs contradicts the run in which the "
                                                  "undefined input bits are given concrete values (undefined inputs must only make results undefined, never wrong)"))
                            break
                    if hard:
                        break
                if hard:
                    break
            if hard:
                break
        while time.time() - ts < budget and not hard and rounds < 40:
            rng = random.Random(seed * 31 + 977 * rounds + 5)
            blocks = gen_cases(rng, 400, 300, 100, f"q{rounds}_")
            # start from the disagreeing designs: same design, fresh stimulus seeds
            for m in agg.tie[:20]:
                blocks.append(re.sub(r"seed=\d+", f"seed={rng.randrange(10**6)}", m["case"].split("\n")[0]))
            of, inc = run_harness(exe, blocks, f"search{rounds}", 120)
            a2 = Agg()
            compare(a2, read_log(of), {}, known_tokens)
            hard = a2.orc + a2.coll
            incidents += inc
            search_info["extra_cases"] = search_info.get("extra_cases", 0) + a2.cases
            rounds += 1
        search_info["rounds"] = rounds

    for tok, line, text in agg.known:
        pass
    seen_tok = set()
    for tok, line, text in agg.known:
        if tok not in seen_tok:
            seen_tok.add(tok)
            rep.known(known_tokens[tok])
    for inc in incidents:
        cs = inc.get("case")
        kv = dict(t.split("=", 1) for t in (cs or "").split() if "=" in t)
        handled = False
        for tok, pred in KNOWN_TOKENS.items():
            if tok in known_tokens and cs and pred(kv, "reject", inc["what"]):
                rep.known(known_tokens[tok]); handled = True
        if not handled:
            rep.violation(dict(property=CID, kind="crash-or-hang", case=cs, replay_block=cs, what=inc["what"],
                               expected="design builds, post-processes and simulates", how_to_replay="checks/C07.py --replay <this file>"), tag="hang")
    how = "checks/C07.py --replay <this file>   (re-runs replay_block through harness, model and oracle)"
    if hard:
        v = hard[0]
        rep.violation(dict(property=CID, kind="array-semantics", how_to_replay=how, n=len(hard),
                           broke=("also: tie to the Coq model broken" if tie_broken else "differential run on the real implementation"),
                           theorems_failed=res["failed"], **v), tag="array")
    elif tie_broken:
        if agg.tie:
            v = agg.tie[0]
            rep.violation(dict(property=CID, kind="tie-mismatch", how_to_replay=how, n_mismatching_cases=len(agg.tie), search=search_info,
                               theorems_failed=res["failed"], model_extracts=drv is not None,
                               note="the real Node_MemPort simulation and the extracted model disagree; the theorems of Properties_C07.v no longer describe the implementation; the python array oracle found no wrong defined read in the search budget",
                               **v), nofail=True, tag="tie")
        elif not res["ok"]:
            rep.violation(dict(property=CID, kind="proof", failed=res["failed"], log=res["log"][-1500:], search=search_info,
                               what="theorems of Properties_C07.v no longer check"), nofail=True, tag="proof")
        else:
            rep.violation(dict(property=CID, kind="model", what="Extract_C07.v no longer compiles", log=V.last_model_log[-1500:], search=search_info),
                          nofail=True, tag="model")
    for e in agg.errs[:3]:
        rep.violation(dict(property=CID, kind="construction-error", how_to_replay=how, replay_block=e["case"], **e), tag="throw")

    # ---------------- evidence
    cov = rep.cov
    cov["evaluations"] = agg.cases
    cov["distinct_nontrivial"] = len(agg.nontrivial)
    cov["rule"] = ("a case = one memory design (depth 2..9, width 1..5, 1-3 read / 0-2 write ports in a declared order with shared or independent "
                   "address pins, plain or read-modify-write write data, IF-enabled / always-enabled ports, latency 0..3 as registers behind the read port, "
                   "memory type, noConflicts, initialisation, clock reset configuration, target device, postprocess on/off) simulated under one seeded "
                   "stimulus (random / hot-address collisions / back-to-back / out-of-range / same-address; 4-state for un-postprocessed designs). "
                   "non-trivial = the trace contains a same-cycle read-after-write forwarding hit, a write-write collision or a read of a word written in "
                   "the previous cycle AND at least one read whose expected value is defined was compared; distinct = distinct traces (sha1 of the cycle log).")
    cov["samples"] = agg.samples
    cov["traces_validated_against_impl"] = agg.cases
    cov["cycles_compared"] = agg.cycles
    cov["model_tie_cases_pp0"] = agg.model_cases
    cov["spec_cases_pp1"] = agg.spec_cases
    cov["corpus_cases"] = ncorpus
    cov["config_histogram"] = dict(sorted(agg.cfg.items()))
    cov["mapping_functions_fired"] = dict(sorted(agg.mapping.items()))
    cov["mapping_legend"] = ("number of post-processed designs in which: depthMuxSplit = memtools::splitMemoryAlongDepthMux hooked a cascade_rdData mux; "
                             "widthSplit = memtools::splitMemoryAlongWidth hooked concatenated_rdData; subMemory = memory_split_<i> groups exist "
                             "(createDepthSplitMemories / createWidthSplitMemories); prim:<X> = external primitive X instantiated; prop:<X> = 'primitive' "
                             "property of the memory entity (pattern that applied; vhdl = generic Memory2VHDLPattern); node_memory = Node_Memory nodes left")
    cov["large_designs"] = agg.large[:60]
    cov["large_designs_total"] = getattr(agg, "nlarge", 0)
    cov["event_histogram"] = dict(agg.stats)
    cov["rejected_by_design_rule"] = dict(agg.rej)
    cov["known_finding_hits"] = collections.Counter(t for t, _, _ in agg.known)
    cov["corpus_known_cases_that_no_longer_fail"] = [f"{t}: {l}" for t, l in agg.fixed_now]
    cov["tie_mismatches"] = len(agg.tie); cov["spec_mismatches"] = len(agg.spec); cov["oracle_mismatches"] = len(agg.orc)
    cov["write_collisions_unresolved"] = len(agg.coll); cov["crash_or_hang"] = len(incidents)
    cov["search_mode"] = search_info
    cov["explanation"] = ("Universal theorems: simulator ports refine the sequential array program (any ports/depth/width/cycles), out-of-range behaviour, "
                          "the compat congruence (C08 for memories), L-register latency, the register-mode hazard bypass network for every K and every "
                          "sequence, the rbw mux chain and pairwise write-order resolution. Sampled: (1) MemDefs.v <-> Node_MemPort.cpp (exact 4-state diff on "
                          "un-postprocessed designs), (2) that post-processing / device mapping emits networks with array behaviour (differential vs the "
                          "extracted specification and a python oracle; no validator for MemoryDetector.cpp), ring-buffer bypass (latency compensation > 2) "
                          "and reset-initialisation logic are covered by (2) only.")
    rep.assumptions += [
        "MemDefs.v is a hand transcription of Node_MemPort.cpp:168-339; agreement is established by the sampled cycle-exact diff only",
        "post-processing (MemoryDetector.cpp, RegisterRetiming.cpp) and device patterns are NOT verified: only their simulated results are compared with the array spec; "
        "device primitives are simulated through the generic memory group (exportOverride), i.e. vendor simulation models are not exercised",
        "data dependent write enables (compare of the read word with a constant / the write data, alone or AND/OR-ed with a pin) are computed by the drivers "
        "with Node_Compare / Node_Logic semantics (undefined as soon as an operand bit is undefined; 0 dominates AND, 1 dominates OR)",
        "the first L-1 outputs after reset (register pre-history) are not compared, but memory CONTENTS are: stim=scan reads every word before the pins enable a write; behaviour while the reset is asserted is not part of the spec "
        "(an always-enabled write port may or may not write word 0 during reset)",
        "noConflicts memories: a read meeting a write of the same cycle and two writes meeting are treated as legitimately undefined",
        "addresses wider/narrower than log2(depth) (frontend zero-extends / truncates) and mixed port widths are not generated; single clock only",
        "write-collision check relies on reading the drivers of the physical write ports through ReferenceSimulator::getValueOfOutput",
    ]
    cov["wall_tie_s"] = round(time.time() - t0, 1)
    # ---------------- verified certificates for circuits with memories (constructed vs post-processed, all stimuli, all cycles)
    import C07b
    mb = C07b.run(rep, known_tokens)
    for b in mb["broken"]:
        rep.violation(dict(property=CID, kind="memory-certificate", what=b,
                           note="tie or verified certificate of the memory-netlist model (NetMemDefs.v / MachineCert.v) broke; no concrete differing stimulus was confirmed on the real simulator"),
                      nofail=True, tag="memcert")
    cov["wall_total_s"] = round(time.time() - t0, 1)
    rep.finish()


if __name__ == "__main__":
    main()
