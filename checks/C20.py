#!/usr/bin/env python3
"""C20 -- recorded waveforms (VCD) and test vectors faithfully record the simulation.

Pipeline (AGENT_BRIEF.md):
  1. rebuild gatery + harness/C20_vcd.cpp from the current /repo tree
  2. rebuild the Coq development, re-check Properties_C20.v (Print Assumptions per theorem)
  3. extract the models (VcdDefs.v writer+reader, TvDefs.v recorder) + ocaml/C20_driver.ml
  4. tie, per generated case (design parameters + seeded stimulus; see harness/C20_vcd.cpp):
       the harness runs the REAL sim::VCDSink and (tv=1) the REAL FileBasedTestbenchRecorder and samples the
       same run through its own SimulatorCallbacks observer (<id>.trace / <id>.tvlog), then
       (i)   extracted READER on the real .vcd == sampled value, every signal, at (a sample of) commit ticks
       (ii)  extracted WRITER on the sampled callback sequence == body of the real file, byte for byte
       (iii) extracted recorder model on the callback log == real .testvectors, line by line;
             the real file replayed by the harness into a FRESH real simulation: every CHECK must hold
       independent oracle (python, not the Coq model): own VCD parser + own identifier formula vs the trace,
       every signal at every commit tick; replay verdicts of the harness (the replayed design's reset pins are driven by
       the RST records, so CHECKs only hold if the recorded levels are right); every RST record, the declared initial
       values and the reset assignments of the inline recorder's VHDL test bench vs the LEVEL of the reset signal sampled
       with Simulator::getValueOfReset (clock / reset lines of the VCD likewise use getValueOfClock / getValueOfReset);
       designs vary reset polarity, sync/async/none, hold cycles/time, reset names, derived clocks
  5. proof / model / tie broken without an oracle failure -> search mode (more cases, oracle only)
"""
import sys, os
sys.path.insert(0, os.path.join(os.path.dirname(os.path.abspath(__file__)), "..", "lib"))
import vcommon as V
import json, random, shutil, subprocess, time, hashlib
from fractions import Fraction as F
from concurrent.futures import ThreadPoolExecutor
from pathlib import Path
from collections import Counter

CID = "C20"
TMP = V.BUILD / "tmp" / CID
KNOWN_TAG = "poweron-waitstable-check-before-set"
KNOWN_TAG_WRAP = "recorder-rational-uint64-overflow"
KNOWN_TAG_SUBPS = "recorder-subps-phase-spacing"
KNOWN_TAG_TICK = "vcdsink-tick-uint64-overflow"
PS = 10 ** 12

# ----------------------------------------------------------------------------------------------
# cases
# ----------------------------------------------------------------------------------------------

WIDTHS = [1, 2, 3, 7, 8, 9, 31, 32, 33, 63, 64, 65, 100, 127, 128, 129, 130]
# 33333333 Hz is deliberately absent: its period is coprime to 10^12 and drives boost::rational<uint64_t> into wrapping within
# ~100 ns (simulator time, VCD tick, recorder flush) -- known findings, kept alive by corpus cases only
NORMAL_F = [F(100_000_000), F(125_000_000), F(50_000_000), F(400_000_000, 3), F(250_000_000), F(10_000_000), F(200_000_000)]
EXOTIC_F = [F(700_000_000_000), F(3_000_000_000_000), F(1_000_000_000_000), F(250_000_000_000), F(3_000_000_000), F(10 ** 12, 7)]
KEYS = ["id", "nclk", "f0", "f1", "wc", "ws", "wd", "steps", "seed", "tv", "allsig", "wait", "pows", "end",
        "rp0", "rt0", "mrc0", "mrt0", "rn0", "rp1", "rt1", "mrc1", "mrt1", "rn1", "der"]


def fr(x):
    x = F(x)
    return f"{x.numerator}/{x.denominator}"


def case_line(c):
    return " ".join(f"{k}={c[k]}" for k in KEYS if k in c)


def parse_case(line):
    c = {}
    for tok in line.split():
        if "=" in tok:
            k, v = tok.split("=", 1)
            c[k] = v
    return c


def gen_case(rng, cid, tier, family):
    """family: 'tv' (ns-scale clocks, recorder attached) or 'vcd' (exotic clocks, sub-ps waits, VCD only)"""
    nclk = rng.choice([1, 1, 2])
    steps = rng.choice([10, 16, 24]) if tier == "quick" else rng.choice([20, 40, 80])
    if family == "tv":
        fs = [rng.choice(NORMAL_F) for _ in range(2)]
        # never end exactly on a tick: the destructor's flush would get a zero-length interval and write the AFTER-phase
        # records of that last tick with the tick's own time (see the report: same-time records are ambiguous)
        end = F(steps * 18 + 40, 10 ** 9) + F(1235, 10 ** 13)
        wait, tv = 0, 1
    else:
        fs = [rng.choice(EXOTIC_F + NORMAL_F[:2]) for _ in range(2)]
        # about 150..300 edges of the fastest clock
        fmax = max(fs[:nclk])
        end = F(rng.choice([150, 220, 300])) / (2 * fmax)
        wait, tv = (1 if fmax > 10 ** 10 else rng.choice([0, 1])), 0
    c = dict(id=cid, nclk=nclk, f0=fr(fs[0]), f1=fr(fs[1]), wc=rng.choice(WIDTHS[:12]), ws=rng.choice(WIDTHS),
             wd=rng.choice(WIDTHS), steps=steps, seed=rng.randrange(1, 10 ** 9), tv=tv,
             allsig=rng.choice([0, 0, 1]), wait=wait, pows=rng.choice([0, 1, 1]), end=fr(end))
    # reset of every clock: polarity, kind, hold requirements, name; sometimes a derived clock (own reset, opposite polarity)
    for k in range(nclk):
        c[f"rp{k}"] = rng.choice("HL")
        c[f"rt{k}"] = rng.choice("SSAAN") if family == "tv" else rng.choice("SA")
        if rng.random() < 0.35:
            c[f"mrc{k}"] = rng.choice([2, 3, 5])
        if rng.random() < 0.25:
            c[f"mrt{k}"] = rng.choice([12345, 37000, 50001]) if family == "tv" else rng.choice([3, 11])
        if rng.random() < 0.3:
            c[f"rn{k}"] = rng.choice(["my_reset", "areset_n", "sys_rst"]) + (str(k) if nclk > 1 else "")
    if family == "tv" and c["rt0"] != "N":
        c["der"] = rng.choice([0, 0, 1, 2])
    return {k: str(v) for k, v in c.items()}


def gen_cases(tier, seed, n_tv, n_vcd, prefix="g"):
    rng = random.Random(seed * 1000003 + 17)
    cases = []
    for i in range(n_tv):
        cases.append(gen_case(rng, f"{prefix}t{i}", tier, "tv"))
    for i in range(n_vcd):
        cases.append(gen_case(rng, f"{prefix}v{i}", tier, "vcd"))
    # aimed cases: word boundaries of the wide vectors, the known power-on pattern
    for i, w in enumerate([63, 64, 65, 128, 129]):
        cases.append({k: str(v) for k, v in dict(id=f"{prefix}w{i}", nclk=1, f0="100000000/1", f1="100000000/1", wc=5, ws=w, wd=w,
                                                  steps=14, seed=rng.randrange(1, 10 ** 9), tv=1, allsig=0, wait=0, pows=1,
                                                  end="3333335/10000000000000").items()})
    for i, (rp, rt) in enumerate([("L", "S"), ("L", "A"), ("H", "A")]):
        cases.append({k: str(v) for k, v in dict(id=f"{prefix}r{i}", nclk=1, f0="100000000/1", f1="100000000/1", wc=4, ws=5, wd=6, steps=14,
                                                  seed=rng.randrange(1, 10 ** 9), tv=1, allsig=0, wait=0, pows=1,
                                                  end="3000005/10000000000000", rp0=rp, rt0=rt, mrc0=rng.choice([0, 3])).items()})
    cases.append({k: str(v) for k, v in dict(id=f"{prefix}k0", nclk=1, f0="100000000/1", f1="100000000/1", wc=4, ws=3, wd=6, steps=6,
                                              seed=rng.randrange(1, 10 ** 9), tv=1, allsig=0, wait=0, pows=2, end="2500005/10000000000000").items()})
    return cases


def corpus_cases():
    out = []
    d = V.VERIF / "corpus" / CID
    if d.exists():
        for f in sorted(d.glob("*.case")):
            for line in f.read_text().splitlines():
                line = line.strip()
                if line and not line.startswith("#"):
                    c = parse_case(line)
                    c["id"] = "c_" + f.stem + "_" + c.get("id", "x")
                    out.append(c)
    return out


# ----------------------------------------------------------------------------------------------
# independent oracle: VCD parser, identifier formula, trace reader
# ----------------------------------------------------------------------------------------------

def ident(n):
    """code of the (n+1)-th signal: bijective base 94 over '!'..'~', least significant first (closed form)"""
    m, s = n + 1, ""
    while m > 0:
        d = (m - 1) % 94 + 1
        s += chr(32 + d)
        m = (m - d) // 94
    return s


def parse_vcd(path):
    lines = Path(path).read_text().split("\n")
    if lines and lines[-1] == "":
        lines.pop()
    vars_ = []
    i = 0
    while i < len(lines) and lines[i] != "$enddefinitions $end":
        t = lines[i].split(" ")
        if len(t) >= 6 and t[0] == "$var" and t[1] == "wire":
            vars_.append((t[3], int(t[2]), t[4]))
        i += 1
    body = lines[i + 1:]
    changes, now = [], 0
    for l in body:
        if not l:
            continue
        c = l[0]
        if c == "#":
            now = int(l[1:])
        elif c in "01xX":
            changes.append((now, l[1:], l[0].upper()))
        elif c in "bB":
            bits, code = l[1:].split(" ", 1)
            changes.append((now, code, bits.upper()))
    return vars_, body, changes


def parse_trace(path):
    sigs, codes, evs = [], [], []
    for l in Path(path).read_text().splitlines():
        t = l.split(" ")
        if t[0] == "sig":
            sigs.append(dict(idx=int(t[1]), width=int(t[2]), bvec=t[3] == "1", hidden=t[4] == "1", name=" ".join(t[5:])))
        elif t[0] == "code":
            codes.append((int(t[1]), t[2], t[3]))
        elif t[0] == "T":
            evs.append(("T", F(int(t[1]), int(t[2]))))
        elif t[0] == "B":
            evs.append(("B", int(t[1]), t[2]))
        elif t[0] == "R":
            evs.append(("R", " ".join(t[1:])))
        elif t[0] == "C":
            evs.append(("C", t[1:]))
    return sigs, codes, evs


def view(raw):
    return "" if raw == "-" else raw.replace("W", "X")


def oracle_vcd(d, cid, hist):
    """python VCD parser vs sampled trace; returns (comparisons, list of failure dicts)"""
    sigs, codes, evs = parse_trace(d / f"{cid}.trace")
    vars_, body, changes = parse_vcd(d / f"{cid}.vcd")
    fails = []
    varset = set(vars_)
    for s in sigs:
        if (ident(s["idx"]), s["width"], s["name"]) not in varset:
            fails.append(dict(what="header", signal=s["name"], expected=f"$var wire {s['width']} {ident(s['idx'])} {s['name']} $end"))
    for (k, kind, name) in codes:
        if (ident(k), 1, name) not in varset:
            fails.append(dict(what="header-clock", signal=name, expected=f"$var wire 1 {ident(k)} {name} $end"))
    code_of = {ident(s["idx"]): s["idx"] for s in sigs}
    # expected: last commit of every tick
    now, per_tick, order = 0, {}, []
    commits = 0
    for e in evs:
        if e[0] == "T":
            now = (e[1].numerator * PS) // e[1].denominator
        elif e[0] == "C":
            commits += 1
            if now in per_tick:
                hist["vcd_commits_sharing_a_tick"] += 1
            else:
                order.append(now)
            per_tick[now] = e[1]
    hist["vcd_commits"] += commits
    hist["vcd_ticks_with_commit"] += len(order)
    # every `#` line must be floor(time / 1 ps) of the corresponding onNewTick
    real_ticks = [int(l[1:]) for l in body if l.startswith("#")]
    exp_ticks = [(e[1].numerator, e[1].denominator) for e in evs if e[0] == "T"]
    known_tick, tick_wrap_pos = [], set()
    if len(real_ticks) != len(exp_ticks):
        fails.append(dict(what="number of timestamps", vcd=len(real_ticks), onNewTick_calls=len(exp_ticks)))
    else:
        for k, ((num, den), rt) in enumerate(zip(exp_ticks, real_ticks)):
            et = (num * PS) // den
            if et != rt:
                emu, wrapped = tick_u64(num, den)
                info = dict(what="timestamp", index=k, time=f"{num}/{den} s", expected=f"#{et}", vcd=f"#{rt}")
                if wrapped and emu == rt:
                    known_tick.append(info)
                    tick_wrap_pos.add(k)
                else:
                    fails.append(info)
    cur = {s["idx"]: "X" * s["width"] for s in sigs}
    ci, n_cmp = 0, 0
    last_text = {}
    for T in order:
        while ci < len(changes) and changes[ci][0] <= T:
            t, code, val = changes[ci]
            if code in code_of:
                if t not in per_tick and not tick_wrap_pos:
                    fails.append(dict(what="change-outside-commit-tick", tick=t, code=code))
                if last_text.get(code) == val:
                    hist["vcd_rewrite_same_text(hidden VALUE plane)"] += 1
                last_text[code] = val
                cur[code_of[code]] = val
                w = sigs[code_of[code]]["width"]
                if len(val) != w:
                    fails.append(dict(what="width", tick=t, code=code, value=val, width=w))
                hist["vcd_line_scalar" if not val or (len(val) == 1 and not sigs[code_of[code]]["bvec"]) else
                     ("vcd_line_vector_1bit" if w == 1 else ("vcd_line_vector_gt64" if w > 64 else "vcd_line_vector"))] += 1
                if "X" in val:
                    hist["vcd_line_with_X"] += 1
            ci += 1
        exp = per_tick[T]
        for s in sigs:
            n_cmp += 1
            e = view(exp[s["idx"]])
            if cur[s["idx"]] != e and not (s["width"] == 0):
                fails.append(dict(what="value", tick=T, signal=s["name"], index=s["idx"], expected=e, vcd=cur[s["idx"]]))
    nlines = sum(1 for (t, code, val) in changes if code in code_of)
    if tick_wrap_pos:
        # a wrapped timestamp misplaces every later change in time: values are compared in file order instead
        fails = [f for f in fails if f.get("what") != "value"]
    return n_cmp, fails[:12], dict(known_tick=known_tick, tick_wrap_pos=sorted(tick_wrap_pos), exp_ticks=[(n * PS) // d for n, d in exp_ticks], nlines=nlines, has_x=any("X" in v for (_, c, v) in changes if c in code_of),
                                   has_vec=any(len(v) > 1 for (_, c, v) in changes if c in code_of), commits=commits)


# ----------------------------------------------------------------------------------------------
# test vectors
# ----------------------------------------------------------------------------------------------

def parse_tv(path):
    lines = Path(path).read_text().splitlines()
    recs, i = [], 0
    while i < len(lines):
        k = lines[i]
        if k == "ADV":
            recs.append(("ADV", int(lines[i + 1]), None)); i += 2
        else:
            recs.append((k, lines[i + 1], lines[i + 2])); i += 3
    return recs


# ---- independent emulation of the recorder's arithmetic: boost::rational<uint64_t> (gcd-normalised operators of
#      boost/rational.hpp) with every intermediate reduced modulo 2^64 and a flag when that changed a value ----
from math import gcd as _gcd
_M = 1 << 64


class R64:
    wrapped = False

    def __init__(s, n, d=1, norm=True):
        if norm:
            g = _gcd(n, d) or 1
            n //= g; d //= g
        s.n, s.d = n, d

    @staticmethod
    def w(x):
        if x >= _M or x < 0:
            R64.wrapped = True
        return x % _M

    def add(a, b, sign=1):
        g = _gcd(a.d, b.d); den = a.d // g
        num = R64.w(R64.w(a.n * (b.d // g)) + sign * R64.w(b.n * den))
        g2 = _gcd(num, g) or 1
        return R64(num // g2, R64.w(den * (b.d // g2)), False)

    def muli(a, i):
        g = _gcd(i, a.d) or 1
        return R64(R64.w(a.n * (i // g)), a.d // g, False)

    def divi(a, i):
        if a.n == 0:
            return a
        g = _gcd(a.n, i) or 1
        return R64(a.n // g, R64.w(a.d * (i // g)), False)


def tick_u64(num, den):
    """VCDSink::advanceTick: simulationTime / ClockRational(1, 10^12) (boost operator/=), then numerator / denominator"""
    if num == 0:
        return 0, False
    R64.wrapped = False
    g2 = _gcd(PS, den)
    n = R64.w(num * (PS // g2))
    d = R64.w(den // g2)
    return (n // d if d else 0), R64.wrapped


def emulate_recorder_u64(tvlog):
    """third implementation of FileBasedTestbenchRecorder (python), arithmetic as the C++ does it.
    returns (file lines, index of the first ADV group computed with a wrapped intermediate or None)"""
    out, first_wrap, first_subps, ngroups = [], None, None, 0
    new = lambda: dict(chk=[], set={}, rst={})
    phases, post = [], new()
    written, fstart, cur = R64(0), R64(0), 2
    fstart_exact = F(0)

    def flush(end, end_exact):
        nonlocal phases, written, fstart, first_wrap, first_subps, ngroups, fstart_exact
        R64.wrapped = False
        spacing_ps = (end_exact - fstart_exact) / (2 + len(phases)) * PS
        if 0 < spacing_ps < 1 and first_subps is None and any(p["chk"] or p["set"] or p["rst"] for p in phases):
            first_subps = ngroups
        fstart_exact = end_exact
        interval = end.add(fstart, -1).divi(2 + len(phases))
        for i, p in enumerate(phases):
            if not (p["chk"] or p["set"] or p["rst"]):
                continue
            tgt = fstart.add(interval.muli(1 + i))
            diff = tgt.add(written, -1).muli(PS)
            ps = (diff.n // diff.d) % _M
            if R64.wrapped and first_wrap is None:
                first_wrap = ngroups
            ngroups += 1
            out.extend(["ADV", str(ps)])
            written = written.add(R64(ps, PS))
            for n, v in p["chk"]:
                out.extend(["CHECK", n, v])
            for n in sorted(p["set"]):
                out.extend(["SET", n, p["set"][n]])
            for n in sorted(p["rst"]):
                out.extend(["RST", n, p["rst"][n]])
        phases = [new()]
        fstart = end

    for l in Path(tvlog).read_text().splitlines():
        t = l.split(" ")
        if t[0] == "PowerOn":
            written, fstart = R64(0), R64(0); phases.append(new()); cur = 2; fstart_exact = F(0)
        elif t[0] == "NewPhase":
            cur = int(t[1])
            if cur == 2:
                flush(R64(int(t[2]), int(t[3])), F(int(t[2]), int(t[3])))
                phases[-1] = post; post = new(); phases.append(new())
        elif t[0] == "AMT":
            phases.append(new())
        elif t[0] == "Reset":
            (post if cur == 1 else phases[-1])["rst"][t[1]] = t[2]
        elif t[0] == "Set":
            (post if cur == 1 else phases[-1])["set"][t[1]] = t[2]
        elif t[0] == "Read":
            raw = t[3]
            if t[2] == "1":
                if raw[-1] in "01":
                    phases[-1]["chk"].append((t[1], raw.replace("W", "X")))
            elif any(ch in "01" for ch in raw):
                phases[-1]["chk"].append((t[1], "".join(ch if ch in "01" else "-" for ch in raw)))
        elif t[0] == "Destroy":
            flush(R64(int(t[1]), int(t[2])), F(int(t[1]), int(t[2])))
    return out, first_wrap, first_subps


def analyze_tv(d, cid, driver, hist):
    """returns (evaluations, model_mismatch_or_None, oracle failures, known hits, info)"""
    real = (d / f"{cid}.testvectors").read_text().splitlines()
    V.run([driver, "tv", str(d / f"{cid}.tvlog"), str(d / f"{cid}.tvmodel")], timeout=600)
    model = (d / f"{cid}.tvmodel").read_text().splitlines() if (d / f"{cid}.tvmodel").exists() else None
    mm = None
    emu, first_wrap, first_subps = emulate_recorder_u64(d / f"{cid}.tvlog")
    if first_subps is not None:
        hist["tv_cases_with_subps_phase_spacing"] += 1
    recs = parse_tv(d / f"{cid}.testvectors")
    # line number where the first group computed with a wrapped uint64 intermediate starts (None: exact run)
    wrap_line = None
    if first_wrap is not None:
        hist["tv_cases_with_uint64_wrap_in_flush"] += 1
        g, ln = -1, 0
        for r in recs:
            if r[0] == "ADV":
                g += 1
                if g == first_wrap:
                    wrap_line = ln
                    break
                ln += 2
            else:
                ln += 3
    if emu != real:
        j = next((k for k in range(min(len(emu), len(real))) if emu[k] != real[k]), min(len(emu), len(real)))
        mm = dict(what="uint64 emulation of the recorder (python) != real file", line=j + 1, real=real[j:j + 3], emulation=emu[j:j + 3])
    cmp_real, cmp_model = (real, model or []) if wrap_line is None else (real[:wrap_line], (model or [])[:wrap_line])
    if model is None or cmp_model != cmp_real:
        j = next((k for k in range(min(len(cmp_model), len(cmp_real))) if cmp_model[k] != cmp_real[k]), min(len(cmp_model), len(cmp_real)))
        mm = dict(what="tv model != real file", line=j + 1, real=cmp_real[j:j + 3], model=cmp_model[j:j + 3])
    # groups: index of the ADV group every record belongs to
    grp, g = [], -1
    for r in recs:
        if r[0] == "ADV":
            g += 1
            hist["tv_adv_zero" if r[1] == 0 else "tv_adv_positive"] += 1
        else:
            hist["tv_" + r[0].lower()] += 1
            if r[0] == "CHECK" and "-" in r[2]:
                hist["tv_check_with_dontcare"] += 1
            if r[0] == "SET" and "X" in r[2]:
                hist["tv_set_with_X"] += 1
        grp.append(g)
    # tvlog statistics (which branches of the recorder were exercised)
    ph = 2
    for l in (d / f"{cid}.tvlog").read_text().splitlines():
        t = l.split(" ")
        if t[0] == "NewPhase":
            ph = int(t[1])
        elif t[0] in ("Set", "Reset") and ph == 1:
            hist["tv_callback_in_DURING_deferred"] += 1
        elif t[0] == "Read":
            hist["tv_read_in_phase_%d" % ph] += 1
    fails, known, known_wrap, known_subps = [], [], [], []
    # ---- reset records vs the LEVEL the reset signal had in the recorded run (Simulator::getValueOfReset, sampled by the
    #      observer inside onReset): record level == signal level; the reset is asserted iff level == activeHigh
    decl, timeline, now_t, poweron_level, seen_other = {}, {}, F(0), {}, False
    for l in (d / f"{cid}.tvlog").read_text().splitlines():
        t = l.split(" ")
        if t[0] == "RstDecl":
            decl[t[1]] = (t[2] == "1", t[3])
            hist["tv_reset_pin_active_%s_%s" % ("high" if t[2] == "1" else "low", "async" if t[3] == "A" else "sync")] += 1
        elif t[0] == "NewPhase":
            now_t = F(int(t[2]), int(t[3])); seen_other = True
        elif t[0] == "Reset":
            timeline.setdefault(t[1], []).append((now_t, t[2]))
            if not seen_other:
                poweron_level[t[1]] = t[2]
            if len(t) > 3 and t[2] != t[3]:
                fails.append(dict(what="onReset parameter differs from Simulator::getValueOfReset", reset=t[1], level=t[2], parameter=t[3]))
        elif t[0] in ("Set", "Read", "Commit", "AMT"):
            seen_other = True
    tabs, rst_fail = 0, []
    last_rec = {}
    for i, r in enumerate(recs):
        if r[0] == "ADV":
            tabs += r[1]
        elif r[0] == "RST":
            name, lvl = r[1], r[2]
            hist["tv_rst_records_checked_against_signal_level"] += 1
            ev = [v for (tt, v) in timeline.get(name, []) if (tt.numerator * PS) // tt.denominator <= tabs]
            ah = decl.get(name, (None, None))[0]
            if ah is False:
                hist["tv_rst_records_of_active_low_resets"] += 1
            if not ev or ev[-1] != lvl:
                rst_fail.append(dict(what="RST record level != level of the reset signal in the recorded run", record=i, time_ps=tabs, reset=name,
                                     file_level=lvl, signal_level=(ev[-1] if ev else None), active_high=ah,
                                     meaning=("file says %s, simulator had the reset %s" % (
                                         "asserted" if (lvl == "1") == ah else "released",
                                         "asserted" if ev and (ev[-1] == "1") == ah else "released")) if ah is not None else ""))
            last_rec[name] = lvl
    for name, evs_ in timeline.items():
        if name in decl and (name not in last_rec or last_rec[name] != evs_[-1][1]):
            rst_fail.append(dict(what="final level of a reset in the file != final level in the recorded run", reset=name,
                                 file_level=last_rec.get(name), signal_level=evs_[-1][1]))
    # ---- the inline recorder (generated VHDL test bench): declared initial values and the sequence of reset assignments
    tb = d / f"{cid}.tbinline.vhd"
    if tb.exists() and decl:
        import re
        txt = tb.read_text()
        for name in decl:
            m = re.search(r"SIGNAL\s+" + re.escape(name) + r"\s*:\s*STD_LOGIC\s*:=\s*'(.)'", txt)
            if m and name in poweron_level and m.group(1) != poweron_level[name]:
                rst_fail.append(dict(what="inline test bench: declared initial value of the reset != level after power-on", reset=name,
                                     declared=m.group(1), signal_level=poweron_level[name]))
        assigns = [(m.group(1), m.group(2)) for m in re.finditer(r"^\s*(\w+)\s*<=\s*'([01])';\s*$", txt, re.M) if m.group(1) in decl]
        # reference: the RST sequence the python emulation derives from the sampled signal levels (same phase structure in both recorders)
        frecs, q = [], 0
        while q < len(emu):
            if emu[q] == "ADV":
                q += 2
            else:
                if emu[q] == "RST":
                    frecs.append((emu[q + 1], emu[q + 2]))
                q += 3
        hist["tv_inline_reset_assignments_compared"] += len(assigns)
        if assigns != frecs and first_wrap is None:
            j = next((k for k in range(min(len(assigns), len(frecs))) if assigns[k] != frecs[k]), min(len(assigns), len(frecs)))
            rst_fail.append(dict(what="inline test bench: reset assignments differ from the levels of the reset signals", position=j,
                                 inline=assigns[j:j + 3], signal_levels=frecs[j:j + 3]))
    fails += rst_fail
    rep_lines = (d / f"{cid}.replay").read_text().splitlines() if (d / f"{cid}.replay").exists() else []
    nchk = 0
    sched = {}
    rc, out = V.run([driver, "tvsched", str(d / f"{cid}.testvectors")], timeout=600)
    k = 0
    sched_list = [l.split(" ") for l in out.splitlines() if l.startswith("S ")]
    idx_nonadv = [i for i, r in enumerate(recs) if r[0] != "ADV"]
    if len(sched_list) == len(idx_nonadv):
        for i, sl in zip(idx_nonadv, sched_list):
            sched[i] = int(sl[1])
    else:
        fails.append(dict(what="tv_parse/tv_schedule record count", model=len(sched_list), file=len(idx_nonadv)))
    for l in rep_lines:
        t = l.split(" ")
        if t[0] == "K":
            nchk += 1
            i = int(t[1])
            if i in sched and sched[i] != int(t[2]):
                fails.append(dict(what="replay time differs from tv_schedule", record=i, harness=int(t[2]), model=sched[i]))
            if t[-1] != "ok":
                grecs = [recs[j] for j in range(len(recs)) if grp[j] == grp[i]]
                info = dict(what="replayed CHECK failed", record=i, time_ps=int(t[2]), pin=t[3], expected=t[4], observed=t[5],
                            group=[" ".join(str(x) for x in r if x is not None) for r in grecs])
                if rst_fail:
                    fails.append(info)      # wrong reset levels explain anything: never attribute such a run to a known finding
                elif grp[i] == 0 and any(r[0] == "SET" for r in grecs):
                    known.append(info)
                elif first_subps is not None and grp[i] >= first_subps and (first_wrap is None or first_subps <= first_wrap):
                    info["first_group_with_subps_spacing"] = first_subps
                    known_subps.append(info)
                elif first_wrap is not None and grp[i] >= first_wrap and emu == real:
                    info["first_group_with_wrapped_uint64"] = first_wrap
                    known_wrap.append(info)
                else:
                    fails.append(info)
        elif t[0] in ("BADPIN", "BADREC") or (t[0] == "RSTREC" and t[-1] != "ok"):
            fails.append(dict(what=l))
    if not rep_lines:
        fails.append(dict(what="no replay output"))
    return len(real) + nchk, mm, fails[:12], known, dict(checks=nchk, known_wrap=known_wrap, known_subps=known_subps, wrap=first_wrap is not None)


# ----------------------------------------------------------------------------------------------
# running
# ----------------------------------------------------------------------------------------------

def run_harness(exe, cases, d):
    d.mkdir(parents=True, exist_ok=True)
    n = max(1, min(V.NCPU, len(cases)))
    chunks = [cases[i::n] for i in range(n)]
    def one(k):
        f = d / f"cases_{k}.txt"
        f.write_text("".join(case_line(c) + "\n" for c in chunks[k]))
        return V.run([exe, "run", str(f), str(d)], timeout=3000)
    with ThreadPoolExecutor(n) as ex:
        res = list(ex.map(one, range(n)))
    done, exc = set(), []
    for rc, out in res:
        for l in out.splitlines():
            if l.startswith("done "):
                done.add(l.split()[1])
            elif l.startswith("EXCEPTION"):
                exc.append(l)
        if rc not in (0, 3):
            exc.append(f"harness exit {rc}: {out[-400:]}")
    return done, exc


def analyze_case(c, d, driver, tier):
    """returns dict with evaluations, model failures (tie), oracle failures (real vs independent oracle), known hits"""
    cid = c["id"]
    hist = Counter()
    r = dict(id=cid, evals=0, tie=[], oracle=[], known=[], known_wrap=[], known_subps=[], known_tick=[], hist=hist, info={})
    n_cmp, of, info = oracle_vcd(d, cid, hist)
    r["evals"] += n_cmp
    r["oracle"] += [dict(f, part="vcd") for f in of]
    r["known_tick"] += info.pop("known_tick")
    wrap_pos, exp_ticks = info.pop("tick_wrap_pos"), info.pop("exp_ticks")
    r["info"].update(info)
    if wrap_pos:
        hist["vcd_cases_with_uint64_wrap_in_tick"] += 1
    if driver:
        maxticks = 40 if tier == "quick" else 200
        rc, out = V.run([driver, "vcd", str(d / f"{cid}.trace"), str(d / f"{cid}.vcd"), str(d / f"{cid}.body"), str(maxticks)], timeout=900)
        rl = [l for l in out.splitlines() if l.startswith("R ")]
        if rc != 0 or not rl:
            r["tie"].append(dict(what="driver failed", out=out[-300:]))
        else:
            kv = dict(t.split("=") for t in rl[0].split()[1:])
            r["evals"] += int(kv["queries"])
            hist["reader_queries"] += int(kv["queries"])
            if (kv["mismatches"] != "0" and not wrap_pos) or kv["headerbad"] != "0":
                r["tie"].append(dict(what="extracted reader on the real file != sampled values", summary=rl[0],
                                     first=[l for l in out.splitlines() if l.startswith(("Q ", "H "))][:4]))
            real = (d / f"{cid}.vcd").read_bytes()
            k = real.find(b"$dumpvars\n")
            realbody = real[k + len(b"$dumpvars\n"):] if k >= 0 else b""
            if wrap_pos:
                # the exact-arithmetic model cannot reproduce a wrapped timestamp: compare with those `#` lines put right
                ls_, j = realbody.split(b"\n"), 0
                for q in range(len(ls_)):
                    if ls_[q].startswith(b"#"):
                        if j in wrap_pos:
                            ls_[q] = b"#%d" % exp_ticks[j]
                        j += 1
                realbody = b"\n".join(ls_)
            modelbody = (d / f"{cid}.body").read_bytes() if (d / f"{cid}.body").exists() else b""
            r["evals"] += realbody.count(b"\n")
            hist["body_lines_compared"] += realbody.count(b"\n")
            if realbody != modelbody:
                rl_, ml_ = realbody.split(b"\n"), modelbody.split(b"\n")
                j = next((i for i in range(min(len(rl_), len(ml_))) if rl_[i] != ml_[i]), min(len(rl_), len(ml_)))
                r["tie"].append(dict(what="extracted writer != body of the real file", line=j + 1,
                                     real=[x.decode("latin1") for x in rl_[j:j + 3]], model=[x.decode("latin1") for x in ml_[j:j + 3]]))
    if c.get("tv") == "1":
        if driver:
            ev, mm, of2, known, info2 = analyze_tv(d, cid, driver, hist)
            r["evals"] += ev
            if mm:
                r["tie"].append(mm)
            r["oracle"] += [dict(f, part="tv") for f in of2]
            r["known"] += known
            r["known_wrap"] += info2.pop("known_wrap")
            r["known_subps"] += info2.pop("known_subps")
            r["info"].update(info2)
        else:
            # oracle only: replay verdicts
            for l in (d / f"{cid}.replay").read_text().splitlines() if (d / f"{cid}.replay").exists() else []:
                if l.startswith("K ") and not l.endswith(" ok"):
                    r["oracle"].append(dict(part="tv", what="replayed CHECK failed", line=l))
    return r


def nontrivial(r, c):
    i = r["info"]
    ok = i.get("nlines", 0) >= 10 and i.get("has_x") and i.get("has_vec")
    if c.get("tv") == "1":
        ok = ok and i.get("checks", 0) >= 3
    return bool(ok)


def main():
    tier = V.tier()
    seed = V.seed()
    rep = V.Report(CID)
    V.build_gatery()
    exe = V.build_harness("C20_vcd")
    res = V.check_properties(CID)
    driver = V.build_model(CID)
    if "--build-only" in sys.argv:
        sys.exit(0)
    rep.add_proof(res)
    known_lines, _ = V.known_findings(CID)

    if TMP.exists():
        shutil.rmtree(TMP, ignore_errors=True)
    d = TMP / "run"

    replay_case = None
    if "--replay" in sys.argv:
        rp = json.loads(Path(sys.argv[sys.argv.index("--replay") + 1]).read_text())
        replay_case = parse_case(rp["case"])
        cases = [replay_case]
    else:
        n_tv, n_vcd = (12, 12) if tier == "quick" else (220, 220)
        cases = corpus_cases() + gen_cases(tier, seed, n_tv, n_vcd)

    t0 = time.time()
    done, exc = run_harness(exe, cases, d)
    t_h = time.time() - t0
    results = []
    with ThreadPoolExecutor(V.NCPU) as ex:
        futs = [(c, ex.submit(analyze_case, c, d, driver, tier)) for c in cases if c["id"] in done]
        for c, f in futs:
            results.append((c, f.result()))

    hist = Counter()
    tie_fail, oracle_fail, known_hits, known_wrap_hits, known_subps_hits, known_tick_hits = [], [], [], [], [], []
    seen, nontriv = set(), 0
    for c, r in results:
        hist.update(r["hist"])
        key = tuple((k, v) for k, v in sorted(c.items()) if k != "id")
        if key not in seen:
            seen.add(key)
            if nontrivial(r, c):
                nontriv += 1
        for f in r["tie"]:
            tie_fail.append((c, f))
        for f in r["oracle"]:
            oracle_fail.append((c, f))
        for f in r["known"]:
            known_hits.append((c, f))
        for f in r["known_wrap"]:
            known_wrap_hits.append((c, f))
        for f in r["known_subps"]:
            known_subps_hits.append((c, f))
        for f in r["known_tick"]:
            known_tick_hits.append((c, f))
    for e in exc:
        oracle_fail.append((dict(id="?"), dict(what="harness exception (the real classes threw)", text=e)))
    missing = [c for c in cases if c["id"] not in done]

    rep.cov["evaluations"] = sum(r["evals"] for _, r in results)
    rep.cov["distinct_nontrivial"] = nontriv
    rep.cov["rule"] = ("cases = design parameters (1-2 clocks with rational frequencies incl. 700 GHz / 3 THz so that commits share a "
                       "picosecond, every clock with a random reset polarity (active high/low), kind (sync/async/none), min reset cycles/time, reset name, "
                       "optionally a derived clock with its own opposite-polarity reset; counter/shift/data widths from {1..130} aimed at 63/64/65/127/128/129) + seeded stimulus "
                       "(OnClk/AfterClk/WaitFor/WaitStable, pin values with undefined bits); evaluations = (signal, commit tick) "
                       "comparisons of the python oracle + extracted-reader queries + body lines compared + test-vector lines "
                       "compared + replayed CHECKs (RST records and inline reset assignments vs sampled reset levels are counted in the histogram); a case is non-trivial if its VCD has >= 10 value lines, at least one with X "
                       "and one vector, and (tv cases) >= 3 CHECK records were replayed; distinct by parameter tuple")
    rep.cov["samples"] = [case_line(c) for c, _ in results[:3]] + [
        dict(case=case_line(c), vcd_value_lines=r["info"].get("nlines"), commits=r["info"].get("commits"),
             replayed_checks=r["info"].get("checks")) for c, r in results[3:6]]
    rep.cov["traces_validated_against_impl"] = len(results)
    rep.cov["cases_run"] = len(results)
    rep.cov["branch_histogram"] = dict(hist)
    rep.cov["harness_wall_s"] = round(t_h, 1)
    rep.cov["trusted_base"].append("the observer of harness/C20_vcd.cpp (own SimulatorCallbacks; reads the sink's signal list through a "
                                   "derived class) and the python VCD parser / identifier formula used as the independent oracle")
    rep.assumptions += [
        "modelled, not verified: VcdDefs.v / TvDefs.v are hand transcriptions of WaveformRecorder/VCDSink/VCDWriter and "
        "FileBasedTestbenchRecorder; agreement with the C++ is established per run on the generated cases only",
        "outside the theorems: memories in the VCD, string/debug-message variables, GTKWave/surfer project files, the scope "
        "hierarchy of the header (only the set of $var lines is compared), the inline TestbenchRecorder, resolution of a read "
        "output to an IO pin name, boost::rational overflow, same-name signals in different scopes",
        "test vectors: proved are the flush arithmetic (window, no accumulation of rounding, no unsigned wrap), the record order "
        "relative to phase boundaries and that no CHECK is lost; that a replay reproduces every CHECK is NOT proved (no model of the "
        "simulated design here) -- it is checked by replaying the real file into a fresh real simulation on every generated case",
        "reset records: the file is compared with the level Simulator::getValueOfReset returned inside onReset and the replay drives the "
        "reset pins of a fresh simulation from the RST records (ReferenceSimulator subclass in the harness); CLK records are not written by "
        "the file based recorder (#if 0 in the source), clock levels are only checked in the VCD; of the inline TestbenchRecorder only the "
        "declared initial reset values and the sequence of reset assignments are checked",
        "replay uses the reference simulator again (GHDL is absent): VHDL delta-cycle effects of `ADV 0` records are not covered",
        "sub-picosecond phase spacing (clock > ~100 GHz or many micro ticks) is outside the recorder's resolution "
        "(tv_subps_window_refuted); tv cases therefore use ns-scale clocks and waits",
    ]

    # ---- verdicts ----------------------------------------------------------------------------
    def replay_obj(c, f, kind):
        return dict(property=CID, kind=kind, case=case_line(c), finding=f,
                    how_to_replay=f"python3 checks/C20.py --replay <this file>   (or: build/harness/C20_vcd run <file with the case line> <dir>)",
                    expected="VCD value at every commit tick == value sampled through SimulatorCallbacks; every replayed CHECK holds; "
                             "model output == real files")

    shown = Counter()
    def known_or_fail(tag, c, f, txt):
        if any(k.startswith(tag) for k in known_lines):
            shown[tag] += 1
            if shown[tag] <= 2:
                rep.known(f"{tag} case `{case_line(c)}` " + txt)
        else:
            oracle_fail.append((c, dict(f, would_be_known_as=tag)))
    for c, f in known_hits:
        known_or_fail(KNOWN_TAG, c, f, f"record {f['record']} at {f['time_ps']} ps: CHECK {f['pin']} expected {f['expected']} observed {f['observed']} "
                      "(CHECK written before the SET of the same power-on phase)")
    for c, f in known_wrap_hits:
        known_or_fail(KNOWN_TAG_WRAP, c, f, f"record {f['record']} replayed at {f['time_ps']} ps: CHECK {f['pin']} expected {f['expected']} observed {f['observed']} "
                      f"(ADV of group {f['first_group_with_wrapped_uint64']} computed with a wrapped boost::rational<uint64_t> intermediate; "
                      "the python uint64 emulation reproduces the real file)")
    for c, f in known_subps_hits:
        known_or_fail(KNOWN_TAG_SUBPS, c, f, f"record {f['record']} replayed at {f['time_ps']} ps: CHECK {f['pin']} expected {f['expected']} observed {f['observed']} "
                      f"(group {f['first_group_with_subps_spacing']} was written by a flush with less than 1 ps per phase)")
    for c, f in known_tick_hits:
        known_or_fail(KNOWN_TAG_TICK, c, f, f"onNewTick({f['time']}) written as {f['vcd']} instead of {f['expected']} "
                      "(the python uint64 emulation of advanceTick wraps and reproduces the value)")
    rep.cov["known_finding_hits"] = {KNOWN_TAG: len(known_hits), KNOWN_TAG_WRAP: len(known_wrap_hits),
                                     KNOWN_TAG_SUBPS: len(known_subps_hits), KNOWN_TAG_TICK: len(known_tick_hits)}

    if oracle_fail:
        # concrete failing inputs on the real implementation (independent oracle): report the first few distinct kinds
        kinds = set()
        for c, f in oracle_fail:
            k = (f.get("part"), f.get("what"))
            if k in kinds:
                continue
            kinds.add(k)
            ro = replay_obj(c, f, "real implementation vs independent oracle")
            ro["tie_disagreements_in_this_run"] = [dict(case=case_line(cc), finding=ff) for cc, ff in tie_fail[:3]]
            rep.violation(ro, tag="oracle")
            if len(kinds) >= 4:
                break
    broken = []
    if not res["ok"]:
        broken.append("proof obligations failed: " + ", ".join(res["failed"]) + " | " + res["log"][-400:])
    if driver is None:
        broken.append("extraction of the model failed: " + V.last_model_log[-400:])
    if missing:
        broken.append("harness produced no output for: " + ", ".join(c["id"] for c in missing[:5]))
    if tie_fail:
        c, f = tie_fail[0]
        broken.append(f"{len(tie_fail)} tie disagreement(s), first: {f.get('what')} in `{case_line(c)}`")
    if broken and not oracle_fail and replay_case is None:
        # search mode: fresh cases, oracle only
        budget = 60 if tier == "quick" else 600
        found = None
        t1 = time.time()
        rnd = 0
        start = [c for c, _ in tie_fail[:4]]
        while time.time() - t1 < budget and not found:
            rnd += 1
            extra = start if rnd == 1 and start else gen_cases(tier, seed + 7919 * rnd, 8, 8, prefix=f"s{rnd}")
            if rnd == 1 and start:
                extra = [dict(c, id="s0_" + c["id"]) for c in start]
            sd = TMP / f"search{rnd}"
            dn, ex2 = run_harness(exe, extra, sd)
            for c in extra:
                if c["id"] not in dn:
                    continue
                r = analyze_case(c, sd, None, tier)
                if r["oracle"]:
                    found = (c, r["oracle"][0])
                    break
            if ex2 and not found:
                found = (extra[0], dict(what="harness exception", text=ex2[0]))
        rep.cov["search_rounds"] = rnd
        if found:
            rep.violation(replay_obj(found[0], found[1], "found in search mode after: " + "; ".join(broken)), tag="search")
        else:
            obj = dict(property=CID, kind="no failing input found", broken=broken,
                       first_tie_disagreement=(dict(case=case_line(tie_fail[0][0]), finding=tie_fail[0][1]) if tie_fail else None),
                       case=(case_line(tie_fail[0][0]) if tie_fail else ""),
                       searched=f"{rnd} rounds of fresh cases with the python VCD oracle and the replay of the real test-vector file")
            rep.violation(obj, nofail=True, tag="tie")
    elif broken and replay_case is not None and not oracle_fail:
        rep.violation(dict(property=CID, kind="replay: tie still broken", broken=broken, case=case_line(replay_case)), nofail=True, tag="tie")
    rep.finish()


if __name__ == "__main__":
    main()
