#!/usr/bin/env python3
"""C06 — Register retiming keeps function and balances latency exactly.

Per generated design program P (lib/C06_gen.py) the harness (harness/C06_retime.cpp) builds through the
real frontend
   HINTED = P, real DefaultPostprocessing (resolveRetimingHints, annihilateNegativeRegisters, ...; movable
            registers, hlim::retimeForwardToOutput / retimeBackwardtoOutput where the program asks for it)
   REF    = P with every hint removed and every balance-group input delayed by N explicit plain registers
            carrying the input's reset value and the group's stall scope, N = the stage count the group
            REPORTS after retiming (PipeBalanceGroup::getNumPipeBalanceGroupStages); not post-processed.
proof:   Properties_C06.v — soundness of the product-reachability certificate checker (ALL stimuli, ALL cycles
         per validated pair), stream-level retiming step lemmas (forward / backward step, negative register
         annihilation, delay balance, warm-up mask)
verified per design:
         `cert strict REF HINTED` (identical pin values incl. undefined bits in every cycle); if that is not
         accepted: `cert refine REF HINTED` = C01's observable condition: never contradict (a symmetric relation,
         so it also covers "compat HINTED REF"), and identical while REF's run has been free of undefined values.
         The other direction of refine is NOT demanded: retiming legitimately makes bits defined that the
         reference leaves undefined (reset values are recomputed through masking logic, constant folding).
         Both are decided by the VERIFIED checker (cert_sound_strict / cert_sound).
         every-cycle claim : stateless regions, autonomous state behind a movable register, movable registers
                             (forward, backward, partial enables), negative registers  — outputs compared raw
         from-fill claim   : regions with feed-forward (anchored) registers — BOTH designs get the same warm-up
                             mask  out' = filled ? out : 0,  filled = "K cycles with the stall condition true have
                             passed", K = sum N + D (D = anchored/movable register depth of the region), built
                             from the same plain registers in both designs.  The certificate on the masked
                             outputs is the claim "equal in every cycle from the K-th enabled cycle on".
tie:     NetDefs model on every dumped netlist vs the real ReferenceSimulator trace (same stimuli)
search:  every certificate counterexample is replayed on the REAL simulator (harness replay) before it is
         reported; independent oracle: direct comparison of the real REF / HINTED traces.
"""
import sys, os, json, glob, time, subprocess, concurrent.futures
sys.path.insert(0, os.path.join(os.path.dirname(os.path.abspath(__file__)), "..", "lib"))
import vcommon as V, circ, C06_gen as G

CID = "C06"
WORK = V.BUILD / "work" / CID


def load_corpus():
    ds = []
    for f in sorted(glob.glob(str(V.VERIF / "corpus" / CID / "*.prog"))):
        lines = [l.rstrip("\n") for l in open(f) if l.strip()]
        meta = dict(template="corpus:" + os.path.basename(f)[:-5], expect="ok", warm=False, claim="every-cycle", features=["corpus"])
        for l in lines:
            if l.startswith("# expect "):
                meta["expect"] = l[len("# expect "):].strip()
            if l.startswith("# claim "):
                meta["claim"] = l[len("# claim "):].strip()
        meta["lines"] = [l for l in lines if not l.startswith("#")]
        ds.append(meta)
    return ds


def run_harness_parallel(harness, metas, out, nstim, cycles, nproc):
    """the harness is single threaded; shard the programs"""
    shards = [metas[i::nproc] for i in range(nproc)]
    def one(k):
        if not shards[k]:
            return
        pf = out / f"designs{k}.txt"
        G.write_programs(pf, [m["lines"] for m in shards[k]])
        circ.run_harness(harness, str(pf), str(out), "hint,ref", nstim=nstim, cycles=cycles)
    with concurrent.futures.ThreadPoolExecutor(max_workers=nproc) as ex:
        list(ex.map(one, range(nproc)))


def parse_info(path):
    """-> dict(skip=[..]) | dict(N={G:n}, K=int, regs_hint, regs_ref, notes=[..])"""
    r = dict(skip=[], N={}, K=0, notes=[], ok=False)
    if not os.path.exists(path):
        r["skip"].append("no info file")
        return r
    for l in open(path):
        p = l.split()
        if not p:
            continue
        if p[0] == "SKIP":
            r["skip"].append(" ".join(p[2:]))
        elif p[0] == "INFO":
            r["ok"] = True
            for x in p[3:]:
                if "=" not in x:
                    r["notes"].append(x); continue
                k, v = x.split("=", 1)
                if k == "K":
                    r["K"] = int(v)
                elif k in ("regs_hint", "regs_ref", "spawner_live", "negreg_live", "hint_live"):
                    r[k] = int(v)
                elif ":" in k:
                    r["notes"].append(x)
                else:
                    r["N"][k] = int(v)
    return r


def cert_field(l, key):
    for x in l.split():
        if x.startswith(key + "="):
            return x[len(key) + 1:]
    return None


def main():
    rep = V.Report(CID, "proof")
    V.build_gatery()
    harness = V.build_harness("C06_retime")
    driver = V.build_model("C01", name="C01")
    driver_mem = V.build_model("NM")          # netlists with memories (NetMemDefs.v, machine-generic checker MachineCert.v)
    if "--build-only" in sys.argv:
        sys.exit(0)
    res = V.check_properties(CID)
    rep.add_proof(res)
    forb = V.scan_forbidden()
    known, _ = V.known_findings(CID)
    quick = rep.tier == "quick"
    budget = 120000 if quick else 600000
    ndes = 160 if quick else 1200

    metas = load_corpus()
    if "--replay" in sys.argv:
        r = json.loads(open(sys.argv[sys.argv.index("--replay") + 1]).read())
        if "program" in r:
            metas = [dict(lines=r["program"], template=r.get("template", "replay"), expect=r.get("expect", "ok"),
                          warm=False, claim=r.get("claim", "every-cycle"), features=["replay"])]
            ndes = 0
    for i in range(ndes):
        metas.append(G.gen(rep.seed * 600011 + i, f"g{i}"))
    ids = [m["lines"][0].split()[1] for m in metas]
    M = dict(zip(ids, metas))
    prog = {i: M[i]["lines"] for i in ids}

    out = WORK / "run"
    if out.exists():
        for f in out.glob("*"):
            f.unlink()
    out.mkdir(parents=True, exist_ok=True)
    run_harness_parallel(harness, metas, out, nstim=3, cycles=12, nproc=min(V.NCPU, 16))
    info = {i: parse_info(out / f"{i}.info") for i in ids}
    built = [i for i in ids if info[i]["ok"]]
    skipped = [i for i in ids if not info[i]["ok"]]
    leftovers = [i for i in built if info[i].get("spawner_live", 0) or info[i].get("negreg_live", 0) or info[i].get("hint_live", 0)]

    # ---- model: tie + verified certificates ----
    lines = []
    t_cert = time.time()
    if driver:
        cmds = []
        for i in built:
            cmds.append(f"cert strict {out}/{i}.ref.net {out}/{i}.hint.net {out}/{i}.ref.trace {budget}")
        for i in built:
            for v in ("hint", "ref"):
                cmds.append(f"tie {out}/{i}.{v}.net {out}/{i}.{v}.trace")
        # designs with a memory in the region go to the driver of the memory-netlist model
        hasmem = {i for i in built if any(l.startswith("mem ") for l in prog[i])}
        def split_run(cs, tag):
            a = [c for c in cs if c.split()[2 if c.startswith("cert") else 1].split("/")[-1].split(".")[0] not in hasmem]
            b = [c for c in cs if c not in a]
            res = circ.run_driver(driver, a, str(WORK / tag)) if a else []
            if b and driver_mem:
                res += circ.run_driver(driver_mem, b, str(WORK / (tag + "m")))
            return res
        lines = split_run(cmds, "batch")
        strict = {l.split()[1].split("/")[-1].split(".")[0]: l for l in lines if l.startswith("CERT")}
        again = [i for i in built if i in strict and " FAIL " in strict[i]]
        cmds2 = []
        for i in again:
            cmds2.append(f"cert refine {out}/{i}.ref.net {out}/{i}.hint.net {out}/{i}.ref.trace {budget}")
        lines2 = split_run(cmds2, "batch2") if cmds2 else []
    else:
        strict, lines2 = {}, []
    t_cert = time.time() - t_cert
    fwd = {l.split()[1].split("/")[-1].split(".")[0]: l for l in lines2 if l.startswith("CERT") and ".ref.net" in l.split()[1]}
    tie_ok = sum(1 for l in lines if l.startswith("TIE") and " ok " in l)
    tie_bad = [l for l in lines if l.startswith("TIE") and "MISMATCH" in l]
    tie_uns = [l for l in lines if l.startswith("TIE") and ("UNSUPPORTED" in l or "BADORDER" in l)]
    errors = [l for l in lines + lines2 if l.startswith("ERROR")]
    allcert = list(strict.values()) + list(fwd.values())
    cert_rej = [l for l in allcert if " REJECTED " in l]

    # verdict per design: 'strict' | 'refine' | 'fail' | 'toobig' | 'unsupported'
    verdict, failing = {}, {}
    for i in built:
        s = strict.get(i, "")
        if " OK " in s:
            verdict[i] = "strict"
        elif " TOOBIG " in s:
            verdict[i] = "toobig"
        elif " UNSUPPORTED " in s:
            verdict[i] = "unsupported"
        elif " FAIL " in s:
            f = fwd.get(i, "")
            if " OK " in f:
                verdict[i] = "refine"
            elif " FAIL " in f:
                verdict[i] = "fail"
                failing[i] = f
            elif " TOOBIG " in f:
                verdict[i] = "toobig"
            else:
                verdict[i] = "other"
        else:
            verdict[i] = "other"

    # ---- independent oracle: direct differential of the REAL traces ----
    direct = {}
    exact_cycles = 0
    for i in built:
        ta = circ.parse_traces(out / f"{i}.ref.trace")
        tb = circ.parse_traces(out / f"{i}.hint.trace")
        for tag, a in ta.items():
            b = tb.get(tag.replace(f"{i}.ref", f"{i}.hint"))
            if not isinstance(a, dict) or b is None:
                continue
            d = circ.direct_diff(a, b)
            if d is None:
                # pins named oe*: the enable output of a negative register, observed directly.  It is the stall condition of
                # the compensated pipeline register (an input pin, or constant '1'): no register lies between the inputs and
                # this pin in either variant, so it must be IDENTICAL (definedness included) in every cycle
                for c, ((_, oa, _), (_, ob, _)) in enumerate(zip(a["cycles"], b["cycles"])):
                    for k, (pn, _) in enumerate(a["pins_out"]):
                        if pn.startswith("oe") and k < len(ob) and oa[k] != ob[k]:
                            d = dict(kind="enable output of a negative register differs from the stall condition of the compensated register",
                                     cycle=c, pin=pn, ref=oa[k], hinted=ob[k])
                            break
                    if d: break
            exact_cycles += sum(1 for x, y in zip(a["cycles"], b["cycles"]) if x[1] == y[1])
            if d and i not in direct:
                direct[i] = (d, circ.stim_of(a))

    # ---- confirm certificate counterexamples on the real simulator ----
    confirmed, unconfirmed = {}, {}
    cex = WORK / "cex"
    cex.mkdir(exist_ok=True)
    for i, l in failing.items():
        stim = cert_field(l, "stimulus")
        if stim is None:
            unconfirmed[i] = (l, None); continue
        G.write_programs(cex / "designs.txt", [prog[i]])
        open(cex / "stim.txt", "w").write(f"{i} {stim}\n")
        circ.run_harness(harness, str(cex / "designs.txt"), str(cex), "hint,ref", replay_stim=str(cex / "stim.txt"))
        x = circ.parse_traces(cex / f"{i}.ref.trace").get(f"{i}.ref replay")
        y = circ.parse_traces(cex / f"{i}.hint.trace").get(f"{i}.hint replay")
        real = None
        if x and y:
            real = circ.direct_diff(x, y)
            if real is None and "clean=true" in l and x["cycles"][-1][1] != y["cycles"][-1][1]:
                real = dict(kind="one run free of undefined values but the other differs", cycle=len(x["cycles"]) - 1,
                            ref=x["cycles"][-1][1], hinted=y["cycles"][-1][1])
            if real is not None:
                real = dict(real, ref_outputs=[c[1] for c in x["cycles"]], hinted_outputs=[c[1] for c in y["cycles"]])
        if real:
            confirmed[i] = (l, real, stim)
        else:
            unconfirmed[i] = (l, stim)

    # ---- evidence ----
    th, vh, fh, nh = {}, {}, {}, {}
    for i in ids:
        t = M[i]["template"].split(":")[0] if M[i]["template"].startswith("corpus") else M[i]["template"]
        th[t] = th.get(t, 0) + 1
    for i in built:
        key = M[i]["template"].split(":")[0] + "/" + verdict[i]
        vh[key] = vh.get(key, 0) + 1
        if verdict[i] in ("strict", "refine"):
            for f in M[i]["features"]:
                fh[f] = fh.get(f, 0) + 1
            n = sum(info[i]["N"].values())
            nh[str(n)] = nh.get(str(n), 0) + 1
    validated = [i for i in built if verdict[i] in ("strict", "refine")]
    def states(i):
        l = strict[i] if verdict[i] == "strict" else fwd[i]
        return int(cert_field(l, "states") or 0)
    rep.cov["evaluations"] = len(allcert)
    rep.cov["distinct_nontrivial"] = len({"\n".join(prog[i][1:]) for i in validated
                                          if info[i].get("regs_hint", 0) > 0 and states(i) > 3})
    rep.cov["rule"] = ("seeded retiming design programs (lib/C06_gen.py: balance-group pipelines with re-convergent fan-out / hints in series / "
                       "inputs of different depth / stalls / feed-forward registers, autonomous state, movable registers forward (pipestage, "
                       "partial enables with holding circuit, retimeForwardToOutput) and backward (retimeBackwardtoOutput), negative registers) + corpus; "
                       "per design HINTED(post-processed) vs REF(no hints, N explicit input registers) decided by the verified certificate checker; "
                       "non-trivial & distinct = distinct program text whose post-processed design contains registers and whose accepted "
                       "certificate has more than 3 product states")
    rep.cov["programs"] = len(ids)
    rep.cov["programs_built"] = len(built)
    rep.cov["programs_rejected_by_frontend_or_retiming"] = len(skipped)
    rep.cov["traces_validated_against_impl"] = tie_ok
    rep.cov["validated_strict_every_value_identical"] = sum(1 for i in built if verdict[i] == "strict")
    rep.cov["validated_refine_ref_to_hinted"] = sum(1 for i in built if verdict[i] == "refine")
    rep.cov["claim_every_cycle_validated"] = sum(1 for i in validated if M[i]["claim"] == "every-cycle")
    rep.cov["claim_from_fill_cycle_validated_with_warmup_mask"] = sum(1 for i in validated if M[i]["claim"] == "from-fill")
    rep.cov["certificates_failed"] = len(failing)
    rep.cov["certificates_rejected_by_checker"] = len(cert_rej)
    rep.cov["too_big"] = sum(1 for i in built if verdict[i] == "toobig")
    rep.cov["unsupported"] = sum(1 for i in built if verdict[i] == "unsupported")
    rep.cov["tie_mismatch"] = len(tie_bad)
    rep.cov["tie_unsupported"] = len(tie_uns)
    rep.cov["leftover_hint_nodes_after_postprocessing"] = len(leftovers)
    rep.cov["template_histogram"] = th
    rep.cov["template_verdict_histogram"] = vh
    rep.cov["feature_histogram_of_validated_designs"] = fh
    rep.cov["reported_stage_count_histogram_of_validated_designs"] = nh
    rep.cov["real_trace_cycles_identical_ref_vs_hinted"] = exact_cycles
    rep.cov["cert_seconds"] = round(t_cert, 1)
    rep.cov["budget_evaluations_per_certificate"] = budget
    smp = [i for i in validated if sum(info[i]["N"].values()) > 0][-2:] or validated[-1:]
    rep.cov["samples"] = [dict(design=prog[i], template=M[i]["template"], N=info[i]["N"], K=info[i]["K"],
                               cert=strict[i] if verdict[i] == "strict" else [strict[i], fwd[i]]) for i in smp]
    if skipped:
        rep.cov["skip_samples"] = [dict(design=prog[i], why=info[i]["skip"][:1]) for i in skipped[:2]]
    rep.assumptions += [
        "netlist semantics NetDefs.v/NodeSemDefs.v are a hand model of the reference simulator, tied by per-cycle trace comparison on every generated design (REF and HINTED)",
        "the reference design is built by the harness through the real frontend from the same program (hints removed, N plain registers per group input); N is what gatery reports",
        "from-fill claim: both designs carry an identical warm-up mask (saturating counter of enabled cycles, K = sum N + register depth of the region); what is certified is equality of the masked outputs",
        "regions whose state depends on the grouped inputs through data dependent enables, memories / read-port retiming, external nodes and holding circuits beyond the partial-enable template are not generated (DESIGN.md C06: partial)",
        "designs are sampled by the generator and limited to <= 5 input bits and a few register bits; the theorem closes the stimulus and cycle quantifiers for each validated pair",
    ]

    broken = []
    if not res["ok"]:
        broken.append("proof obligations failed: " + ", ".join(res["failed"]) + " | " + res["log"][-600:])
    if forb:
        broken.append("forbidden constructs: " + "; ".join(forb[:5]))
    if driver is None:
        broken.append("extracted model no longer builds: " + V.last_model_log[-600:])
    if tie_bad:
        broken.append(f"{len(tie_bad)} tie mismatches (model vs real simulator), first: {tie_bad[0][:300]}")
    if cert_rej:
        broken.append(f"{len(cert_rej)} certificates rejected by the verified checker, first: {cert_rej[0][:300]}")
    if errors:
        broken.append(f"driver errors: {errors[0][:300]}")
    if unconfirmed:
        k = next(iter(unconfirmed))
        broken.append(f"{len(unconfirmed)} model counterexamples not reproduced on the real simulator, first: {unconfirmed[k][0][:300]}")
    if len(skipped) > max(3, len(ids) // 5):
        broken.append(f"{len(skipped)} of {len(ids)} generated designs of the supported class were rejected by construction/retiming, first: "
                      f"{info[skipped[0]]['skip'][:1]} program {prog[skipped[0]]}")
    if leftovers:
        broken.append(f"{len(leftovers)} post-processed designs still contain live spawner / negative register / hint nodes, first: {prog[leftovers[0]]}")

    def known_tag(i):
        e = M[i]["expect"]
        if e.startswith("known:"):
            tag = e[len("known:"):]
            if any(k.split()[0] == tag for k in known):
                return tag
        return None

    kn = {}
    for i, (l, real, stim) in confirmed.items():
        tag = known_tag(i)
        if tag:
            kn.setdefault(tag, []).append((i, stim, real))
    for tag, lst in kn.items():
        i, stim, real = lst[0]
        rep.known(f"{tag} {len(lst)} generated design(s) of template {M[i]['template']}, e.g. {' / '.join(prog[i][1:])} stimulus {stim}: "
                  f"REF {real.get('ref_outputs')} HINTED {real.get('hinted_outputs')}")
    for i, (l, real, stim) in confirmed.items():
        if known_tag(i):
            continue
        if len(rep.violations) >= 6:
            continue
        rep.violation(dict(property=CID, kind="retimed design differs from the hint-free design with N explicit input registers "
                           "(found by the product BFS of the certificate, confirmed on the real simulator)",
                           template=M[i]["template"], claim=M[i]["claim"], expect=M[i]["expect"], program=prog[i], N=info[i]["N"], K=info[i]["K"],
                           stimulus=stim, real_simulator=real, model=l, broken=broken), tag="cex")
    for i, (d, stim) in direct.items():
        if i in confirmed or known_tag(i) or len(rep.violations) >= 6:
            continue
        rep.violation(dict(property=CID, kind="real simulator traces of REF and HINTED contradict each other", template=M[i]["template"],
                           program=prog[i], N=info[i]["N"], K=info[i]["K"], stimulus=stim, real_simulator=d, broken=broken), tag="diff")
    if broken and not rep.violations:
        rep.violation(dict(property=CID, kind="proof, tie or certificate broken; no failing input found", broken=broken), nofail=True, tag="tie")
    rep.finish()


if __name__ == "__main__":
    main()
