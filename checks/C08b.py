"""Circuit-level half of the C08 check (called by checks/C08.py).
Theorems C08_circuit / C08_concretisation (register netlists) and C08_circuit_with_memories /
C08_concretisation_with_memories (netlists with memories) say: for all circuits, schedules and
stimuli, a run and a more defined run never show opposite pin bits.  Here the REAL simulator is
run on generated designs (C01's generator: logic, mux chains, registers with resets/enables;
C07b's generator: memories with several ports) under a partially undefined stimulus and several
of its concretisations, before and after post-processing, and the never-contradict relation is
checked on the real traces (independent of the Coq model); the tie of the cycle semantics to the
simulator is C01's / C07's trace tie."""
import os, sys, json, random
sys.path.insert(0, os.path.join(os.path.dirname(os.path.abspath(__file__)), "..", "lib"))
import vcommon as V, circ, designgen as G, memgen


def with_id(lines, new_id):
    return ["design " + new_id] + lines[1:]


def run(rep):
    work = V.BUILD / "work" / "C08b"
    if work.exists():
        for f in work.glob("*"):
            if f.is_file(): f.unlink()
    work.mkdir(parents=True, exist_ok=True)
    harness = V.build_harness("C01_design")
    quick = rep.tier == "quick"
    n_logic, n_mem, ncon, cycles = (50, 30, 4, 8) if quick else (600, 300, 6, 12)
    rnd = random.Random(rep.seed * 7331 + 5)
    base = [G.gen_design(rep.seed * 100003 + 77 + i, f"l{i}")[0] for i in range(n_logic)]
    base += [memgen.gen_mem_design(rep.seed * 500009 + 99 + i, f"m{i}", fill_prob=0.6, exact_lookup=(i % 3 == 0)) for i in range(n_mem)]
    # designs with wide signals (64..400 bits; the simulator's whole-word code paths): lib/widegen.py
    import widegen
    n_wide = 20 if quick else 250
    base += [widegen.gen_wide_design(rep.seed * 300007 + 55 + i, f"w{i}")[0] for i in range(n_wide)]
    # 1) learn the input pins (names, widths) of every design from a run with one stimulus
    G.write_programs(work / "probe.txt", base)
    circ.run_harness(harness, str(work / "probe.txt"), str(work), "pre", nstim=1, cycles=1)
    designs, stims, groups = [], [], []
    for d in base:
        did = d[0].split()[1]
        tr = circ.parse_traces(work / f"{did}.pre.trace")
        if "SKIP" in tr or not tr: continue
        pins = next(iter(tr.values()))["pins_in"]
        if not pins: continue
        # abstract stimulus: every bit X with probability px (varied per design)
        px = rnd.choice([0.15, 0.3, 0.5])
        abstract = [["".join("X" if rnd.random() < px else rnd.choice("01") for _ in range(int(w))) for _, w in pins] for _ in range(cycles)]
        members = [(did + "_a", abstract)]
        for k in range(ncon):
            full = k < ncon - 1          # last one: partial refinement (some X stay)
            con = [["".join((rnd.choice("01") if (full or rnd.random() < 0.5) else "X") if ch == "X" else ch for ch in v) for v in cyc] for cyc in abstract]
            members.append((f"{did}_c{k}", con))
        for mid, st in members:
            designs.append(with_id(d, mid))
            stims.append(mid + " " + ";".join(",".join(v if v else "e" for v in cyc) for cyc in st))
        groups.append((d, [m for m, _ in members]))
    G.write_programs(work / "designs.txt", designs)
    open(work / "stim.txt", "w").write("\n".join(stims) + "\n")
    circ.run_harness(harness, str(work / "designs.txt"), str(work), "pre,def", replay_stim=str(work / "stim.txt"))
    pairs = bits_defined = 0; viol = []; skipped = 0
    for d, mids in groups:
        for v in ("pre", "def"):
            tr = {}
            for m in mids:
                t = circ.parse_traces(work / f"{m}.{v}.trace")
                tr[m] = t.get(f"{m}.{v} replay")
            a = tr[mids[0]]
            if a is None: skipped += 1; continue
            for m in mids[1:]:
                c = tr[m]
                if c is None: skipped += 1; continue
                pairs += 1
                for cy, ((ia, oa, _), (ic, oc, _)) in enumerate(zip(a["cycles"], c["cycles"])):
                    for k, (x, y) in enumerate(zip(oa, oc)):
                        bits_defined += sum(1 for ch in x if ch in "01")
                        bad = len(x) != len(y) or any(p in "01" and q in "01" and p != q for p, q in zip(x, y))
                        if bad and len(viol) < 5:
                            viol.append(dict(property="C08", kind="circuit-level: a pin bit reported as defined under the abstract stimulus has the opposite value under a more defined stimulus",
                                             variant=v, program=d, cycle=cy, pin=a["pins_out"][k][0], abstract_value=x, refined_value=y,
                                             abstract_stimulus=circ.stim_of(a), refined_stimulus=circ.stim_of(c)))
    rep.cov["circuit_level"] = dict(designs=len(groups), with_memories=sum(1 for d, _ in groups if any(l.startswith("mem ") for l in d)),
                                    with_wide_signals=sum(1 for d, _ in groups if d[0].split()[1].startswith("w")),
                                    abstract_vs_refined_run_pairs=pairs, defined_abstract_pin_bits_compared=bits_defined, variants="constructed and default post-processing",
                                    skipped_runs=skipped, refinements_per_design=ncon, cycles=cycles)
    for vv in viol:
        rep.violation(vv, tag="circuit")
    return len(viol)
