#!/usr/bin/env python3
"""C19 -- simulation processes run deterministically in the documented phase order.

Pipeline (AGENT_BRIEF.md): build gatery + harness from the current /repo tree, re-check the Coq
theorems (Properties_C19.v: phase rules, exact WaitFor, same-instant FIFO, WaitChange, determinism,
fiber hand-off mutual exclusion), extract the scheduler model (SimProcDefs.v), run seeded random
script sets as REAL coroutine simulation processes and as REAL fibers (harness/C19_proc.cpp) and
through the extracted model, diff the logs line by line.
Independent oracle (this file, knows only the documented phase rules, not the Coq model) is run
over every real log; in search mode (broken obligation / tie difference) over many more.
Thorough tier: the fiber mode additionally under ThreadSanitizer (supporting evidence only).
"""
import sys, os
sys.path.insert(0, os.path.join(os.path.dirname(os.path.abspath(__file__)), "..", "lib"))
import vcommon as V
import json, time, collections, hashlib, glob, random, re, itertools
from fractions import Fraction as Fr
from concurrent.futures import ThreadPoolExecutor

CID = "C19"
WORK = V.BUILD / "work" / CID
KNOWN_TAG = "cross-clock-before-fifo"
OFFSETS = collections.Counter()     # (state offset of PA's output, of the zero-width signal) as reported by the harness

# ----------------------------------------------------------------------------- generator
FREQ_PAIRS = [("1/1", "1/1"), ("1/1", "1/1"), ("2/1", "3/1"), ("3/1", "2/1"), ("1/1", "2/1"), ("2/1", "1/1"),
              ("3/2", "1/1"), ("1/1", "3/2"), ("2/3", "1/1"), ("4/3", "2/1"), ("1/2", "1/1"), ("2/1", "2/1")]
FREQ_SINGLE = ["1/1", "2/1", "3/1", "3/2", "2/3", "1/2"]
DURS = ["0/1", "0/1", "1/2", "1/3", "1/1", "2/3", "1/6", "3/2", "1/4", "2/1", "5/6", "1/1"]


def frac(fr):
    return f"{fr.numerator}/{fr.denominator}"


def gen_watch(rng):
    """ordered sensitivity list: signals 0 RA 1 RA2 2 RB 3 C 4 PA (first allocated, state offset 0) 5 Z (zero width) 6 C[3:0] 7 C[7:4];
    zero-width entry first / in the middle / alone, duplicates, different orders, empty list"""
    k = rng.random()
    if k < 0.05:
        return "H-"
    if k < 0.10:
        return "H5" if rng.random() < 0.5 else "H5.5"
    base = rng.sample([0, 1, 2, 3, 4, 4, 6, 7, 3], rng.randrange(1, 4))
    if k < 0.45:
        base.insert(rng.choice([0, 0, len(base), rng.randrange(len(base) + 1)]), 5)     # zero width, often FIRST
    if rng.random() < 0.3:
        base.insert(rng.randrange(len(base) + 1), rng.choice(base))                      # duplicate
    if rng.random() < 0.25:
        base = [5, 4] if rng.random() < 0.5 else [4, 5]                                  # the order pair of one observer set
    return "H" + ".".join(str(x) for x in base)


def gen_step(rng, two, nsubs, toplevel, sub_index, style, nextra=0, periods=()):
    r = rng.random()
    real = lambda: rng.choice("01") if two else rng.choice("0001")
    # clocks 2.. drive no clocked node (WaitClock takes the "clock not part of the simulation" branch)
    clk = lambda: (str(2 + rng.randrange(nextra)) if nextra and rng.random() < 0.45 else real())
    if style in ("offtick", "hop"):
        # waits issued from off-tick instants: after k/n of a period of some clock, or after a tick of another clock
        if r < (0.45 if style == "offtick" else 0.75):
            return "K" + clk() + rng.choice("BDA")
        if r < 0.70 and periods:
            per = rng.choice(periods)
            return "T" + frac(per * rng.choice([Fr(1, 4), Fr(2, 3), Fr(1, 2), Fr(1, 3), Fr(3, 4), Fr(5, 4), Fr(1, 1), Fr(1, 6)]))
    if style == "sync" and r < 0.55:
        return "K" + clk() + rng.choice("BBDDA")
    if r < 0.32:
        return "K" + clk() + rng.choice("BDA")
    if r < 0.46:
        return "T" + rng.choice(DURS)
    if r < 0.54:
        return gen_watch(rng)
    if r < 0.60:
        return "S"
    if r < 0.76:
        return "R" + str(rng.randrange(8))
    if r < 0.92:
        return "W" + str(rng.randrange(2)) + "=" + str(rng.randrange(256))
    if r < 0.97:
        lo = 0 if toplevel else sub_index + 1
        if lo < nsubs:
            return "F" + str(rng.randrange(lo, nsubs))
        return "R" + str(rng.randrange(4))
    if toplevel:
        return "J" + str(rng.randrange(3))
    return "W0=" + str(rng.randrange(256))


XMULT = [Fr(1), Fr(1), Fr(3, 4), Fr(1, 2), Fr(2), Fr(3, 2), Fr(2, 3), Fr(4, 3)]


def gen_case(rng, cid):
    two = rng.random() < 0.6
    style = rng.choice(["mixed", "mixed", "sync", "waitfor", "offtick", "offtick", "hop"])
    if two:
        fa, fb = rng.choice(FREQ_PAIRS)
    else:
        fa, fb = rng.choice(FREQ_SINGLE), "-"
    nprocs = rng.randrange(1, 5)
    nsubs = rng.randrange(0, 4)
    lines = [f"case {cid}", f"clk {fa} {fb}"]
    # clocks without clocked nodes: root (own frequency) or derived (multiplier); often the SAME tick times as a
    # clock that drives registers
    nextra = rng.choice([0, 1, 2, 2]) if style in ("offtick", "hop") else rng.choice([0, 0, 1, 2])
    freqs = [Fr(fa)] + ([Fr(fb)] if two else [])
    for _ in range(nextra):
        par = rng.randrange(len(freqs[:2])) if two else 0
        m = rng.choice(XMULT)
        if rng.random() < 0.5:
            lines.append(f"x {frac(freqs[par] * m)}")
        else:
            lines.append(f"y {par} {frac(m)}")
        freqs.append(freqs[par] * m)
    periods = tuple(1 / f for f in freqs)
    for _ in range(nprocs):
        n = rng.randrange(2, 9)
        st = [gen_step(rng, two, nsubs, True, 0, style, nextra, periods) for _ in range(n)]
        if style == "waitfor":
            st = [("T" + rng.choice(DURS)) if (s[0] == "K" and rng.random() < 0.6) else s for s in st]
        lines.append("p " + " ".join(st))
    for i in range(nsubs):
        n = rng.randrange(1, 5)
        lines.append("s " + " ".join(gen_step(rng, two, nsubs, False, i, style, nextra, periods) for _ in range(n)))
    fmax = max(Fr(fa), Fr(fb) if two else Fr(0))
    # keep the number of clock events bounded: about 8..14 half periods of the fastest clock, at least 2 s
    until = max(Fr(2), Fr(rng.randrange(4, 8)) / fmax)
    until = Fr(int(until * 2 + 1), 2)
    lines.append(f"until {until.numerator}/{until.denominator}")
    lines.append("end")
    return lines


def write_cases(path, cases):
    with open(path, "w") as f:
        for c in cases:
            f.write("\n".join(c) + "\n")


def read_casefile(path):
    cases, cur = [], None
    for line in open(path):
        line = line.strip()
        if not line or line.startswith("#"):
            continue
        if line.startswith("case "):
            cur = [line]
        elif cur is not None:
            cur.append(line)
            if line == "end":
                cases.append(cur); cur = None
    return cases


# ----------------------------------------------------------------------------- running both sides
def split_output(text):
    """-> {case id: [lines]} (without the 'case'/'end' lines)"""
    res, cur, cid = collections.OrderedDict(), None, None
    for line in text.splitlines():
        if line.startswith("case "):
            cid = line.split()[1]; cur = []
        elif line == "end" and cur is not None:
            res[cid] = cur; cur = None
        elif cur is not None:
            cur.append(line)
    return res


def run_real(exe, mode, casefile, tag, timeout=600, env=None):
    out = WORK / f"{tag}_{mode}_real.txt"
    if out.exists():
        out.unlink()
    rc, log = V.run([exe, mode, str(casefile), str(out)], timeout=timeout, env=env)
    if rc != 0 or not out.exists():
        return None, f"harness {mode} rc={rc}: {log[-800:]}", log
    txt = out.read_text()
    m = re.search(r"^# offsets pa=(-?\d+) z=(-?\d+)", txt, re.M)
    if m:
        OFFSETS[(int(m.group(1)), int(m.group(2)))] += 1
    return split_output(txt), None, log


def run_model(drv, mode, casefile, tb=""):
    rc, log = V.run([drv, mode, str(casefile)] + ([tb] if tb else []), timeout=900)
    if rc != 0:
        return None, f"model driver {mode} rc={rc}: {log[-800:]}"
    res = split_output(log)
    meta = {}
    for cid, lines in res.items():
        q = [l for l in lines if l.startswith("Q ")]
        ties, oof = (int(q[0].split()[1]), int(q[0].split()[2])) if q else (0, 1)
        meta[cid] = (ties, oof)
        res[cid] = [l for l in lines if not l.startswith("Q ")]
    return (res, meta), None


def canon(lines):
    """E lines of one instant are emitted in the order in which std::priority_queue yields equivalent
    clockValueChange events (not determined by Event::operator<); each carries only its own domain's
    registers, so adjacent E lines of the same time are sorted."""
    out, i = [], 0
    while i < len(lines):
        if lines[i].startswith("E "):
            j = i
            t = lines[i].split()[1]
            while j < len(lines) and lines[j].startswith("E ") and lines[j].split()[1] == t:
                j += 1
            out += sorted(lines[i:j]); i = j
        else:
            out.append(lines[i]); i += 1
    return out


def first_diff(a, b):
    for i, (x, y) in enumerate(zip(a, b)):
        if x != y:
            return i, x, y
    if len(a) != len(b):
        i = min(len(a), len(b))
        return i, (a[i] if i < len(a) else "<end of log>"), (b[i] if i < len(b) else "<end of log>")
    return None


# ----------------------------------------------------------------------------- independent oracle
def parse_val(s):
    return None if s in ("X", "-") else (s if s.startswith("b") else int(s))


def vxor(a, b):
    return None if a is None or b is None else a ^ b


def oracle(case, lines):
    """Reference for the documented rules on one REAL log.  Returns (violations, known, stats).
    Knows nothing about the Coq model: only
      R1 WaitClock resumes at the next tick k/f of the awaited clock (for a clock without clocked nodes: the least
         tick strictly after the suspension), in the requested phase; whatever runs in phase BEFORE/DURING of t runs
         before any clock flank of t is served;
         a process resumed by WaitClock(c, BEFORE|DURING) at t runs before the registers of c advance at t and
         reads the register values from before the edge; resumed by AFTER it runs afterwards and reads the new ones
      R2 what a register of clock c holds after the edge at t = the last value written to its pin before the edge,
         not counting writes made in phase DURING of that very instant (those are not captured)
      R3 WaitFor(q) suspended at t resumes at exactly t+q
      R4 processes resumed at the same (time, phase, micro tick) resume in the order in which they suspended
      R5 WaitChange resumes only if, after some evaluation since the suspension, a watched signal differed from its
         value at suspension, and then in phase AFTER of that instant
      R6 WaitStable resumes at the same time in read-only mode, in suspension order; a write there throws
      R7 the combinational output and the commit lines equal the function of pins/registers
    """
    two = None
    f = {}
    nx = 2
    for l in case:
        t = l.split()
        if t[0] == "clk":
            two = t[2] != "-"; f[0] = Fr(t[1]); f[1] = Fr(t[2]) if two else Fr(t[1])
        elif t[0] == "x":          # register-less root clock
            f[nx] = Fr(t[1]); nx += 1
        elif t[0] == "y":          # register-less clock derived from clock 0 / 1
            f[nx] = f[int(t[1]) if two else 0] * Fr(t[2]); nx += 1
    viol, known = [], []
    stats = collections.Counter()
    regs = {"RA": None, "RA2": None, "RB": None}
    pins = {0: None, 1: None}            # last written value
    pin_writes = {0: [], 1: []}          # (index, time, phase, value)
    c_eval = None
    pa_eval = None                       # output of pin PA as of the last evaluation

    def sigvals():
        lo = None if c_eval is None else (c_eval & 15)
        hi = None if c_eval is None else (c_eval >> 4)
        return [regs["RA"], regs["RA2"], regs["RB"], c_eval, pa_eval, 0, lo, hi]

    def wlist(what):
        return [] if what == "H-" else [int(x) for x in what[1:].split(".")]
    seg_owner = {}                       # pid -> dict(kind of last wake, clock, phase, time, index)
    susp = {}                            # pid -> (index, what, time, Vline)
    edge_at = {}                         # (clk, time) -> index of rising E line
    rising = {0: [], 1: []}
    for i, l in enumerate(lines):
        t = l.split()
        if t[0] == "E" and t[3] == "r":
            edge_at[(int(t[2]), Fr(t[1]))] = i
            rising[int(t[2])].append(i)
    groups = collections.OrderedDict()   # (time, ph, mt) -> [(wake index, susp index, pid, what)]
    commit_groups = collections.OrderedDict()
    last_v = {}
    err_expected = False
    flank_times = set()                  # times at which some clock flank (E line) has been served so far
    all_edges = [(j, Fr(x.split()[1])) for j, x in enumerate(lines) if x.startswith("E ")]
    for i, l in enumerate(lines):
        t = l.split()
        k = t[0]
        if k == "L":
            tm, ph, mt, ro, pid, what = Fr(t[1]), t[2], int(t[3]), t[4] == "1", int(t[5][1:]), t[6]
            arg = t[7] if len(t) > 7 else ""
            if ro:
                # the state is being committed: everything has been evaluated (powerOn evaluates after starting the processes
                # without an M line)
                c_eval = vxor(pins[0], regs["RA"]); pa_eval = pins[0]
            if ph in "BD" and tm in flank_times:
                viol.append(dict(rule=f"R1 a process acted in phase {ph} of time {tm} after a clock flank of that time had been served", line=i, text=l))
            if what == "susp":
                susp[pid] = dict(i=i, what=arg, t=tm, ph=ph, mt=mt, ro=ro)
                seg_owner.pop(pid, None)
            elif what == "end":
                seg_owner.pop(pid, None)
            elif what[0] == "J" and what.endswith(":wait"):
                susp[pid] = dict(i=i, what=what.split(":")[0], t=tm, ph=ph, mt=mt)
                seg_owner.pop(pid, None)
            elif what == "V":
                vals = [parse_val(x) for x in t[7:]]
                if pid in susp and susp[pid].get("wait_v"):
                    # V line after a wake H: what the process sees now (may equal the snapshot again after a glitch)
                    stats["waitchange_wakes"] += 1
                    if vals == susp[pid]["v"]:
                        stats["waitchange_wake_sees_snapshot_value_again"] += 1
                    susp.pop(pid)
                elif pid in susp:
                    susp[pid]["v"] = vals
            elif what == "wake":
                s = susp.get(pid)
                stats["wake_" + arg[0]] += 1
                if s is None or s["what"] != arg:
                    viol.append(dict(rule="wake without matching suspension", line=i, text=l)); continue
                if arg[0] == "K" and int(arg[1]) >= 2:
                    # WaitClock on a clock WITHOUT clocked nodes: an ordinary event at the next tick strictly after the
                    # suspension, (floor(t*f)+1)/f, in the requested phase
                    c = int(arg[1]); aph = arg[2]
                    stats["wake_Kx" + aph] += 1
                    expect = (int(s["t"] * f[c]) + 1) / f[c]
                    if (s["t"] * f[c]).denominator != 1:
                        stats["wake_Kx_issued_off_tick"] += 1
                    if tm != expect:
                        viol.append(dict(rule=f"R1 WaitClock on a register-less clock of frequency {f[c]} suspended at {s['t']} resumed at {tm}, "
                                              f"next tick is {expect}", line=i, text=l, expected=str(expect), observed=str(tm)))
                    if ph != aph:
                        viol.append(dict(rule=f"R1 process waiting for phase {aph} resumed in phase {ph}", line=i, text=l))
                    same_time = [j for (j, tt) in all_edges if tt == tm]
                    if same_time:
                        stats["wake_Kx_at_instant_with_register_clock_flank"] += 1
                    if aph == "A" and any(j > i for j in same_time):
                        viol.append(dict(rule="R1 AFTER-phase process (register-less clock) resumed before a clock flank of the same instant", line=i, text=l))
                    groups.setdefault((tm, ph, mt), []).append((i, s["i"], pid, arg))
                elif arg[0] == "K":
                    c = int(arg[1]) if two else 0
                    aph = arg[2]
                    stats["wake_K" + aph] += 1
                    if ph != aph:
                        viol.append(dict(rule=f"R1 process waiting for phase {aph} resumed in phase {ph}", line=i, text=l))
                    e = edge_at.get((c, tm))
                    # the next activation strictly later in time; or, for a process that suspended in phase BEFORE of an
                    # instant at which its clock also activates (it was resumed there by ANOTHER clock), that very instant
                    # if the simulator had not yet served the clock's trigger (order of coincident triggers: known finding)
                    nxt = min((tt for (cc, tt) in edge_at if cc == c and tt > s["t"]), default=None)
                    same = s["ph"] == "B" and tm == s["t"] and e is not None and e > s["i"]
                    if same:
                        stats["wake_same_instant_other_clock"] += 1
                    if (tm * f[c]).denominator != 1 or not (tm == nxt or same):
                        viol.append(dict(rule="R1 WaitClock did not resume at the next activation of its clock after the suspension", line=i, text=l))
                    if e is None:
                        viol.append(dict(rule="R1 no clock activation logged at the resume time", line=i, text=l))
                    elif aph in "BD" and not i < e:
                        viol.append(dict(rule=f"R1 {aph}-phase process resumed after the registers advanced", line=i, text=l))
                    elif aph == "A" and not e < i:
                        viol.append(dict(rule="R1 AFTER-phase process resumed before the registers advanced", line=i, text=l))
                    seg_owner[pid] = dict(c=c, ph=aph, t=tm, e=e)
                    groups.setdefault((tm, ph, mt), []).append((i, s["i"], pid, arg))
                elif arg[0] == "T":
                    q = Fr(arg[1:])
                    stats["waitfor_zero" if q == 0 else "waitfor_pos"] += 1
                    if tm != s["t"] + q:
                        viol.append(dict(rule=f"R3 WaitFor({q}) suspended at {s['t']} resumed at {tm}", line=i, text=l))
                    if ph != "A":
                        viol.append(dict(rule="R3 WaitFor resumed outside phase AFTER", line=i, text=l))
                    groups.setdefault((tm, ph, mt), []).append((i, s["i"], pid, arg))
                elif arg[0] == "H":
                    groups.setdefault((tm, ph, mt), []).append((i, s["i"], pid, arg))
                    # the simulator compares the watched signals with the snapshot after every reevaluation (M line)
                    if "fired" not in s:
                        viol.append(dict(rule="R5 WaitChange resumed although no watched signal differed from its value at suspension "
                                              "after any evaluation since", line=i, text=l, at_suspension=s.get("v")))
                    elif s["fired"][1] != tm or ph != "A":
                        viol.append(dict(rule="R5 WaitChange did not resume in phase AFTER of the instant at which the change was detected",
                                         line=i, text=l, detected=str(s["fired"])))
                    s["wait_v"] = True
                    continue   # keep susp entry until the V line
                elif arg[0] == "J":
                    pass   # resumed by the completion of the joined process (ready queue, not an event)
                elif arg[0] == "S":
                    # (a WaitStable issued while the state is being committed waits for the next commit)
                    if not ro or (tm != s["t"] and not s["ro"]) or tm < s["t"]:
                        viol.append(dict(rule="R6 WaitStable did not resume at the same time in read-only mode", line=i, text=l))
                    commit_groups.setdefault((tm, s["t"], len([1 for x in lines[:i] if x.startswith("C ")])), []).append((i, s["i"], pid, arg))
                susp.pop(pid, None)
            elif what.startswith("R"):
                sg, v = int(what[1]), parse_val(what.split("=")[1])
                exp = sigvals()[sg]
                stats["reads"] += 1
                own = seg_owner.get(pid)
                if own and own["e"] is not None and sg < 3:
                    stats["reads_in_phase_" + own["ph"]] += 1
                    if own["ph"] in "BD" and i > own["e"]:
                        viol.append(dict(rule=f"R1 read of a {own['ph']}-phase process happened after the edge", line=i, text=l))
                if v != exp:
                    viol.append(dict(rule="R1/R7 read value differs from the register/output value the rules give at this point",
                                     line=i, text=l, expected=exp, observed=v))
            elif what.startswith("W"):
                p, v = int(what[1]), int(what.split("=")[1])
                if ro:
                    err_expected = True
                    stats["write_in_readonly"] += 1
                else:
                    pins[p] = v
                    pin_writes[p].append((i, tm, ph, v))
                    stats["writes_" + ph] += 1
        elif k == "E":
            tm, c, edge = Fr(t[1]), int(t[2]), t[3]
            flank_times.add(tm)
            if edge != "r":
                continue
            stats["activations"] += 1

            def captured(p):
                for (wi, wt, wph, wv) in reversed(pin_writes[p]):
                    if wt == tm and wph == "D":
                        stats["during_writes_not_captured"] += 1
                        continue
                    return wv
                return None
            new = {}
            if c == 0:
                new["RA"] = captured(0); new["RA2"] = regs["RA"]
            if c == (1 if two else 0):
                new["RB"] = captured(1)
            obs = dict(RA=parse_val(t[4]), RA2=parse_val(t[5]), RB=parse_val(t[6]))
            for r, v in new.items():
                if obs[r] != v:
                    viol.append(dict(rule=f"R2 register {r} after the edge of clock {c} at {tm}: expected the last value written before the edge "
                                          f"(writes of phase DURING at {tm} excluded)", line=i, text=l, expected=v, observed=obs[r]))
                regs[r] = obs[r]
        elif k == "M":
            c_eval = vxor(pins[0], regs["RA"]); pa_eval = pins[0]
            cur = sigvals()
            for pid, s in susp.items():
                if s["what"][0] == "H" and "v" in s and "fired" not in s:
                    now = [cur[b] for b in wlist(s["what"])]
                    if now != s["v"]:
                        s["fired"] = (i, Fr(t[1]))
                        stats["watch_changes_detected"] += 1
                        if 5 in wlist(s["what"]):
                            stats["watch_changes_detected_list_with_zero_width"] += 1
                        if wlist(s["what"]) and wlist(s["what"])[0] == 5:
                            stats["watch_changes_detected_zero_width_first"] += 1
        elif k == "C":
            c_eval = vxor(pins[0], regs["RA"]); pa_eval = pins[0]
            obs = [parse_val(x) for x in t[2:6]]
            exp = [regs["RA"], regs["RA2"], regs["RB"], c_eval]
            stats["commits"] += 1
            if obs != exp:
                viol.append(dict(rule="R7 committed state differs from the state the rules give", line=i, text=l, expected=exp, observed=obs))
        elif k == "X":
            if not (err_expected and t[1] == "readonly"):
                viol.append(dict(rule="unexpected exception", line=i, text=l))
            err_expected = False
            stats["readonly_exception"] += 1
    if err_expected:
        viol.append(dict(rule="R6 write in read-only mode (after WaitStable) did not throw", line=len(lines), text=""))
    # R5 (completeness): a watched signal of width >= 1 changed, so the process has to be resumed at that instant,
    # whatever else is in its sensitivity list and in whichever order
    ended_by_exception = any(x.startswith("X ") for x in lines)
    for pid, s in susp.items():
        if s["what"][0] == "H" and "fired" in s and not s.get("wait_v") and not ended_by_exception:
            later = [x for x in lines[s["fired"][0] + 1:] if x.split()[0] in "LEMC" and Fr(x.split()[1]) > s["fired"][1]]
            if later:
                viol.append(dict(rule=f"R5 WaitChange over {s['what']} was NOT resumed although a watched signal changed "
                                      f"(snapshot {s.get('v')}) at time {s['fired'][1]}", line=s["fired"][0], text=lines[s["fired"][0]],
                                 suspended_at_line=s["i"]))
    # R4
    for key, g in groups.items():
        if len(g) > 1:
            stats["same_instant_groups"] += 1
            stats["same_instant_wakes"] += len(g)
        for (a, b) in zip(g, g[1:]):
            if not a[1] < b[1]:
                eff = lambda w: w[1] if (two or int(w[1]) >= 2) else "0"
                cross = key[1] == "B" and a[3][0] == "K" and b[3][0] == "K" and eff(a[3]) != eff(b[3])
                d = dict(rule="R4 same-instant FIFO: resumed in a different order than suspended", instant=[str(key[0]), key[1], key[2]],
                         first_resumed=f"p{a[2]} {a[3]} (suspended at line {a[1]})", then=f"p{b[2]} {b[3]} (suspended at line {b[1]})",
                         line=b[0], text=lines[b[0]])
                if cross:
                    d["known_tag"] = KNOWN_TAG
                    known.append(d)
                else:
                    viol.append(d)
    for key, g in commit_groups.items():
        for (a, b) in zip(g, g[1:]):
            if not a[1] < b[1]:
                viol.append(dict(rule="R6 WaitStable resumption order differs from suspension order", line=b[0], text=lines[b[0]]))
    return viol, known, stats


# ----------------------------------------------------------------------------- comparing
def classify(case, lines, stats_c):
    txt = " ".join(case)
    nproc = sum(1 for l in case if l.startswith("p "))
    stats_c["procs_%d" % nproc] += 1
    stats_c["two_clocks" if " -" not in [l for l in case if l.startswith("clk")][0][-2:] else "one_clock"] += 1
    for st in re.findall(r"\b([KTHSRWFJ])", txt):
        stats_c["step_" + st] += 1
    for ph in re.findall(r"\bK[01]([BDA])", txt):
        stats_c["waitclk_" + ph] += 1
    for ph in re.findall(r"\bK[2-9]([BDA])", txt):
        stats_c["waitclk_registerless_" + ph] += 1
    if any(l.startswith(("x ", "y ")) for l in case):
        stats_c["cases_with_registerless_clock"] += 1
    stats_c["registerless_root"] += sum(1 for l in case if l.startswith("x "))
    stats_c["registerless_derived"] += sum(1 for l in case if l.startswith("y "))


def nontrivial(lines):
    wakes = [l.split() for l in lines if l.startswith("L ") and " wake " in l]
    if not any(w[7][0] == "K" for w in wakes):
        return False
    inst = collections.Counter((w[1], w[2], w[3]) for w in wakes)
    return any(v >= 2 for v in inst.values())


def tie_search(drv, mode, case, real, maxbits):
    """the model leaves the order of equivalent clockPinTrigger events open: try every resolution"""
    tmp = WORK / f"tie_search_{mode}_{case[0].split()[1]}.txt"
    tried = 0
    for n in range(1, maxbits + 1):
        variants = []
        for bits in itertools.product("01", repeat=n):
            b = "".join(bits)
            if "1" not in b:
                continue
            c = [case[0].split()[0] + " " + case[0].split()[1] + "@" + b] + case[1:-1] + ["tb " + b, "end"]
            variants.append(c)
        write_cases(tmp, variants)
        r, err = run_model(drv, mode, tmp)
        if err:
            return None, tried
        res, _meta = r
        for cid, ml in res.items():
            tried += 1
            if canon(ml) == real:
                tmp.unlink()
                return cid.split("@")[1], tried
    return None, tried


def compare_batch(exe, drv, cases, tag, agg, do_fiber=True):
    """runs real (coro [+ fiber]) and model on the cases; fills agg; returns list of mismatches / oracle violations"""
    cf = WORK / f"{tag}_cases.txt"
    write_cases(cf, cases)
    bycid = {c[0].split()[1]: c for c in cases}
    mism, oviol, oknown, errors = [], [], [], []
    modes = ["coro", "fiber"] if do_fiber else ["coro"]
    with ThreadPoolExecutor(max_workers=4) as ex:
        fr = {m: ex.submit(run_real, exe, m, cf, tag) for m in modes}
        fm = {m: ex.submit(run_model, drv, m, cf) for m in modes} if drv else {}
        reals = {m: fr[m].result() for m in modes}
        models = {m: fm[m].result() for m in modes} if drv else {}
    for m in modes:
        real, err, _ = reals[m]
        if err:
            errors.append(err); continue
        model = None
        if drv:
            mr, merr = models[m]
            if merr:
                errors.append(merr)
            else:
                model, meta = mr
        for cid, case in bycid.items():
            rl = real.get(cid)
            if rl is None:
                errors.append(f"harness {m} produced no output for case {cid}"); continue
            agg["runs"] += 1
            agg["lines"] += len(rl)
            if any(l.startswith("X harness") for l in rl):
                errors.append(f"harness error in case {cid}: {[l for l in rl if l.startswith('X')][0][:300]}"); continue
            v, kn, st = oracle(case, rl)
            agg["oracle"].update(st)
            if m == "coro":
                classify(case, rl, agg["classes"])
                h = hashlib.sha1("\n".join(rl).encode()).hexdigest()
                if nontrivial(rl) and h not in agg["hash"]:
                    agg["hash"].add(h)
                if len(agg["samples"]) < 3 and nontrivial(rl):
                    agg["samples"].append(dict(case=case, mode=m, real_log_head=rl[:25], log_lines=len(rl)))
            for x in v:
                oviol.append(dict(case=case, mode=m, **x))
            for x in kn:
                oknown.append(dict(case=case, mode=m, **x))
            if model is not None:
                ml = model.get(cid)
                if ml is None:
                    mism.append(dict(case=case, mode=m, what="model produced no output")); continue
                ties, oof = meta[cid]
                agg["ties"] += ties
                if ties:
                    agg["classes"]["cases_with_trigger_tie"] += 1
                if oof:
                    errors.append(f"model ran out of fuel in case {cid}"); continue
                cr, cm = canon(rl), canon(ml)
                agg["compared_lines"] += len(cr)
                if cr != cm:
                    tb = None
                    if ties:
                        tb, tried = tie_search(drv, m, case, cr, min(ties + 2, 8))
                        agg["tie_search_runs"] += tried
                    if tb is not None:
                        agg["classes"]["matched_with_nondefault_tie_order"] += 1
                    else:
                        d = first_diff(cr, cm)
                        mism.append(dict(case=case, mode=m, line=d[0], observed=d[1], expected=d[2],
                                         context_real=cr[max(0, d[0] - 6):d[0] + 3], context_model=cm[max(0, d[0] - 6):d[0] + 3],
                                         trigger_ties=ties))
    for m in modes:
        f = WORK / f"{tag}_{m}_real.txt"
        if f.exists() and not mism and not oviol:
            f.unlink()
    if cf.exists() and not mism and not oviol:
        cf.unlink()
    return mism, oviol, oknown, errors


def new_agg():
    return dict(runs=0, lines=0, compared_lines=0, ties=0, tie_search_runs=0, oracle=collections.Counter(),
                classes=collections.Counter(), hash=set(), samples=[])


# ----------------------------------------------------------------------------- Event::operator< source guard
EXPECTED_CHAIN = [
    "if (hlim::clockMore(timeOfEvent, rhs.timeOfEvent)) return true;",
    "if (hlim::clockLess(timeOfEvent, rhs.timeOfEvent)) return false;",
    "if (timingPhase > rhs.timingPhase) return true;",
    "if (timingPhase < rhs.timingPhase) return false;",
    "if (microTick > rhs.microTick) return true;",
    "if (microTick < rhs.microTick) return false;",
    "if ((unsigned)type > (unsigned) rhs.type) return true;",
    "if ((unsigned)type < (unsigned)rhs.type) return false;",
    "if (type == Type::simProcResume)",
    "return evt<SimProcResumeEvt>().insertionId > rhs.evt<SimProcResumeEvt>().insertionId;",
    "return false;",
]


def source_guard():
    """The comparison chain of Event::operator< and the enum orders were transcribed by hand into
    SimProcDefs.ev_less / etype_idx / phase_idx.  Report when the source text no longer matches."""
    notes = []
    try:
        h = (V.REPO / "source/gatery/simulation/ReferenceSimulator.h").read_text()
        m = re.search(r"bool operator<\(const Event &rhs\) const \{(.*?)\n\t\}", h, re.S)
        body = [re.sub(r"\s*//.*$", "", l).strip() for l in m.group(1).splitlines()] if m else []
        body = [re.sub(r"\s+", " ", l) for l in body if l]
        exp = [re.sub(r"\s+", " ", l) for l in EXPECTED_CHAIN]
        if body != exp:
            notes.append("Event::operator< text differs from the transcribed chain")
        m = re.search(r"enum class Type \{(.*?)\}", h, re.S)
        if not m or [x.strip() for x in m.group(1).split(",") if x.strip()] != ["clockPinTrigger", "simProcResume", "clockValueChange", "resetValueChange"]:
            notes.append("Event::Type enum order differs")
        w = (V.REPO / "source/gatery/simulation/simProc/WaitClock.h").read_text()
        m = re.search(r"enum TimingPhase \{(.*?)\}", w, re.S)
        names = re.findall(r"^\s*([A-Z]+)\s*,", m.group(1), re.M) if m else []
        if names != ["BEFORE", "DURING", "AFTER"]:
            notes.append("WaitClock::TimingPhase enum order differs")
    except Exception as e:  # fail closed
        notes.append(f"source guard could not read the source: {e}")
    return notes


# ----------------------------------------------------------------------------- fixed probes
PROBE_FIFO = [
    ["case fifo_cross_a", "clk 1/1 1/1", "p K1B W0=1", "p K0B W0=2", "until 2/1", "end"],
    ["case fifo_cross_b", "clk 1/1 1/1", "p K0B W0=1", "p K1B W0=2", "until 2/1", "end"],
    ["case fifo_cross_c", "clk 2/1 3/1", "p T1/2 K1B W0=1 R0", "p T1/2 K0B W0=2 R0", "p K0B K0B R0", "until 3/1", "end"],
]


def main():
    t0 = time.time()
    tiername = V.tier()
    seed = V.seed()
    WORK.mkdir(parents=True, exist_ok=True)
    V.build_gatery()
    exe = V.build_harness("C19_proc")
    res = V.check_properties(CID)
    drv = V.build_model(CID)
    if "--build-only" in sys.argv:
        sys.exit(0)
    rep = V.Report(CID)
    rep.add_proof(res)
    known, _fixed = V.known_findings(CID)

    # ---------------- replay mode
    if "--replay" in sys.argv:
        rp = json.load(open(sys.argv[sys.argv.index("--replay") + 1]))
        case = rp.get("case")
        still = []
        if isinstance(case, list) and case and case[0].startswith("case"):
            agg = new_agg()
            mism, oviol, oknown, errors = compare_batch(exe, drv, [case], "replay", agg)
            still = oviol + mism + [dict(error=e) for e in errors]
            if rp.get("kind") == "known-finding-probe":
                still = oknown
        else:
            still.append("replay names no concrete case (theorem / build level failure): run the check itself")
        print(json.dumps(dict(replay=case, still_failing=bool(still), details=still[:2]), indent=1, default=str))
        sys.exit(1 if still else 0)

    agg = new_agg()
    mismatches, oracle_viol, oracle_known, errors = [], [], [], []

    # ---------------- corpus + probes first
    corpus_cases = []
    for cfn in sorted(glob.glob(str(V.VERIF / "corpus" / CID / "*.txt"))):
        corpus_cases += read_casefile(cfn)
    fixed = corpus_cases + PROBE_FIFO
    m, ov, ok, er = compare_batch(exe, drv, fixed, "corpus", agg)
    mismatches += m; oracle_viol += ov; oracle_known += ok; errors += er

    # ---------------- generated cases (tie)
    ncases = 400 if tiername == "quick" else 120000
    per_shard = 100 if tiername == "quick" else 2000
    workers = 4 if tiername == "quick" else 16
    rng = random.Random(seed * 7919 + 19)
    nshards = (ncases + per_shard - 1) // per_shard

    def shard_job(k):
        # cases are generated inside the job (one PRNG per shard, derived from the seed) to keep memory flat
        r = random.Random(seed * 7919 + 19 + 1000003 * k)
        sh = [gen_case(r, f"g{k}_{i}") for i in range(min(per_shard, ncases - k * per_shard))]
        a = new_agg()      # per shard, merged below (no shared counters between threads)
        return compare_batch(exe, drv, sh, f"{tiername}{k % (2 * workers)}_{k}", a) + (a,)

    with ThreadPoolExecutor(max_workers=workers) as ex:
        for (m, ov, ok, er, a) in ex.map(shard_job, range(nshards)):
            mismatches += m[:20]; oracle_viol += ov[:20]; oracle_known += ok[:20]; errors += er[:20]
            agg["known_total"] = agg.get("known_total", 0) + len(ok)
            for k_ in ("runs", "lines", "compared_lines", "ties", "tie_search_runs"):
                agg[k_] += a[k_]
            agg["oracle"].update(a["oracle"]); agg["classes"].update(a["classes"]); agg["hash"] |= a["hash"]
            agg["samples"] = (agg["samples"] + a["samples"])[:3]

    guard = source_guard()

    # ---------------- verdict
    tie_broken = bool(mismatches) or drv is None or not res["ok"] or bool(errors) or bool(guard)
    search_info = {}
    if tie_broken and not oracle_viol:
        # search mode: more of the real implementation against the independent oracle, starting from the
        # disagreeing cases (already checked above), then fresh cases; budget quick 60 s / thorough 10 min
        budget = 60 if tiername == "quick" else 600
        ts = time.time(); rounds = 0
        srng = random.Random(seed * 104729 + 7)
        while time.time() - ts < budget and not oracle_viol:
            batch = [gen_case(srng, f"s{rounds}_{i}") for i in range(150)]
            a2 = new_agg()
            _m, ov, ok, er = compare_batch(exe, None, batch, f"search{rounds % 4}", a2)
            oracle_viol += ov
            search_info["extra_cases"] = search_info.get("extra_cases", 0) + len(batch)
            rounds += 1
        search_info["rounds"] = rounds
        search_info["seconds"] = round(time.time() - ts, 1)

    def shrink(v):
        """greedy delta-debugging of the script set against the same oracle rule"""
        case = v["case"]; rule = v["rule"]; mode = v["mode"]
        def fails(c):
            a = new_agg()
            _m, ov, _k, er = compare_batch(exe, None, [c], "shrink", a, do_fiber=(mode == "fiber"))
            return any(x["rule"] == rule and x["mode"] == mode for x in ov)
        changed, budget = True, 60
        while changed and budget > 0:
            changed = False
            for li in range(len(case)):
                if not case[li].startswith(("p ", "s ")):
                    continue
                toks = case[li].split()
                for ti in range(1, len(toks)):
                    if toks[ti][0] == "F":
                        continue
                    c2 = case[:li] + [" ".join(toks[:ti] + toks[ti + 1:])] + case[li + 1:]
                    budget -= 1
                    if budget <= 0:
                        break
                    if fails(c2):
                        case = c2; changed = True; break
                if changed or budget <= 0:
                    break
        return case

    if oracle_viol:
        v = oracle_viol[0]
        small = shrink(v)
        a = new_agg()
        _m, ov2, _k, _e = compare_batch(exe, None, [small], "shrunk", a, do_fiber=(v["mode"] == "fiber"))
        v2 = next((x for x in ov2 if x["rule"] == v["rule"]), v)
        rep.violation(dict(property=CID, kind="phase-rule-oracle", case=small, mode=v2["mode"], rule=v2["rule"], log_line=v2.get("line"),
                           observed=v2.get("text"), expected=v2.get("expected", "see rule"), detail={k: v2[k] for k in v2 if k not in ("case",)},
                           n_violating_runs=len(oracle_viol), original_case=v["case"],
                           broke=("correspondence with the extracted Coq model also differs" if mismatches else "independent oracle on the real simulator"),
                           how_to_replay="checks/C19.py --replay <this file>"), tag="oracle")
    elif tie_broken:
        if mismatches:
            mm = mismatches[0]
            rep.violation(dict(property=CID, kind="tie-mismatch", case=mm["case"], mode=mm["mode"], line=mm.get("line"), observed=mm.get("observed"),
                               expected=mm.get("expected"), trigger_ties=mm.get("trigger_ties"), context_real=mm.get("context_real"), context_model=mm.get("context_model"),
                               n_mismatching_runs=len(mismatches),
                               what="the real ReferenceSimulator and the extracted Coq model (SimProcDefs.v) produce different logs for this script set; "
                                    "the theorems of Properties_C19.v no longer describe the implementation",
                               theorems_failed=res["failed"], model_extracts=drv is not None, source_guard=guard, search=search_info,
                               how_to_replay="checks/C19.py --replay <this file>"), nofail=True, tag="tie")
        elif not res["ok"]:
            rep.violation(dict(property=CID, kind="proof", failed=res["failed"], log=res["log"][-1500:],
                               what="theorems of Properties_C19.v no longer check", search=search_info), nofail=True, tag="proof")
        elif drv is None:
            rep.violation(dict(property=CID, kind="model", what="Extract_C19.v no longer compiles", log=V.last_model_log[-1500:], search=search_info), nofail=True, tag="model")
        elif guard:
            rep.violation(dict(property=CID, kind="source-guard", what=guard, search=search_info,
                               note="Event::operator< / enum order changed textually; SimProcDefs.ev_less is a hand transcription and must be re-read"), nofail=True, tag="guard")
        else:
            rep.violation(dict(property=CID, kind="harness", what="harness / driver run failed", errors=errors[:3], search=search_info), nofail=True, tag="harness")

    # known finding: cross-clock BEFORE-phase FIFO inversion (reported while it persists)
    if oracle_known:
        kf = next((k for k in known if k.startswith(KNOWN_TAG)), None)
        k0 = oracle_known[0]
        if kf:
            rep.known(kf)
        else:
            rep.violation(dict(property=CID, kind="known-finding-probe", case=k0["case"], mode=k0["mode"], rule=k0["rule"], detail={k: k0[k] for k in k0 if k != "case"},
                               what="processes waiting in phase BEFORE on two different clocks with coincident edges are resumed per clock pin, not in suspension order",
                               how_to_replay="checks/C19.py --replay <this file>"), tag="fifo")

    # ---------------- thorough: fiber mode under ThreadSanitizer (supporting evidence only)
    tsan = dict(ran=False)
    if tiername == "thorough" and not rep.violations:
        tsan = tsan_run(seed)

    # ---------------- evidence
    cov = rep.cov
    cov["evaluations"] = agg["runs"]
    cov["distinct_nontrivial"] = len(agg["hash"])
    cov["rule"] = ("a case = one script set (1-4 top-level processes, 0-3 fork targets, 2-8 steps each: WaitClock B/D/A on 1 or 2 clocks with "
                   "frequency pairs such as 1:1, 2:3, 1:2, 3:2; WaitFor with durations 0, 1/6 .. 2; WaitChange; WaitStable; reads; pin writes; fork; join) "
                   "run once as real coroutine processes and once as real fibers (evaluations counts both runs). non-trivial = the real log contains a "
                   "WaitClock resumption and an instant (time, phase, micro tick) at which at least two processes are resumed; distinct = distinct real "
                   "coroutine-mode logs (sha1). Every random choice derives from VERIF_SEED.")
    cov["samples"] = agg["samples"]
    cov["traces_validated_against_impl"] = agg["runs"] if drv else 0
    cov["log_lines_real"] = agg["lines"]
    cov["log_lines_compared"] = agg["compared_lines"]
    cov["tie_mismatching_runs"] = len(mismatches)
    cov["corpus_cases"] = len(corpus_cases)
    cov["case_classes"] = dict(sorted(agg["classes"].items()))
    cov["oracle_rule_hits"] = dict(sorted(agg["oracle"].items()))
    cov["trigger_tie_bits_consumed_by_model"] = agg["ties"]
    cov["tie_search_model_runs"] = agg["tie_search_runs"]
    cov["known_finding_occurrences"] = agg.get("known_total", 0) + len([k for k in oracle_known if k["case"][0].split()[1].startswith(("fifo_cross", "cross_clock"))])
    cov["state_offsets_pa_z"] = {f"pa={k[0]} z={k[1]}": v for k, v in OFFSETS.items()}
    cov["first_allocated_signal_is_watchable"] = bool(OFFSETS) and all(k[0] == 0 for k in OFFSETS)
    cov["source_guard"] = guard or "Event::operator< chain and enum orders match the transcription"
    cov["search_mode"] = search_info
    cov["thread_sanitizer"] = tsan
    cov["explanation"] = ("Theorems are universal over script sets, clock frequencies, tie-break streams and fuel (SimProcDefs.v) and over all "
                          "interleavings/spurious wake-ups of the two-thread hand-off protocol (FiberDefs.v). Sampled: the correspondence of "
                          "SimProcDefs.v with the real ReferenceSimulator on this one small circuit. Absence of data races under the real OS scheduler "
                          "is a runtime fact no model exhibits: the ThreadSanitizer run of the thorough tier is supporting evidence only "
                          "(gatery's static libraries are not TSan-instrumented, only the harness translation unit and inlined headers are).")
    rep.assumptions += [
        "SimProcDefs.v is a hand transcription of ReferenceSimulator.cpp (powerOn, advanceMicroTick, checkSignalWatches, handleCurrentTimeStep, commitState, "
        "advance, simulationProcessSuspending) and SimulationCoroutineHandler; agreement with the code is established by the sampled log diff only",
        "one fixed circuit (2 pins, 3 registers, 1 xor; no reset, no enable, trigger RISING); other node kinds, resets and derived clocks are C04's subject",
        "which of two equivalent clockPinTrigger events std::priority_queue yields first is not determined by Event::operator<; the model takes it from an "
        "explicit tie-break stream and the check accepts any resolution (KNOWN finding cross-clock-before-fifo is the observable consequence)",
        "FiberDefs.v models std::mutex / std::condition_variable abstractly (atomic wait = unlock+block, wake = re-acquire; spurious wake-ups allowed; "
        "notify on a condition variable nobody waits on is lost); std::thread creation/join and exceptions other than SimulationTerminated are not modelled",
        "WaitUntil (not implemented in gatery), the 'clock not part of the simulation' branch of WaitClock, abort(), simulation visualisations and "
        "boost::rational overflow are outside the model",
    ]
    cov["wall_tie_s"] = round(time.time() - t0, 1)
    rep.finish()


def tsan_run(seed):
    """fiber mode of the harness rebuilt with -fsanitize=thread into a differently named binary"""
    info = dict(ran=False)
    try:
        hd = V.BUILD / "harness"
        # same translation unit, differently named binary (an infrastructure failure here is not a violation:
        # V.build_harness would exit 2, so build failures are caught by building through a probe first)
        probe = V.run(["g++", "-fsanitize=thread", "-x", "c++", "-", "-o", "/dev/null"], input="int main(){}", timeout=120)
        if probe[0] != 0:
            info["skipped"] = "g++ -fsanitize=thread not usable here: " + probe[1][-300:]
            return info
        exe = V.build_harness("C19_proc_tsan", sources=["C19_proc.cpp"], extra_flags=["-fsanitize=thread", "-g"])
        rng = random.Random(seed * 31 + 5)
        cases = [gen_case(rng, f"t{i}") for i in range(120)]
        cf = WORK / "tsan_cases.txt"; write_cases(cf, cases)
        real, err, log = run_real(str(exe), "fiber", cf, "tsan", timeout=900,
                                  env={"TSAN_OPTIONS": "halt_on_error=0 report_signal_unsafe=0 second_deadlock_stack=1"})
        info["ran"] = True
        info["cases"] = len(cases)
        # the instrumented binary must produce the same logs as the normal one (sanity: it really ran the scripts)
        normal, nerr, _ = run_real(str(hd / "C19_proc"), "fiber", cf, "tsan_ref", timeout=900)
        if real is not None and normal is not None:
            info["logs_identical_to_uninstrumented_run"] = (real == normal)
            info["log_lines"] = sum(len(v) for v in real.values())
        info["reports"] = log.count("WARNING: ThreadSanitizer")
        info["first_report"] = (log[log.find("WARNING: ThreadSanitizer"):][:1500] if info["reports"] else "")
        info["note"] = ("supporting evidence only: libgatery_core.a / libgatery_scl.a are NOT TSan-instrumented (only the harness TU and header-inline "
                        "code are), so accesses inside the library are invisible to TSan; synchronisation through the uninstrumented std::mutex / "
                        "condition_variable calls made inside the library may also be invisible and produce false reports")
        if err:
            info["error"] = err
    except Exception as e:
        info["skipped"] = f"{e}"
    return info


if __name__ == "__main__":
    main()
