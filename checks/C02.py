#!/usr/bin/env python3
"""C02 - Exported VHDL behaves like the reference simulation.

TRANSLATION VALIDATION WITH A TRUSTED VHDL FRONT END (no VHDL simulator exists on this machine).

For every design program (lib/designgen.py shapes incl. areas / sub-entities, registers with
reset + enable, muxes, arithmetic, slices; hand-written ones in corpus/C02; wide-arithmetic ones)
harness/C02_export.cpp builds the design through the real frontend, runs design.postprocess(), calls
the real vhdl::VHDLExport (with the exporter's FileBasedTestbenchRecorder attached to a simulator
that is driven by a simulation process), dumps the circuit object the exporter serialised and
records real ReferenceSimulator traces.  Then two independent routes decide:

 route 1 (verified checker)   lib/C02_vhdl.py + C02_vhdl_lift.py parse and elaborate the VHDL text and
          lift it (symbolic execution, VHDL variable/signal semantics) to a netlist L in the dump format;
          the Coq-VERIFIED product-certificate checker (ProductCert.v, extracted driver of C01) decides
          `cert refine D L`:  for ALL stimuli and ALL cycles L never contradicts the dumped circuit D and
          is identical while D's run is free of undefined values (Properties_C02.v).  D and L are both
          tied to the real simulator's traces (`tie`).
 route 2 (interpreter, = search oracle)  lib/C02_vhdl_sim.py executes the VHDL text directly (9-valued
          IEEE 1164 tables, numeric_std conventions, delta cycles, persistent variables) and replays
          (a) every recorded trace: each DEFINED bit the real simulator showed must be reproduced in the
          same cycle, (b) the exporter's own testbench.testvectors (SET/CHECK/ADV/RST): every CHECK holds.

TRUSTED: the VHDL front end's reading of IEEE 1076 / 1164 / numeric_std (both routes share the
parser/elaborator; lifter and interpreter are separate).  On UNDEFINED values the lifted netlist is
evaluated with gatery's node semantics, so route 1 claims for the VHDL text only the two-valued
agreement and the never-contradict part; route 2 covers metavalues with VHDL's own rules but only on
the sampled stimuli.  Unsupported VHDL (memories = GenericMemoryEntity, tristate/inout, external
nodes, anything unparsed) is COUNTED as unsupported, never reported as pass.
"""
import sys, os, json, glob, hashlib, random, shutil, time, re
sys.path.insert(0, os.path.join(os.path.dirname(os.path.abspath(__file__)), "..", "lib"))
import vcommon as V, circ, designgen as G
import C02_vhdl as P, C02_vhdl_lift as L, C02_vhdl_sim as S

CID = "C02"
WORK = V.BUILD / "work" / CID
BUDGET = 4000000
MAX_CERT_IN_BITS = 7          # 3^7 input vectors per product state; wider designs: interpreter replay only
KNOWN_CASE = "mux-undefined-selector-case-others"
# EXACT undefined-read-address behaviour: the simulator merges the candidate words, the exported memory(to_integer(addr)) reads word 0
# (TO_INTEGER of a metavalue is 0): reported to main; generated only / tolerated only while KNOWN_FINDINGS.txt lists it
KNOWN_MEM_EXACT = "mem-exact-undefined-read-address"
# a register whose output signal is an OUT port of a sub-entity has no VHDL initial value ('U' until the first edge); honoured only if listed
KNOWN_REG_PORT = "reg-output-port-no-initial-value"
ALLOW_EXACT = False
# STD_LOGIC_VECTOR("X0" & "101"): concatenation of two bit-string literals as operand of a type conversion has no determinable type
# (reported to main); honoured only if KNOWN_FINDINGS.txt lists it
KNOWN_CAT_LIT = "concat-literals-in-slv-conversion"
KNOWN_SHIFT_LIT = "shift-literal-operand"     # honoured only if KNOWN_FINDINGS.txt lists it (reported to main, see corpus/*.pending)


# ---------------------------------------------------------------------------------------------
# design programs
# ---------------------------------------------------------------------------------------------
def load_corpus():
    ds = []
    for f in sorted(glob.glob(str(V.VERIF / "corpus" / CID / "*.prog"))):
        ds.append(([l.rstrip("\n") for l in open(f) if l.strip() and not l.startswith("#")], ["corpus"]))
    return ds


def gen_wide(seed, did):
    """arithmetic / slices / compares on wide operands (beyond the certificate's enumeration: interpreter only)"""
    rng = random.Random(seed)
    g = G.Gen(rng, max_in_bits=600, max_reg_bits=300)
    ws = [rng.choice([8, 16, 31, 32, 33, 63, 64, 65, 100, 128]) for _ in range(2)]
    outs = []
    for w in ws:
        g.new_in(w); g.new_in(w)
    g.new_inb()
    for k in range(rng.choice([3, 4, 5])):
        w = rng.choice(ws)
        t = rng.random()
        if t < 0.55:
            n = g.fresh("t")
            g.emit(f"bin {n} {rng.choice(['add', 'sub', 'mul', 'add', 'xor'])} {g.get_u(w)} {g.get_u(w)}")
            g.vars[n] = ('u', w)
        elif t < 0.7:
            n = g.fresh("b")
            g.emit(f"bin {n} {rng.choice(['eq', 'ne', 'lt', 'gt', 'le', 'ge'])} {g.get_u(w)} {g.get_u(w)}")
            g.vars[n] = ('b', 1)
        elif t < 0.8:
            n = g.fresh("t")
            g.emit(f"bin {n} {rng.choice(['shl', 'shr'])} {g.get_u(w)} {g.get_u(rng.choice([3, 5]))}")
            g.vars[n] = ('u', w)
        else:
            n = g.expr(w)
        outs.append(n)
    if rng.random() < 0.6:
        w = rng.choice(ws)
        q = g.fresh("r")
        g.emit(f"reg {q} {g.get_u(w)} rst {''.join(rng.choice('01') for _ in range(w))} en {g.get_b()}")
        g.vars[q] = ('u', w)
        outs.append(q)
    for k, v in enumerate(outs):
        g.emit(f"out o{k} {v}")
    return [f"design {did}"] + g.s, ["wide"]


def gen_edges(seed, did):
    """registers on different edges of ONE clock pin (derived clocks: falling / both edges, own reset name / kind / polarity),
    several such clocks in one area or entity, data crossing between the edges in both directions"""
    rng = random.Random(seed)
    L = [f"design {did}"]
    if rng.random() < 0.4:
        L.append(rng.choice(["clockcfg async high", "clockcfg sync low", "clockcfg async low", "clockcfg sync high falling"]))
    w = rng.choice([1, 2, 2, 3])
    L += [f"in a {w}", f"in b {w}", "inb en"]
    clocks = ["main"]
    for k in range(rng.choice([1, 1, 2, 3])):
        opts = [rng.choice(["falling", "falling", "both", "rising"])]
        if rng.random() < 0.5:
            opts += [rng.choice(["sync", "async", "none"]), rng.choice(["high", "low"])]
            if rng.random() < 0.6:
                opts += ["rst", f"rst{k}"]
        elif opts[0] == "rising":
            opts[0] = "falling"
        L.append(f"clockdef c{k} " + " ".join(opts))
        clocks.append(f"c{k}")
    vals = ["a", "b"]
    regs = []
    area = rng.random() < 0.6
    if area:
        L.append("area blk" + (" entity" if rng.random() < 0.5 else ""))
    for k in range(rng.choice([4, 5, 6, 8])):
        c = rng.choice(clocks)
        src = rng.choice(regs[-3:] + vals) if regs and rng.random() < 0.7 else rng.choice(vals)
        if rng.random() < 0.3 and len(vals) > 2:
            t = f"t{k}"
            L.append(f"bin {t} {rng.choice(['add', 'xor', 'and', 'sub'])} {src} {rng.choice(vals)}")
            src = t
        line = f"reg q{k} {src}"
        if rng.random() < 0.7:
            line += " rst " + "".join(rng.choice("01") for _ in range(w))
        if rng.random() < 0.3:
            line += " en en"
        if c != "main":
            L += [f"clk {c}", line, "endclk"]
        else:
            L.append(line)
        regs.append(f"q{k}")
        vals.append(f"q{k}")
        if area and k == 2 and rng.random() < 0.5:
            L.append("endarea")
            area = False
    if area:
        L.append("endarea")
    for k, r in enumerate(regs):
        L.append(f"out o{k} {r}")
    if rng.random() < 0.4:
        L.append("dropall")
    return L, ["edges"]


def mem_image(rng, depth, width, pattern):
    """power-on image as list of words (index = address), each a string over 0 1 X"""
    words = ["".join(rng.choice("01") for _ in range(width)) for _ in range(depth)]
    X = "X" * width
    if pattern == "hole_start":
        for i in range(rng.randrange(1, max(2, depth * 3 // 4))):
            words[i] = X
    elif pattern == "hole_middle":
        a = rng.randrange(1, max(2, depth - 1)); b = rng.randrange(a, depth)
        for i in range(a, min(b + 1, depth - 1)):
            words[i] = X
    elif pattern == "hole_end":
        for i in range(rng.randrange(1, depth), depth):
            words[i] = X
    elif pattern == "single_words":
        for i in rng.sample(range(depth), max(1, depth // 4)):
            words[i] = X
    elif pattern == "single_bits":
        for i in range(depth):
            if rng.random() < 0.5:
                k = rng.randrange(width)
                words[i] = words[i][:k] + "X" + words[i][k + 1:]
    elif pattern == "only_last":
        words = [X] * (depth - 1) + [words[-1]]
    elif pattern == "only_one":
        k = rng.randrange(depth)
        words = [X if i != k else words[i] for i in range(depth)]
    elif pattern == "sparse_start":     # first words undefined, later ones partially defined
        for i in range(max(1, depth // 2)):
            words[i] = X
        for i in range(depth // 2, depth):
            if rng.random() < 0.3 and width > 1:
                k = rng.randrange(width)
                words[i] = words[i][:k] + "X" + words[i][k + 1:]
    return words


MEM_PATTERNS = ["hole_start", "hole_start", "hole_middle", "hole_end", "single_words", "single_bits", "only_last", "only_one", "sparse_start", "full"]


def gen_mem(seed, did, pattern=None):
    """ROMs and RAMs exported through the generic memory entity with DECLARED power-on contents (partially defined images),
    widths 1..9, depths 2..32; every address is read: counter-driven read ports at fixed offsets sweep the whole memory, one
    more port is addressed by an input pin; optional write port (also on the falling edge), read latency register"""
    rng = random.Random(seed)
    depth = rng.choice([2, 4, 8, 16, 16, 32])
    width = rng.randrange(1, 10)
    aw = max(1, (depth - 1).bit_length())
    pattern = pattern or rng.choice(MEM_PATTERNS)
    words = mem_image(rng, depth, width, pattern)
    fill = "".join(reversed(words))
    ram = rng.random() < 0.5
    lat = rng.random() < 0.25
    opts = [f"fill={fill}"]
    if ALLOW_EXACT and rng.random() < 0.2:      # see KNOWN_MEM_EXACT
        opts.append("exact")
    if lat:
        opts.append("lat=1")
    if ram and rng.random() < 0.3:
        opts.append("noconf")
    L = [f"design {did}", f"in addr {aw}"]
    fall = ram and not lat and rng.random() < 0.3
    if fall:
        L.append("clockdef fclk falling")
    L.append(f"mem m {depth} {width} " + " ".join(opts))
    if ram:
        L += [f"in waddr {aw}", f"in d {width}", "inb we"]
        L += (["clk fclk"] if fall else []) + ["memwrite m waddr d we"] + (["endclk"] if fall else [])
    outs = []
    L.append("memread q m addr")
    outs.append("q")
    # address counter, reset to 0, +1 per cycle
    L += [f"loopvar c {aw}", f"lit one u{aw} {format(1, '0%db' % aw)}", "bin n add c one", f"reg cr n rst {'0' * aw}", "close c cr"]
    nports = max(1, -(-depth // 8))
    for j in range(nports):
        off = (j * 8) % depth
        if off == 0:
            a = "cr"
        else:
            L += [f"lit k{j} u{aw} {format(off, '0%db' % aw)}", f"bin a{j} add cr k{j}"]
            a = f"a{j}"
        L.append(f"memread s{j} m {a}")
        outs.append(f"s{j}")
    if lat:
        regd = []
        for o in outs:
            L.append(f"regb {o}_r {o}")
            regd.append(f"{o}_r")
        outs = regd
    for k, o in enumerate(outs):
        L.append(f"out o{k} {o}")
    return L, ["memory", "mem_" + pattern, "rom" if not ram else "ram"]


def gen_multiclk(seed, did):
    """2-3 clock PINS, mostly with colliding names (unnamed second root clock = "sysclk" again; multiplied / divided derived
    clock keeps its parent's name; each entity de-duplicates names in its own namespace: sysclk, sysclk_2, ...), registers and
    memories of the different clocks in different sub-entities - a sub-entity typically uses only a strict subset of the equally
    named clocks, sometimes nested one more level - so that every clock / reset port must be resolved through the chain of port
    maps to the right top-level pin.  The pins run at different frequencies (ratio <= 8), so a wrong binding changes values."""
    rng = random.Random(seed)
    L = [f"design {did}"]
    if rng.random() < 0.5:
        L.append(rng.choice(["clockcfg none high", "clockcfg async high", "clockcfg sync low", "clockcfg sync high"]))
    w = rng.choice([2, 2, 3])
    one = format(1, "0%db" % w)
    L.append(f"lit one u{w} {one}")
    extra = []
    factors = {"main": 8}     # frequency in units of 12.5 MHz (main = 100 MHz)
    for k in range(rng.choice([1, 1, 2])):
        name = f"c{k}"
        named = " name=" + rng.choice(["fastclk", "auxclk"]) + str(k) if rng.random() < 0.2 else ""
        kind = rng.random()
        if kind < 0.4:
            d = rng.choice([2, 4])
            opts = rng.choice(["", "", " none", " async high", " sync low", " rst rstx"])
            L.append(f"rootclock {name} div={d}{named}{opts}")
            factors[name] = 8 // d
        else:
            par = rng.choice(["main"] + [e for e in extra if factors[e] in (4, 8, 16)])
            cand = [("mult", m) for m in (2, 4) if 2 <= factors[par] * m <= 32] + [("div", m) for m in (2, 4) if factors[par] // m >= 2 and factors[par] % m == 0]
            op, m = rng.choice(cand)
            L.append(f"clockdef {name} from={par} {op}={m}{named}")
            factors[name] = factors[par] * m if op == "mult" else factors[par] // m
        extra.append(name)
        if max(factors.values()) // min(factors.values()) > 8:
            L.pop(); extra.pop(); del factors[name]
    if not extra:
        L.append("clockdef c0 mult=2"); extra.append("c0")
    n = [0]

    def fresh(p):
        n[0] += 1
        return f"{p}{n[0]}"

    def domain_logic(dom, depth=0):
        """registers of one clock domain (own input pins, a counter, a chain), outputs declared inside the scope"""
        a, en = fresh("a"), fresh("e")
        out = [f"in {a} {w}", f"inb {en}"]
        c, m, q = fresh("x"), fresh("t"), fresh("q")
        out += [f"loopvar {c} {w}", f"bin {m} add {c} one", f"reg {q} {m}" + (" rst " + "0" * w if rng.random() < 0.8 else "") + (f" en {en}" if rng.random() < 0.3 else ""), f"close {c} {q}"]
        vals = [a, q]
        for _ in range(rng.choice([1, 2, 3])):
            r = fresh("r")
            src = rng.choice(vals)
            if rng.random() < 0.3:
                t = fresh("t")
                out.append(f"bin {t} {rng.choice(['add', 'xor', 'sub'])} {src} {rng.choice(vals)}")
                src = t
            out.append(f"reg {r} {src}" + (" rst " + "".join(rng.choice("01") for _ in range(w)) if rng.random() < 0.6 else ""))
            vals.append(r)
        if rng.random() < 0.25:      # inferred memory clocked by this domain (its entity uses only this clock)
            mn, ra, rd = fresh("m"), fresh("a"), fresh("d")
            words = ["".join(rng.choice("01") for _ in range(w)) for _ in range(4)]
            out += [f"in {ra} 2", f"mem {mn} 4 {w} fill={''.join(reversed(words))}", f"memwrite {mn} {ra} {vals[-1]} {en}", f"memread {rd} {mn} {ra}", f"reg {rd}r {rd}"]
            vals.append(f"{rd}r")
        for v in vals[1:]:
            out.append(f"out o_{v} {v}")
        return out, vals

    # top level: the design clock is used here, so that it ranks first among the equally named clocks
    top, tvals = domain_logic("main")
    L += top
    for k, ck in enumerate(extra):
        shape = rng.random()
        body, vals = domain_logic(ck)
        if shape < 0.75:
            L.append(f"area sub{k} entity")
            L.append(f"clk {ck}")
            L += body
            if rng.random() < 0.4:      # one more level, same clock only
                inner, _ = domain_logic(ck)
                L += [f"area inner{k} entity"] + inner + ["endarea"]
            if rng.random() < 0.3:      # marked crossing from the design clock's domain into this one
                x, r = fresh("x"), fresh("r")
                L += [f"cdc {x} {tvals[-1]} main {ck}", f"reg {r} {x}", f"out o_{r} {r}"]
            L.append("endclk")
            if rng.random() < 0.3:      # the same entity also uses the design clock (all equally named clocks: names line up)
                more, _ = domain_logic("main")
                L += more
            L.append("endarea")
        else:                            # flat: registers of the second pin in the top entity, a sub-entity on the design clock only
            L.append(f"clk {ck}")
            L += body
            L.append("endclk")
            more, _ = domain_logic("main")
            L += [f"area subm{k} entity"] + more + ["endarea"]
    if len(extra) == 2 and rng.random() < 0.5:      # entity that uses only the LAST of three pins
        body, _ = domain_logic(extra[1])
        L += ["area last entity", f"clk {extra[1]}"] + body + ["endclk", "endarea"]
    return L, ["multiclk"]


LONG_HZ = [300000000, 333300000, 350000000, 700000000, 266000000, 77000000, 433000000]   # periods not a whole number of ps; frequencies whose rational times wrap uint64 in the recorder (C20 known finding recorder-rational-uint64-overflow, e.g. 133333333 Hz) are left out


def gen_longrun(seed, did, tier):
    """designgen shapes on a clock whose period is NOT a whole number of picoseconds, with a long recording (one SET/CHECK round per
    cycle shortly after the rising edge) for the exporter's test-bench recorder: the whole-picosecond ADV records must not drift
    against the test bench's own clock process"""
    rng = random.Random(seed)
    lines, used = G.gen_design(seed, did)
    n = rng.choice([1200, 1600, 2500]) if tier == "quick" else rng.choice([2000, 4000, 6000])
    tight = rng.random() < 0.6
    cfg = rng.choice(["sync high", "async high", "sync low", "none high"])
    head = [lines[0], f"clockcfg {cfg} hz={rng.choice(LONG_HZ)}", f"longrun {n}" + (" tight" if tight else "")]
    return head + lines[1:], used + ["longrun"]


def gen_all(seed, tier):
    ndes = 60 if tier == "quick" else 1500
    nwide = 8 if tier == "quick" else 150
    designs = []
    for i in range(ndes):
        lines, used = G.gen_design(seed * 100003 + i, f"g{i}")
        r = random.Random(seed * 7919 + i)
        k = r.random()
        if k < 0.45:   # vary reset kind / polarity (default: synchronous, active high)
            cfg = r.choice(["clockcfg async high", "clockcfg sync low", "clockcfg async low", "clockcfg sync high"])
            lines = [lines[0], cfg] + lines[1:]
            used = used + [cfg.replace(" ", "_")]
        designs.append((lines, used))
    for i in range(nwide):
        designs.append(gen_wide(seed * 300007 + i, f"w{i}"))
    for i in range(10 if tier == "quick" else 200):
        designs.append(gen_edges(seed * 500009 + i, f"e{i}"))
    for i in range(8 if tier == "quick" else 120):
        designs.append(gen_multiclk(seed * 900007 + i, f"k{i}"))
    for i in range(3 if tier == "quick" else 24):
        designs.append(gen_longrun(seed * 1100009 + i, f"t{i}", tier))
    nmem = 12 if tier == "quick" else 200
    for i in range(nmem):
        # quick: every image pattern at least once
        designs.append(gen_mem(seed * 700001 + i, f"m{i}", MEM_PATTERNS[i % len(MEM_PATTERNS)] if i < len(MEM_PATTERNS) else None))
    return designs


# ---------------------------------------------------------------------------------------------
# per-design analysis (python side)
# ---------------------------------------------------------------------------------------------
def coq_closure(root):
    import re
    seen, todo = set(), [root]
    while todo:
        n = todo.pop()
        f = V.COQ / "Gatery" / (n + ".v")
        if n in seen or not f.exists():
            continue
        seen.add(n)
        txt = re.sub(r"\(\*.*?\*\)", "", f.read_text(), flags=re.S)
        for m in re.finditer(r"From\s+Gatery\s+Require\s+(?:Import|Export)?\s*([^.]*)\.", txt):
            todo += m.group(1).split()
        for m in re.finditer(r"Require\s+(?:Import|Export)\s+Gatery\.(\w+)", txt):
            todo.append(m.group(1))
    return {n + ".v" for n in seen}


def vhdl_files(ddir):
    fl = ddir / "files.txt"
    if not fl.exists():
        return []
    return [str(ddir / l.strip()) for l in open(fl) if l.strip()]


def analyse(did, out, progl=()):
    """-> dict with the python-side results of one exported design"""
    r = dict(id=did, status="ok", lift=None, interp=None, mismatches=[], known=[], stats={})
    tr = circ.parse_traces(out / f"{did}.trace")
    if "SKIP" in tr:
        r["status"] = "skip"; r["reason"] = tr["SKIP"]
        return r
    files = vhdl_files(out / did)
    r["files"] = len(files)
    try:
        el = P.load(files)
    except P.Unsupported as ex:
        r["status"] = "unsupported"; r["reason"] = str(ex)
        return r
    except P.LiftError as ex:
        r["status"] = "lifterror"; r["reason"] = str(ex)
        return r
    r["instances"], r["blocks"], r["procs"] = el.n_instances, el.n_blocks, len(el.procs)
    htr = S.parse_htraces(out / f"{did}.htrace")
    mf = out / f"{did}.meta"
    meta = dict(x.split("=", 1) for x in mf.read_text().split()) if mf.exists() else {}
    r["meta"] = meta
    # classic = single clock pin, rising edge only, at most one reset pin: the certificate checker's circuit model
    r["classic"] = meta.get("classic", "1") == "1"
    nresets = len([x for x in meta.get("resets", "-").split(",") if x != "-"])
    r["in_bits"] = sum(int(w) for t in (list(tr.values()) + list(htr.values()))[:1] for _, w in t["pins_in"])
    # route 1: lift
    try:
        lf = L.Lifter(P.load(files))
        txt = lf.lift()
        (out / f"{did}.lift.net").write_text(txt)
        r["lift"] = "ok"; r["lift_stats"] = lf.stats
    except P.Unsupported as ex:
        r["lift"] = "unsupported"; r["lift_reason"] = str(ex)
    except P.LiftError as ex:
        r["lift"] = "error"; r["lift_reason"] = str(ex)
    # route 2: interpreter
    try:
        act = reset_polarity(el)
        todo = list(htr.items()) + [(k, t) for k, t in tr.items() if period_trace_usable(t, meta)]
        for tag, t in todo:
            m = S.replay_trace(el, t, reset_active=act, stats=r["stats"], meta=meta)
            if m:
                m["trace"] = tag
                key = classify_known(el, t, act, m, meta, progl)
                if key:
                    m["known_key"] = key
                    r["known"].append(m)
                else:
                    m["stimulus"] = ("H:" if "meta" in t else "") + circ.stim_of(t)
                    r["mismatches"].append(m)
        r["half_cycles"] = sum(len(t["cycles"]) for t in htr.values())
        tvf, tbf = out / did / "testbench.testvectors", out / did / "testbench.vhd"
        if tvf.exists() and tbf.exists():
            tv = S.replay_testvectors(el, tvf.read_text(), tbf.read_text())
            r["tv"] = dict(checks=tv["checks"], sets=tv["sets"], failed=tv["failed"], edges=tv["edges"], failed_known=0)
            tbt = out / f"{did}.tbtrace"
            if tbt.exists():
                tb_ = S.check_timebase(tbt.read_text(), tvf.read_text())
                r["timebase"] = tb_
            if tv["failed"]:
                key = classify_known_tv(el, tv, tvf.read_text(), tbf.read_text(), progl)
                if key:
                    r["tv"]["failed_known"] = len(tv["failed"])
                    r["tv"]["failed"] = []
                    if not any(k.get("known_key") == key for k in r["known"]):
                        r["known"].append(dict(tv["failed"][0], cycle="t=%dps" % tv["failed"][0]["time_ps"], inputs="(test vector replay)",
                                               trace="testvectors", known_key=key))
        r["interp"] = "ok"
    except P.Unsupported as ex:
        r["interp"] = "unsupported"; r["interp_reason"] = str(ex)
    except (P.LiftError, S.VhdlRuntimeError) as ex:
        r["interp"] = "error"; r["interp_reason"] = f"{type(ex).__name__}: {ex}"
    return r


def period_trace_usable(t, meta=None):
    """nd::runTrace logs clock and reset events without the pin's name: usable only for a single clock pin and reset pin"""
    if meta and len([x for x in meta.get("clkports", "-").split(",") if x != "-"]) > 1:
        return False
    return bool(t.get("cycles")) and sum(1 for e in t["cycles"][0][2] if e[0] == "R") <= 1


LISTED = set()       # keys of KNOWN_FINDINGS.txt lines for C02 (set in main)


def classify_known(el, t, act, m, meta, progl):
    """-> None (genuine) or the key of the recorded known finding that explains mismatch `m` of trace `t`.  Each class is
    accepted only if (a) its structural precondition holds and (b) the WHOLE trace replays without any mismatch once the
    interpreter removes exactly that one deviation from VHDL semantics (and nothing else):
      mux-undefined-selector-case-others   no defined bit contradicts; a CASE whose selector holds a metavalue merges its branches
      mem-exact-undefined-read-address     the design has an EXACT-mode memory; memory(to_integer(a)) with a metavalue in `a` yields
                                           the merge of the candidate words instead of word 0 (so: that sample's read address had an
                                           undefined bit, the VHDL value was word 0 and the simulator value is the merge)
      reg-output-port-no-initial-value     the design has a register assigned directly to an OUT port of a sub-entity; the mismatch
                                           lies before the first clock edge such a register reacts to, every differing VHDL bit is
                                           'U', and giving those registers the reset value of their reset branch as initial value
                                           reproduces the simulator (so: the simulator showed the reset value)"""
    def clean(**o):
        cm = o.pop("case_merge", False)
        return S.replay_trace(el, t, reset_active=act, case_merge=cm, meta=meta, opts=o) is None
    if KNOWN_CASE in LISTED and not m["contradiction"] and clean(case_merge=True):
        return KNOWN_CASE
    exact_mem = any(l.split()[0] == "mem" and "exact" in l.split()[4:] for l in progl if l.split())
    if KNOWN_MEM_EXACT in LISTED and exact_mem and not m["stimulus_fully_defined"]:
        if clean(mem_exact_merge=True):
            return KNOWN_MEM_EXACT
        if KNOWN_CASE in LISTED and clean(mem_exact_merge=True, case_merge=True):
            return KNOWN_MEM_EXACT
    if KNOWN_REG_PORT in LISTED and not m["contradiction"] and m.get("observed") and m.get("expected"):
        pr = S.Interp(el).port_regs
        if pr:
            kinds = {e for _, e in pr}
            trig = {"E"} if kinds == {"rising"} else {"e"} if kinds == {"falling"} else {"E", "e"}
            before_edge = not any(ev in trig for c in t["cycles"][:m["cycle"] + 1] for ev in c[2])
            only_u = all(o == "U" for e_, o in zip(m["expected"], m["observed"]) if e_ in "01" and S.to_x01(o) != e_)
            if before_edge and only_u and (clean(port_reg_init=True) or (KNOWN_CASE in LISTED and clean(port_reg_init=True, case_merge=True))):
                return KNOWN_REG_PORT
    return None


def classify_known_tv(el, tv, tv_text, tb_text, progl):
    """same for failed CHECKs of the exporter's test vectors -> key or None"""
    failed = tv["failed"]
    pess = all(S.std_match(S.to_x01(f["observed"]).replace("X", "-"), f["expected"]) for f in failed)

    def clean(**o):
        cm = o.pop("case_merge", False)
        return not S.replay_testvectors(el, tv_text, tb_text, case_merge=cm, opts=o)["failed"]
    if KNOWN_CASE in LISTED and pess and clean(case_merge=True):
        return KNOWN_CASE
    exact_mem = any(l.split()[0] == "mem" and "exact" in l.split()[4:] for l in progl if l.split())
    if KNOWN_MEM_EXACT in LISTED and exact_mem and (clean(mem_exact_merge=True) or clean(mem_exact_merge=True, case_merge=True)):
        return KNOWN_MEM_EXACT
    if KNOWN_REG_PORT in LISTED and pess and tv.get("port_regs"):
        kinds = {e for _, e in tv["port_regs"]}
        first = None
        for c, half in tv["clock_half_periods_ps"].items():
            init = tv["clock_init"].get(c, "1")
            # toggles at k*half; the first toggle is a falling edge iff the clock starts high
            t_first = {"falling": half if init == "1" else 2 * half, "rising": half if init != "1" else 2 * half}
            tt = min(t_first[k] for k in ("rising", "falling") if k in kinds or "both" in kinds)
            first = tt if first is None else min(first, tt)
        if first is not None and all(f["time_ps"] < first and "U" in f["observed"] for f in failed) and \
                (clean(port_reg_init=True) or clean(port_reg_init=True, case_merge=True)):
            return KNOWN_REG_PORT
    return None


def reset_polarity(el):
    try:
        _, rst = S.find_clock_reset(el)
        for v in rst.values():
            return v
    except (P.Unsupported, P.LiftError):
        pass
    return "1"


def excerpt(out, did, needle=None, n=60):
    """VHDL excerpt for a replay file"""
    txt = ""
    for f in vhdl_files(out / did):
        t = open(f, errors="replace").read()
        i = t.find("ENTITY top")
        txt += t[i if i >= 0 else 0:]
    lines = txt.splitlines()
    if needle:
        for k, l in enumerate(lines):
            if needle in l:
                return lines[max(0, k - n // 2): k + n // 2]
    return lines[:n]


# ---------------------------------------------------------------------------------------------
def main():
    rep = V.Report(CID, "translation_validation")
    V.build_gatery()
    harness = V.build_harness("C02_export")
    driver = V.build_model("C01", name="C01")
    if "--build-only" in sys.argv:
        sys.exit(0)
    res = V.check_properties(CID)
    rep.add_proof(res)
    # forbidden constructs (Admitted/admit/Axiom...) in the files Properties_C02.v transitively depends on; an admitted
    # lemma anywhere in that closure would additionally show up under Print Assumptions
    forb = [h for h in V.scan_forbidden() if h.split(":")[0] in coq_closure("Properties_C02")]
    known, _ = V.known_findings(CID)
    known_case_listed = any(k.startswith(KNOWN_CASE) for k in known)
    global ALLOW_EXACT
    ALLOW_EXACT = any(k.startswith(KNOWN_MEM_EXACT) for k in known)
    for key in (KNOWN_CASE, KNOWN_MEM_EXACT, KNOWN_REG_PORT):
        if any(k.startswith(key) for k in known):
            LISTED.add(key)
    known_shift_lit_listed = any(k.startswith(KNOWN_SHIFT_LIT) for k in known)
    known_shift_lit = []
    known_cat_lit = []

    designs = load_corpus()
    replay_stim = None
    if "--replay" in sys.argv:
        r = json.loads(open(sys.argv[sys.argv.index("--replay") + 1]).read())
        if "program" in r:
            designs = [(r["program"], ["replay"])]
            if r.get("stimulus"):
                replay_stim = r["stimulus"]
        else:
            designs += gen_all(rep.seed, rep.tier)
    else:
        designs += gen_all(rep.seed, rep.tier)
    ids = [d[0][0].split()[1] for d in designs]
    prog = {i: d[0] for i, d in zip(ids, designs)}
    used = {i: d[1] for i, d in zip(ids, designs)}

    modes = ["single"] if rep.tier == "quick" else ["single", "entity", "partition"]
    results = {}          # (mode, id) -> analysis
    lines, lines_l = [], []
    t_h = time.time()
    for mode in modes:
        out = WORK / ("run_" + mode)
        if out.exists():
            shutil.rmtree(out)
        out.mkdir(parents=True)
        G.write_programs(out / "designs.txt", [d[0] for d in designs])
        if replay_stim is not None:
            (out / "stim.txt").write_text(f"{ids[0]} {replay_stim}\n")
            rc, o = V.run([harness, "replay", str(out / "designs.txt"), str(out / "stim.txt"), "0", str(out), mode], timeout=3000,
                          env={"VERIF_SEED": str(rep.seed)})
        else:
            rc, o = V.run([harness, "run", str(out / "designs.txt"), "3", "12", str(out), mode], timeout=3000,
                          env={"VERIF_SEED": str(rep.seed)})
        if rc != 0:
            V.infra_error(f"export harness failed rc={rc}: {o[-2000:]}")
        for i in ids:
            results[(mode, i)] = analyse(i, out, prog[i])
        # verified checker + ties
        cmds, cmds_l = [], []
        for i in ids:
            a = results[(mode, i)]
            if a["status"] != "ok":
                continue
            if not a["classic"]:
                a["cert"] = "not_classic"      # mixed / falling / both edges or several reset pins: interpreter route only
                continue
            cmds.append(f"tie {out}/{i}.net {out}/{i}.trace")
            if a["lift"] == "ok":
                cmds_l.append(f"tie {out}/{i}.lift.net {out}/{i}.trace")
                if a["in_bits"] <= MAX_CERT_IN_BITS:
                    cmds.append(f"cert refine {out}/{i}.net {out}/{i}.lift.net {out}/{i}.trace {BUDGET}")
                else:
                    a["cert"] = "too_big"
        if driver and cmds:
            lines += [(mode, l) for l in circ.run_driver(driver, cmds, str(WORK / ("batch_" + mode)))]
            lines_l += [(mode, l) for l in circ.run_driver(driver, cmds_l, str(WORK / ("batchl_" + mode)))]
    t_h = time.time() - t_h

    # ---- collect driver verdicts -------------------------------------------------------------
    tie_ok = tie_bad = 0
    tie_bad_l, tie_uns, cert_ok, cert_fail, cert_rej, cert_big, cert_uns, errors = [], [], [], [], [], [], [], []
    for mode, l in lines:
        if l.startswith("TIE"):
            if " ok " in l:
                tie_ok += 1
            elif "MISMATCH" in l:
                tie_bad_l.append((mode, l))
            else:
                tie_uns.append((mode, l))
        elif l.startswith("CERT"):
            did = l.split()[1][:-4]
            a = results.get((mode, did))
            tgt = cert_ok if " OK " in l else cert_fail if " FAIL " in l else cert_rej if " REJECTED " in l else \
                cert_big if " TOOBIG " in l else cert_uns
            tgt.append((mode, did, l))
            if a is not None:
                a["cert"] = "ok" if tgt is cert_ok else "fail" if tgt is cert_fail else "rejected" if tgt is cert_rej else \
                    "too_big" if tgt is cert_big else "unsupported"
        elif l.startswith("ERROR"):
            errors.append((mode, l))

    # ties of the LIFTED netlists: informative only (the lifted circuit may legitimately be more or less defined than the
    # simulator where undefined values are involved); a contradiction of two defined bits is reported as broken
    lift_tie_ok = lift_tie_xdiff = 0
    lift_tie_contra = []
    for mode, l in lines_l:
        if l.startswith("TIE") and " ok " in l:
            lift_tie_ok += 1
        elif l.startswith("TIE") and "MISMATCH" in l:
            mo = [x for x in l.split() if x.startswith("model=")][0][6:]
            im = [x for x in l.split() if x.startswith("impl=")][0][5:]
            if any(a in "01" and b in "01" and a != b for a, b in zip(mo, im)):
                lift_tie_contra.append((mode, l))
            else:
                lift_tie_xdiff += 1
        elif l.startswith("ERROR"):
            errors.append((mode, l))

    # ---- follow up every disagreement ----------------------------------------------------------
    violations, knowns, broken = [], [], []
    disagreements = 0

    def rerun(mode, did, stim=None, nstim=0, cycles=0, sub="follow"):
        d = WORK / sub
        if d.exists():
            shutil.rmtree(d)
        d.mkdir(parents=True)
        G.write_programs(d / "designs.txt", [prog[did]])
        if stim is not None:
            (d / "stim.txt").write_text(f"{did} {stim}\n")
            cmd = [harness, "replay", str(d / "designs.txt"), str(d / "stim.txt"), "0", str(d), mode]
        else:
            cmd = [harness, "run", str(d / "designs.txt"), str(nstim), str(cycles), str(d), mode]
        V.run(cmd, timeout=3000, env={"VERIF_SEED": str(rep.seed)})
        return d

    def interp_traces(d, did):
        """replay all traces of a follow-up run in the interpreter -> first genuine mismatch or None"""
        el = P.load(vhdl_files(d / did))
        act = reset_polarity(el)
        mf = d / f"{did}.meta"
        meta = dict(x.split("=", 1) for x in mf.read_text().split()) if mf.exists() else {}
        nres = len([x for x in meta.get("resets", "-").split(",") if x != "-"]) if mf.exists() else 1
        todo = list(S.parse_htraces(d / f"{did}.htrace").items()) + [(k, t) for k, t in circ.parse_traces(d / f"{did}.trace").items() if k != "SKIP" and period_trace_usable(t, meta)]
        for tag, t in todo:
            if tag == "SKIP":
                continue
            m = S.replay_trace(el, t, reset_active=act, meta=meta)
            if m:
                if classify_known(el, t, act, m, meta, prog[did]):
                    continue
                m["trace"] = tag
                m["stimulus"] = ("H:" if "meta" in t else "") + circ.stim_of(t)
                return m
        return None

    # (1) certificate counterexamples: replay the stimulus on the real simulator and in the VHDL interpreter
    for mode, did, l in cert_fail[:8]:
        disagreements += 1
        stim = [x for x in l.split() if x.startswith("stimulus=")]
        if not stim:
            violations.append(dict(kind="certificate failed: pin lists of the dumped circuit and the VHDL entity differ", design=did, mode=mode,
                                   program=prog[did], checker=l, vhdl=excerpt(WORK / ("run_" + mode), did)))
            continue
        stim = stim[0][len("stimulus="):]
        try:
            d = rerun(mode, did, stim=stim)
            m = interp_traces(d, did)
        except Exception as ex:   # front end failed on the follow-up
            m = None
            broken.append(f"follow-up of certificate counterexample for {did} failed: {ex}")
        if m:
            violations.append(dict(kind="exported VHDL differs from the reference simulation (found by the verified product search, "
                                        "confirmed on the real simulator and by the VHDL interpreter)", design=did, mode=mode, program=prog[did],
                                   stimulus=stim, failing=m, checker=l, vhdl=excerpt(d, did, m["pin"])))
        else:
            # the lifted netlist differs from the dump but the interpreter reproduces the real trace under that stimulus
            violations.append(dict(kind="verified checker: netlist lifted from the VHDL differs from the dumped circuit", design=did, mode=mode,
                                   program=prog[did], stimulus=stim, checker=l, note="VHDL interpreter reproduced the real simulator's "
                                   "defined values under this stimulus: either an undefined-value difference (lifted netlist uses gatery X "
                                   "semantics) or the two front-end routes disagree", vhdl=excerpt(WORK / ("run_" + mode), did), nofail=True))
    # (2) interpreter mismatches on the recorded traces / test vectors
    for (mode, did), a in results.items():
        for m in a["mismatches"][:1]:
            disagreements += 1
            violations.append(dict(kind="exported VHDL does not reproduce a defined output value of the reference simulator (VHDL interpreter replay of a real trace)",
                                   design=did, mode=mode, program=prog[did], stimulus=m.get("stimulus"), failing=m,
                                   vhdl=excerpt(WORK / ("run_" + mode), did, m["pin"])))
        for key in dict.fromkeys(m.get("known_key") for m in a["known"]):
            disagreements += 1
            knowns.append((did, mode, next(m for m in a["known"] if m.get("known_key") == key)))
        tbi = a.get("timebase")
        if tbi and tbi["first_bad"] and "round" in tbi["first_bad"]:
            disagreements += 1
            violations.append(dict(kind="time base of the exporter's recorded testbench.testvectors drifts: the accumulated ADV time of a SET/CHECK round "
                                        "leaves the interval [simulator time - 1 ps, next simulator event], so the stimulus process of the exported test bench "
                                        "slides against its clock process", design=did, mode=mode, program=prog[did], failing=tbi["first_bad"],
                                   failed_checks=(a.get("tv") or {}).get("failed", [])[:2], vhdl=excerpt(WORK / ("run_" + mode), did, n=10)))
            continue
        tv = a.get("tv")
        if tv and tv["failed"] and not a["mismatches"]:
            disagreements += 1
            violations.append(dict(kind="a CHECK of the exporter's recorded testbench.testvectors fails on the exported VHDL (VHDL interpreter) although the "
                                        "trace replay agrees: test-bench recorder or export", design=did, mode=mode, program=prog[did], failing=tv["failed"],
                                   vhdl=excerpt(WORK / ("run_" + mode), did, tv["failed"][0]["pin"])))
    # (3) VHDL inside the subset that breaks an invariant (variable read before assignment, latch, type/width clash):
    #     search for a concrete failing input with the interpreter under many more stimuli
    for (mode, did), a in results.items():
        reason = None
        if a["status"] == "lifterror":
            reason = a["reason"]
        elif a.get("lift") == "error":
            reason = a["lift_reason"]
        elif a.get("interp") == "error":
            reason = a["interp_reason"]
        if reason is None or any(v.get("design") == did for v in violations):
            continue
        disagreements += 1
        if any(k.startswith(KNOWN_CAT_LIT) for k in known) and "type conversion std_logic_vector(..) applied to str" in reason and \
                any(re.search(r'STD_LOGIC_VECTOR\("[01xX]*" & ', l) for f in vhdl_files(WORK / ("run_" + mode) / did) for l in open(f, errors="replace")):
            known_cat_lit.append((did, mode))
            continue
        mo = re.search(r"register (\S+) has reset value \S+ but no initial value", reason)
        if mo and KNOWN_REG_PORT in LISTED and a.get("lift") == "error" and a.get("interp") == "ok":
            # the lifter's structural view of the known finding: accepted only for registers assigned directly to a sub-entity OUT port
            try:
                el_ = P.load(vhdl_files(WORK / ("run_" + mode) / did))
                names = {el_.nets[i].name for i, _ in S.Interp(el_).port_regs}
            except (P.Unsupported, P.LiftError):
                names = set()
            if mo.group(1) in names:
                if not any(k[0] == did and k[1] == mode and k[2].get("known_key") == KNOWN_REG_PORT for k in knowns):
                    knowns.append((did, mode, dict(known_key=KNOWN_REG_PORT, cycle=0, pin=mo.group(1), expected="reset value", observed="U (no initial value)", inputs="(lifter)")))
                continue
        if known_shift_lit_listed and ("shift_left on slv" in reason or "shift_right on slv" in reason) and \
                any(("SHIFT_LEFT(\"" in l or "SHIFT_RIGHT(\"" in l) for f in vhdl_files(WORK / ("run_" + mode) / did) for l in open(f, errors="replace")):
            known_shift_lit.append((did, mode))
            continue
        found = None
        if len([v for v in violations if v.get("searched")]) < 4:
            try:
                d = rerun(mode, did, nstim=30 if rep.tier == "quick" else 300, cycles=16, sub="search")
                found = interp_traces(d, did)
            except Exception as ex:
                found = None
                reason += f" | interpreter during search: {type(ex).__name__}: {ex}"
        if found:
            violations.append(dict(kind="exported VHDL is ill-formed for its own semantics AND differs from the reference simulation", design=did, mode=mode,
                                   program=prog[did], front_end=reason, stimulus=found.get("stimulus"), failing=found, searched=True,
                                   vhdl=excerpt(WORK / "search", did, found["pin"])))
        else:
            violations.append(dict(kind="exported VHDL violates an invariant of the supported subset; no failing input found by the interpreter", design=did,
                                   mode=mode, program=prog[did], front_end=reason, searched=True, nofail=True,
                                   vhdl=excerpt(WORK / ("run_" + mode), did)))

    # ---- evidence ---------------------------------------------------------------------------------
    allr = list(results.values())
    exported = [a for a in allr if a["status"] != "skip"]
    rep.cov["programs"] = len({a["id"] for a in exported})
    rep.cov["exports"] = len(exported)
    rep.cov["disagreements_checked"] = disagreements
    rep.cov["evaluations"] = len(exported)
    nontrivial = set()
    for (mode, did), a in results.items():
        st = a.get("lift_stats") or {}
        if a.get("cert") == "ok" and (st.get("regs", 0) + st.get("mux", 0) + st.get("muxn", 0) + st.get("arith", 0) + st.get("cmp", 0) + st.get("shift", 0)) > 0:
            fs = vhdl_files(WORK / ("run_" + mode) / did)
            h = hashlib.sha1("".join(open(f, errors="replace").read().split("ENTITY top")[-1] for f in fs).encode()).hexdigest()
            nontrivial.add(h)
    rep.cov["distinct_nontrivial"] = len(nontrivial)
    rep.cov["rule"] = ("design programs: corpus/C02 (hand-written: async/sync x high/low reset, registers / memory ports on rising+falling+both edges of one clock pin with data crossing between the edges, several reset pins, nested entities and areas, wide arithmetic, non-total mux, "
                       "memories incl. ROM/RAM 16x8 with words 0..5 undefined, tristate, falling edge, X-selector mux) + seeded lib/designgen.py shapes (if/elif chains, mux chains/merges, registers with "
                       "reset+enable, hold loops, constant folding, areas/entities, slices, shifts, arithmetic), ~45% with a random reset kind/polarity, "
                       "+ wide-operand programs (8..128 bit; interpreter route only) + mixed-edge programs (derived clocks on one pin: falling / both edges, own reset names/kinds/polarities, cross-edge data paths; interpreter route only) + multi-clock-pin programs (2-3 pins of different frequency with colliding names, per-clock sub-entities; interpreter route only) + long-recording programs (designgen shapes on clocks with non-integral-ps periods, 1200-6000 recorded cycles) + memory programs (ROM/RAM, declared partially defined power-on images, full address sweeps; interpreter route only).  Each is built, post-processed and exported by the real library. "
                       "non-trivial = distinct exported top-entity text whose lifted netlist contains at least one register / mux / arithmetic / compare / "
                       "shift node AND whose certificate was accepted by the verified checker")
    rep.cov["output_modes"] = modes
    rep.cov["certificates_accepted"] = len(cert_ok)
    rep.cov["certificates_failed"] = len(cert_fail)
    rep.cov["certificates_rejected_by_checker"] = len(cert_rej)
    rep.cov["too_big_for_certificate"] = len(cert_big) + sum(1 for a in allr if a.get("cert") == "too_big" and not any(x[1] == a["id"] for x in cert_big))
    rep.cov["checker_unsupported"] = len(cert_uns)
    rep.cov["traces_validated_against_impl"] = tie_ok
    rep.cov["tie_mismatch"] = len(tie_bad_l)
    rep.cov["lifted_netlist_traces_identical_to_impl"] = lift_tie_ok
    rep.cov["lifted_netlist_traces_differing_only_in_definedness"] = lift_tie_xdiff
    rep.cov["lifted_netlist_traces_contradicting_impl"] = len(lift_tie_contra)
    rep.cov["tie_unsupported"] = len(tie_uns)
    rep.cov["skipped_not_exportable"] = sum(1 for a in allr if a["status"] == "skip")
    rep.cov["skip_reasons"] = sorted({a["reason"][:120] for a in allr if a["status"] == "skip"})[:6]
    uns = [a for a in allr if a["status"] == "unsupported"]
    lift_uns = [a for a in allr if a.get("lift") == "unsupported"]
    rep.cov["vhdl_unsupported_by_front_end"] = len(uns)
    rep.cov["vhdl_unsupported_by_lifter_only"] = len(lift_uns)
    rep.cov["unsupported_reasons"] = sorted({a["reason"][:100] for a in uns} | {a["lift_reason"][:100] for a in lift_uns})[:10]
    rep.cov["unsupported_share"] = round((len(uns) + len(lift_uns)) / max(1, len(exported)), 4)
    memd = [i for i in ids if any(l.startswith("mem ") and "fill=" in l for l in prog[i])]
    rep.cov["memories_with_declared_power_on_image"] = len(memd)
    rep.cov["recordings_time_base_checked"] = sum(1 for a in allr if a.get("timebase") and not (a["timebase"]["first_bad"] and "round" not in a["timebase"]["first_bad"]))
    rep.cov["recordings_time_base_not_comparable"] = sum(1 for a in allr if a.get("timebase") and a["timebase"]["first_bad"] and "round" not in a["timebase"]["first_bad"])
    rep.cov["recorded_rounds_time_base_checked"] = sum(a["timebase"]["groups"] for a in allr if a.get("timebase"))
    rep.cov["long_recordings"] = sum(1 for i in ids if any(l.startswith("longrun ") for l in prog[i]))
    rep.cov["clock_frequencies_hz"] = sorted({int(x[3:]) for i in ids for l in prog[i] if l.startswith("clockcfg") for x in l.split() if x.startswith("hz=")} | {100000000})
    mp = [a for a in allr if a["status"] == "ok" and len([x for x in a.get("meta", {}).get("clkports", "-").split(",") if x != "-"]) > 1]
    rep.cov["multi_clock_pin_exports"] = len(mp)
    rep.cov["multi_clock_pin_exports_with_colliding_names"] = sum(1 for a in mp if any(re.search(r"_\d+$", x) for x in a["meta"]["clkports"].split(",")))
    rep.cov["multi_clock_pin_exports_with_sub_entities"] = sum(1 for a in mp if a.get("instances", 1) > 1)
    nc = [a for a in allr if a["status"] == "ok" and not a.get("classic", True)]
    rep.cov["mixed_edge_or_multi_reset_exports"] = len(nc)
    rep.cov["clock_edge_sets_seen"] = sorted({a["meta"].get("edges", "-") for a in allr if a.get("meta")})
    rep.cov["half_period_samples_replayed"] = sum(a.get("half_cycles", 0) for a in allr)
    rep.cov["interpreter_replayed_designs"] = sum(1 for a in allr if a.get("interp") == "ok")
    rep.cov["interpreter_trace_cycles"] = sum(a["stats"].get("cycles", 0) for a in allr)
    rep.cov["interpreter_defined_bits_compared"] = sum(a["stats"].get("bits_compared", 0) for a in allr)
    rep.cov["interpreter_bits_where_vhdl_is_more_defined"] = sum(a["stats"].get("vhdl_more_defined_bits", 0) for a in allr)
    rep.cov["testvector_checks_replayed"] = sum(a.get("tv", {}).get("checks", 0) for a in allr)
    rep.cov["testvector_checks_failed"] = sum(len(a.get("tv", {}).get("failed", [])) for a in allr)
    rep.cov["known_x_pessimism_designs"] = sum(1 for k in knowns if k[2].get("known_key") == KNOWN_CASE)
    rep.cov["sub_entity_instances"] = sum(max(0, a.get("instances", 1) - 1) for a in allr)
    rep.cov["blocks"] = sum(a.get("blocks", 0) for a in allr)
    agg = {}
    for a in allr:
        for k, v in (a.get("lift_stats") or {}).items():
            agg[k] = agg.get(k, 0) + v
    rep.cov["lifted_construct_histogram"] = agg
    th = {}
    for i in ids:
        for t in used[i]:
            th[t] = th.get(t, 0) + 1
    rep.cov["template_histogram"] = th
    rep.cov["product_state_counts"] = sorted(int(l.split()[4].split("=")[1]) for _, _, l in cert_ok)[-10:]
    sample_id = next((a["id"] for a in allr if a.get("cert") == "ok" and (a.get("lift_stats") or {}).get("regs", 0) > 0 and a.get("instances", 1) > 1),
                     ids[-1])
    rep.cov["samples"] = [dict(design=prog[sample_id], vhdl=excerpt(WORK / "run_single", sample_id, n=45),
                               checker=[l for _, d, l in cert_ok if d == sample_id][:1],
                               interpreter=results[("single", sample_id)].get("tv"))]
    rep.assumptions += [
        "TRUSTED VHDL front end (lib/C02_vhdl*.py): hand-written reading of IEEE 1076-2008 / 1164 / numeric_std for the emitted subset; no VHDL simulator (GHDL) is available to validate it",
        "route 1: on undefined values the lifted netlist is evaluated with gatery's node semantics (NetDefs/NodeSemDefs), not numeric_std's; for the VHDL text only two-valued agreement (all stimuli, all cycles) and never-contradict of the lifted circuit are claimed",
        "route 2: VHDL metavalue rules (\"=\" on metavalues FALSE, X condition takes ELSE, CASE falls to OTHERS, arithmetic all-X) are modelled, but only the sampled stimuli are replayed",
        "dumped netlist and lifted netlist are each tied to the real ReferenceSimulator by per-cycle trace comparison (tie); circuit model: single clock, rising edge, reset schedule from the real simulator's event log",
        "recorder time base: the exporter's test vectors are replayed with the test bench's clock process(es) running from the half-period constants written in the exported testbench.vhd, independently of the accumulated ADV times of the stimulus process; a few designs use clocks whose period is not a whole number of ps (300 / 333.3 / 350 / 700 MHz ...) with recordings of 1200-6000 cycles; additionally, for EVERY recording, the accumulated ADV time of each SET/CHECK round must lie within [exact simulator time - 1 ps, next simulator event] (no drift)",
        "several clock pins: designs with 2-3 clock pins of different frequency (unnamed second root clocks and multiplied/divided derived clocks whose names collide with the design clock's, sub-entities and inferred memories using a strict subset of them, nested entities, marked crossings) are elaborated by resolving every clock / reset port through the chain of port maps to a top-level port; the reference simulator's edges and reset levels are replayed per exported top-level port name at the resolution of the fastest half period (edges of one instant applied together), so a clock or reset port bound to the wrong top-level pin changes observed values; interpreter route + exporter test vectors only",
        "clock edges: every design is additionally replayed on HALF-PERIOD traces (inputs change and outputs are sampled between every two clock edges, reset pins by their exported names), so the edge written in each exported process (rising_edge / falling_edge / 'event) is what decides when a register updates; designs with falling/both-edge registers or several reset pins on one clock pin are covered by this interpreter route only (the certificate checker's circuit model is single rising-edge clock, one reset pin)",
        "memories (GenericMemoryEntity: array signal with the power-on aggregate `(k => \"..\", others => (others => 'X'))`, asynchronous and registered read ports, read latency registers, write ports on either edge) are executed by the interpreter only (lifter-unsupported): ROMs and RAMs with declared, partially defined power-on images (holes at the start / middle / end, single words, single bits; widths 1..9, depths 2..32) are read at every address by counter-driven ports; known findings mem-exact-undefined-read-address and reg-output-port-no-initial-value are accepted only when re-running the interpreter with exactly that one deviation removed reproduces the whole trace (see classify_known); unsupported by both: tristate / inout pins, external nodes, generics, multi-clock designs; falling-edge clocks and designs wider than %d input bits are covered by the interpreter route only" % MAX_CERT_IN_BITS,
        "register power-on: the lifter requires signal initial value == reset value (the netlist format has one value for both); the interpreter models VHDL initial values exactly",
        "designs are sampled by the generators; the theorem closes the stimulus and cycle quantifiers per validated design",
    ]

    if not res["ok"]:
        broken.append("proof obligations failed: " + ", ".join(res["failed"]) + " | " + res["log"][-600:])
    if forb:
        broken.append("forbidden constructs: " + "; ".join(forb[:5]))
    if driver is None:
        broken.append("extracted model no longer builds: " + V.last_model_log[-600:])
    if tie_bad_l:
        broken.append(f"{len(tie_bad_l)} tie mismatches (model of dumped or lifted netlist vs real simulator), first: {tie_bad_l[0][1][:300]}")
    if lift_tie_contra:
        broken.append(f"{len(lift_tie_contra)} traces where the netlist lifted from the VHDL contradicts the real simulator, first: {lift_tie_contra[0][1][:300]}")
    if cert_rej:
        broken.append(f"{len(cert_rej)} certificates rejected by the verified checker, first: {cert_rej[0][2][:300]}")
    if errors:
        broken.append(f"driver errors: {errors[0][1][:300]}")
    front_disagree = [a for a in allr if a.get("cert") == "ok" and a["mismatches"] and any(m["stimulus_fully_defined"] for m in a["mismatches"])]
    if front_disagree:
        broken.append(f"front-end routes disagree on {front_disagree[0]['id']}: certificate accepted but interpreter mismatch under a fully defined stimulus")

    # ---- report -----------------------------------------------------------------------------------
    for key in (KNOWN_CASE, KNOWN_MEM_EXACT, KNOWN_REG_PORT):
        ks = [k for k in knowns if k[2].get("known_key") == key]
        if ks:
            did, mode, m = ks[0]
            rep.known(f"{key} ({len(ks)} exports this run, e.g. {did} sample {m['cycle']} pin {m['pin']}: simulator {m['expected']}, VHDL {m['observed']}, inputs {m.get('inputs')})")
    rep.cov["known_finding_exports"] = {key: sum(1 for k in knowns if k[2].get("known_key") == key) for key in (KNOWN_CASE, KNOWN_MEM_EXACT, KNOWN_REG_PORT)}
    if known_cat_lit:
        rep.known(f"{KNOWN_CAT_LIT} ({len(known_cat_lit)} exports this run, e.g. {known_cat_lit[0][0]}: STD_LOGIC_VECTOR(\"..\" & \"..\") has no determinable operand type)")
    if known_shift_lit:
        rep.known(f"{KNOWN_SHIFT_LIT} ({len(known_shift_lit)} exports this run, e.g. {known_shift_lit[0][0]}: SHIFT_x(\"literal\", ..) inside a type conversion is ambiguous)")
    seen = 0
    for v in violations:
        if seen >= 6:
            break
        seen += 1
        nofail = v.pop("nofail", False)
        v["property"] = CID
        v["broken"] = broken
        rep.violation(v, nofail=nofail, tag="vhdl")
    if broken and not rep.violations:
        rep.violation(dict(property=CID, kind="proof, tie or certificate broken; no failing input found", broken=broken), nofail=True, tag="tie")
    rep.finish()


if __name__ == "__main__":
    main()
