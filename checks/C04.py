#!/usr/bin/env python3
"""C04 -- registers, clocks, resets, enables follow synchronous-logic semantics.

Pipeline (AGENT_BRIEF.md):
  1. rebuild gatery + harness/C04_clk.cpp from the current /repo tree
  2. regenerate coq/Gatery/gen/EventOrder.v from ReferenceSimulator.h (S3, fail closed), rebuild the Coq
     development, re-check Properties_C04.v (Print Assumptions per theorem)
  3. extract the model (SchedDefs.v) + ocaml/C04_driver.ml
  4. tie: generated clock configurations x register networks, run in the REAL ReferenceSimulator (harness),
     in the extracted model (driver, twice: given and shuffled node visiting order) and in an independent
     python oracle (Fractions: closed-form activation times k/(2f) + textbook register update); all logs
     `(time num/den, which clock pins toggled, register outputs 01X)` per committed instant must be identical
  5. anything broken -> search mode with the oracle against the real simulator -> VIOLATION / replay
"""
import sys, os
sys.path.insert(0, os.path.join(os.path.dirname(os.path.abspath(__file__)), "..", "lib"))
import vcommon as V
import json, math, random, subprocess, time, hashlib
from fractions import Fraction as F
from concurrent.futures import ThreadPoolExecutor
from pathlib import Path

CID = "C04"
TMP = V.BUILD / "tmp" / CID / str(os.getpid())   # per process: concurrent runs (other tier / seed) must not share case files

# ----------------------------------------------------------------------------------------------
# case representation (plain dicts) and its text format (see harness/C04_clk.cpp)
# ----------------------------------------------------------------------------------------------

def fr(x):
    x = F(x)
    return f"{x.numerator}/{x.denominator}"


def case_text(c):
    o = [f"case {c['id']}"]
    for i, k in enumerate(c["clocks"]):
        u = lambda key, f: "-" if k[key] is None else f(k[key])     # None = ClockConfig field left unset
        o.append(f"clock {i} parent={'-' if k['parent'] is None else k['parent']} freq={u('freq', fr)} name={u('name', str)} "
                 f"rstname={u('rstname', str)} trig={u('trig', str)} psync={u('psync', lambda b: str(int(b)))} rst={u('rst', str)} "
                 f"act={u('act', lambda b: 'H' if b else 'L')} init={u('init', lambda b: str(int(b)))} mrt={fr(k['mrt'])} mrc={k['mrc']}")
    for i, p in enumerate(c["inputs"]):
        o.append(f"input {i} w={p['w']} clk={p['clk']}")
    for i, r in enumerate(c["regs"]):
        o.append(f"reg {i} clk={r['clk']} w={r['w']} rstval={r['rstval'] or '-'} d={r['d'] or '-'} en={r['en'] or '-'}"
                 + (" scopes=" + ";".join(k if k == "A" else f"{k}:{e}" for k, e in r["scopes"]) if r.get("scopes") is not None else ""))
    o.append("order " + " ".join(str(x) for x in c["order"]))
    for t, clk, lv in c["rstev"]:
        o.append(f"rstev {fr(t)} {clk} {int(lv)}")
    for t, ws in c["stim"]:
        o.append(f"stim {fr(t)} " + " ".join(f"{p}={b}" for p, b in ws))
    o.append(f"steps {c['steps']}")
    o.append("end")
    return "\n".join(o) + "\n"


def parse_cases(text):
    """inverse of case_text (used for corpus files and replays)"""
    cases, c = [], None
    for line in text.splitlines():
        tok = line.split()
        if not tok or tok[0].startswith("#"):
            continue
        kv = {t.split("=", 1)[0]: t.split("=", 1)[1] for t in tok[1:] if "=" in t}
        if tok[0] == "case":
            c = dict(id=tok[1], clocks=[], inputs=[], regs=[], order=[], rstev=[], stim=[], steps=0)
        elif tok[0] == "clock":
            u = lambda key, f: None if kv[key] == "-" else f(kv[key])
            c["clocks"].append(dict(parent=None if kv["parent"] == "-" else int(kv["parent"]), freq=u("freq", F),
                                    name=u("name", int), rstname=u("rstname", int), trig=u("trig", str), psync=u("psync", lambda x: x == "1"),
                                    rst=u("rst", str), act=u("act", lambda x: x == "H"), init=u("init", lambda x: x == "1"),
                                    mrt=F(kv["mrt"]), mrc=int(kv["mrc"])))
        elif tok[0] == "input":
            c["inputs"].append(dict(w=int(kv["w"]), clk=int(kv["clk"])))
        elif tok[0] == "reg":
            c["regs"].append(dict(clk=int(kv["clk"]), w=int(kv["w"]), rstval=None if kv["rstval"] == "-" else kv["rstval"],
                                  d=None if kv["d"] == "-" else kv["d"], en=None if kv["en"] == "-" else kv["en"],
                                  scopes=None if "scopes" not in kv else [("A", None) if t == "A" else (t[0], t[2:]) for t in kv["scopes"].split(";") if t]))
        elif tok[0] == "order":
            c["order"] = [int(x) for x in tok[1:]]
        elif tok[0] == "rstev":
            c["rstev"].append((F(tok[1]), int(tok[2]), tok[3] == "1"))
        elif tok[0] == "stim":
            c["stim"].append((F(tok[1]), [(int(t.split("=")[0]), t.split("=")[1]) for t in tok[2:]]))
        elif tok[0] == "steps":
            c["steps"] = int(tok[1])
        elif tok[0] == "end":
            cases.append(c); c = None
    return cases


# ----------------------------------------------------------------------------------------------
# independent oracle: clock tree facts, closed-form activation times, textbook register update
# ----------------------------------------------------------------------------------------------

INHERITED = dict(name=0, rstname=0, trig="R", psync=True, rst="S", act=True, init=True)   # attribute -> default of a fresh hlim clock


def effective_clocks(raw):
    """what the frontend leaves in each hlim clock: an unset ClockConfig field of a derived clock is the nearest
    explicitly set value up the derivation chain, else the default; an unset multiplier is 1 (not inherited)"""
    def eff(i, key):
        k = raw[i]
        if k[key] is not None:
            return k[key]
        return eff(k["parent"], key) if k["parent"] is not None else INHERITED[key]
    out = []
    for i, k in enumerate(raw):
        e = dict(parent=k["parent"], freq=F(1) if k["freq"] is None else k["freq"], mrt=k["mrt"], mrc=k["mrc"])
        for key in INHERITED:
            e[key] = eff(i, key)
        out.append(e)
    return out


class Tree:
    def __init__(self, c):
        self.c = c
        self.k = effective_clocks(c["clocks"])
        self.n = len(self.k)

    def absfreq(self, i):
        k = self.k[i]
        return k["freq"] if k["parent"] is None else self.absfreq(k["parent"]) * k["freq"]

    def pinsrc(self, i):
        k = self.k[i]
        p = k["parent"]
        if p is not None and self.k[p]["name"] == k["name"] and self.absfreq(p) == self.absfreq(i) and k["psync"]:
            return self.pinsrc(p)
        return i

    def rstsrc(self, i):
        k = self.k[i]
        if k["rst"] == "N":
            return None
        p = k["parent"]
        # a parent without reset has no reset pin to inherit (Clock::inheritsResetPinSource, repair dd54172)
        if p is not None and self.k[p]["rst"] != "N" and self.k[p]["rstname"] == k["rstname"]:
            return self.rstsrc(p)
        return i

    def children(self, i):
        return [j for j in range(self.n) if self.k[j]["parent"] == i]

    def has_nodes(self, i):
        return any(r["clk"] == i for r in self.c["regs"]) or any(p["clk"] == i for p in self.c["inputs"])

    def relevant(self, i):
        return self.has_nodes(i) or any(self.relevant(j) for j in self.children(i))

    def min_reset_time(self, i):
        k = self.k[i]
        res = k["mrt"]
        if k["rst"] == "A" and self.has_nodes(i):
            res = max(res, 1 / self.absfreq(i))
        for d in self.children(i):
            res = max(res, self.min_reset_time(d))
        return res

    def min_reset_cycles(self, i):
        k = self.k[i]
        res = k["mrc"]
        if k["rst"] == "S" and self.has_nodes(i):
            res = max(res, 1)
        for d in self.children(i):
            res = max(res, math.ceil(F(self.min_reset_cycles(d)) / self.k[d]["freq"]))
        return res

    def hold(self, s):
        return max(self.min_reset_time(s), F(self.min_reset_cycles(s)) / self.absfreq(s))

    def clock_pins(self):
        return [i for i in range(self.n) if self.relevant(i) and self.pinsrc(i) == i]

    def reset_pins(self):
        return [i for i in range(self.n) if self.relevant(i) and self.rstsrc(i) == i]

    def psync_assert_ok(self):
        """Clock::getMinResetCycles asserts phaseSynchronousWithParent for every derived clock below a reset pin source"""
        def desc(i):
            for j in self.children(i):
                yield j
                yield from desc(j)
        for s in self.reset_pins():
            if any(not self.k[d]["psync"] for d in desc(s)):
                return False
        return True


def ev_expr(e, outs, ins):
    """evaluate an expression string on MSB-first 01X strings; returns (value, rest)"""
    def bit_and(x, y):
        return "0" if x == "0" or y == "0" else ("1" if x == "1" and y == "1" else "X")
    def bit_or(x, y):
        return "1" if x == "1" or y == "1" else ("0" if x == "0" and y == "0" else "X")
    def bit_xor(x, y):
        return "X" if "X" in (x, y) else ("1" if x != y else "0")
    pos = 0
    def num():
        nonlocal pos
        q = pos
        while q < len(e) and e[q].isdigit():
            q += 1
        v = int(e[pos:q]); pos = q
        return v
    def go():
        nonlocal pos
        c = e[pos]; pos += 1
        if c == "r":
            return outs[num()]
        if c == "i":
            return ins[num()]
        if c == "c":
            q = pos
            while q < len(e) and e[q] in "01X":
                q += 1
            v = e[pos:q]; pos = q
            return v
        if c in "xao":
            pos += 1; a = go(); pos += 1; b = go(); pos += 1
            f = {"x": bit_xor, "a": bit_and, "o": bit_or}[c]
            return "".join(f(x, y) for x, y in zip(a, b))
        if c == "n":
            pos += 1; a = go(); pos += 1
            return "".join({"0": "1", "1": "0", "X": "X"}[x] for x in a)
        if c == "p":
            pos += 1; a = go(); pos += 1
            if "X" in a:
                return "X" * len(a)
            return format((int(a, 2) + 1) % (1 << len(a)), "0%db" % len(a)) if len(a) else ""
        if c == "b":
            k = num(); pos += 1; a = go(); pos += 1
            return a[len(a) - 1 - k]
        raise ValueError("bad expr " + e)
    return go()


def and3(x, y):
    return "0" if x == "0" or y == "0" else ("1" if x == "1" and y == "1" else "X")


def scoped_enable(scopes, outs, ins):
    """enable of a register created by the frontend inside nested scopes (outermost first), written down flat:
    every ENIF condition and every IF / ELSE literal around the register contributes to one conjunction; ENALWAYS
    drops what has been collected for the enable so far; an IF / ELSE brings in ALL IF / ELSE literals around it"""
    terms, iflits = [], []
    for kind, e in scopes:
        if kind == "A":
            terms = []
            continue
        v = ev_expr(e, outs, ins)
        if kind == "E":
            terms.append(v)
        else:
            iflits.append(v if kind == "I" else {"0": "1", "1": "0", "X": "X"}[v])
            terms += iflits
    r = "1"
    for t in terms:
        r = and3(r, t)
    return r


def oracle(c, stats=None):
    """expected log lines for one case (same text as harness / model); `stats` counts which register rule fired"""
    def hit(k):
        if stats is not None:
            stats[k] = stats.get(k, 0) + 1
    T = Tree(c)
    out = [f"case {c['id']}"]
    for i, k in enumerate(T.k):
        out.append(f"E {i} trig={k['trig']} rst={k['rst']} act={'H' if k['act'] else 'L'} init={int(k['init'])} psync={int(k['psync'])} "
                   f"name={k['name']} rstname={k['rstname']} f={fr(k['freq'])}")
    rel = [i for i in range(T.n) if T.relevant(i)]
    for i in rel:
        rs = T.rstsrc(i)
        out.append(f"A {i} pin={T.pinsrc(i)} rst={'-' if rs is None else rs} f={fr(T.absfreq(i))}")
    rpins = T.reset_pins()
    for s in rpins:
        out.append(f"H {s} {fr(T.hold(s))}")
    regs = c["regs"]
    nreg = len(regs)
    val = [r["rstval"] if r["rstval"] is not None else "X" * r["w"] for r in regs]
    ins = ["X" * p["w"] for p in c["inputs"]]
    inrst = [False] * nreg
    K = T.k

    def reset_change(s, level):
        for r in range(nreg):
            ck = regs[r]["clk"]
            if T.rstsrc(ck) != s:
                continue
            inrst[r] = (level == K[ck]["act"]) and regs[r]["rstval"] is not None
            if inrst[r] and K[ck]["rst"] == "A":
                val[r] = regs[r]["rstval"]
                hit("reset_event_async_writes_value")
            elif inrst[r]:
                hit("reset_event_sync_asserts")
            elif regs[r]["rstval"] is None:
                hit("reset_event_no_reset_value")
            else:
                hit("reset_event_releases_or_inactive_level")

    pending_rst = list(c["rstev"])
    for s in rpins:
        reset_change(s, K[s]["act"])
        h = T.hold(s)
        if h == 0:
            reset_change(s, not K[s]["act"])
            hit("poweron_immediate_release")
        else:
            pending_rst.append((h, s, not K[s]["act"]))
    stim = list(c["stim"])
    for t, ws in stim:
        if t == 0:
            for p, b in ws:
                ins[p] = b
    stim = [(t, ws) for t, ws in stim if t != 0]
    # power-on callbacks: assert, and release at once when the hold time is zero
    por = []
    for s in rpins:
        por.append((s, K[s]["act"]))
        if T.hold(s) == 0:
            por.append((s, not K[s]["act"]))
    out.append("T 0/1 C - R " + (",".join(f"{s}:{int(lv)}" for s, lv in por) or "-") + " V" + "".join(" " + v for v in val))

    # closed-form edge times: the k-th toggle of pin p is at k/(2 f_p); rising iff (k even) == (pin starts high)
    pins = T.clock_pins()
    steps = c["steps"]
    cand = set()
    for p in pins:
        h = 1 / (2 * T.absfreq(p))
        for k in range(1, steps + 1):
            cand.add(k * h)
    for t, _, _ in pending_rst:
        cand.add(t)
    for t, _ in stim:
        cand.add(t)
    times = sorted(cand)[:steps]
    for t in times:
        fired = {}
        for p in pins:
            q = t * 2 * T.absfreq(p)
            if q.denominator == 1 and q >= 1:
                k = int(q)
                starts_high = K[p]["trig"] == "R"
                rising = (k % 2 == 0) if starts_high else (k % 2 == 1)
                fired[p] = (rising, k)
        pre = list(val)
        pre_in = list(ins)
        for r in range(nreg):
            ck = regs[r]["clk"]
            p = T.pinsrc(ck)
            if p not in fired:
                continue
            rising = fired[p][0]
            trig = K[ck]["trig"]
            if not (trig == "B" or (trig == "R" and rising) or (trig == "F" and not rising)):
                continue
            if inrst[r]:
                if K[ck]["rst"] == "S":
                    val[r] = regs[r]["rstval"]
                    hit("advance_in_sync_reset")
                else:
                    hit("advance_ignored_in_async_reset")
                continue
            if regs[r].get("scopes") is not None:
                en = scoped_enable(regs[r]["scopes"], pre, pre_in)
                hit("enable_from_scopes_depth_%d" % len(regs[r]["scopes"]))
                if en != "1" and len(regs[r]["scopes"]) > 2 and scoped_enable(regs[r]["scopes"][-2:], pre, pre_in) == "1":
                    hit("enable_not_1_only_because_of_a_scope_two_or_more_levels_up")
            else:
                en = ev_expr(regs[r]["en"], pre, pre_in) if regs[r]["en"] else "1"
            if en == "X":
                val[r] = "X" * regs[r]["w"]
                hit("advance_enable_undefined")
            elif en == "1":
                val[r] = ev_expr(regs[r]["d"], pre, pre_in) if regs[r]["d"] else "X" * regs[r]["w"]
                hit("advance_enable_1" if regs[r]["d"] else "advance_data_unconnected")
                if regs[r]["d"] and any(pre[j] != val[j] and ("r%d" % j) in regs[r]["d"] for j in range(r)):
                    hit("advance_driver_changed_in_same_instant")
            else:
                hit("advance_enable_0")
        rnow = sorted([(s, lv) for (tt, s, lv) in pending_rst if tt == t])
        pending_rst = [(tt, s, lv) for (tt, s, lv) in pending_rst if tt != t]
        for s, lv in rnow:
            reset_change(s, lv)
        for tt, ws in stim:
            if tt == t:
                for p, b in ws:
                    ins[p] = b
        cs = ",".join(f"{p}:{'r' if fired[p][0] else 'f'}:{fired[p][1]}" for p in sorted(fired)) or "-"
        rs = ",".join(f"{s}:{int(lv)}" for s, lv in rnow) or "-"
        out.append(f"T {fr(t)} C {cs} R {rs} V" + "".join(" " + v for v in val))
    out.append("end")
    return out


# ----------------------------------------------------------------------------------------------
# generator
# ----------------------------------------------------------------------------------------------

SMALL_FREQS = [F(1), F(2), F(3), F(4), F(5), F(6), F(7), F(9), F(10), F(12), F(5, 2), F(7, 2), F(10, 3), F(7, 3), F(3, 2), F(4, 3), F(9, 4), F(11, 5)]
MHZ_FREQS = [F(100_000_000), F(125_000_000), F(50_000_000), F(400_000_000, 3), F(33_333_333), F(48_000_000), F(156_250_000)]
MULTS = [F(1), F(1), F(1), F(2), F(1, 2), F(3), F(3, 2), F(1, 3), F(2, 3)]


def rbits(rng, w, px=0.15):
    return "".join("X" if rng.random() < px else rng.choice("01") for _ in range(w))


def gen_expr(rng, c, W, depth, regs_w, ins_w):
    """random width-W expression over registers / inputs of width W"""
    leaves = [f"r{i}" for i, w in enumerate(regs_w) if w == W] + [f"i{i}" for i, w in enumerate(ins_w) if w == W]
    if depth == 0 or rng.random() < 0.35:
        if rng.random() < 0.1 or not leaves:
            return "c" + rbits(rng, W, 0.1)
        return rng.choice(leaves)
    op = rng.choice("xxaonpp")
    if op in "xao":
        return f"{op}({gen_expr(rng, c, W, depth - 1, regs_w, ins_w)},{gen_expr(rng, c, W, depth - 1, regs_w, ins_w)})"
    return f"{op}({gen_expr(rng, c, W, depth - 1, regs_w, ins_w)})"


def gen_case(rng, cid, steps, family=None):
    family = family or rng.choice(["small", "small", "small", "mhz", "q7", "shift", "reset", "inherit", "inherit", "scopes", "scopes"])
    freqs = MHZ_FREQS if family == "mhz" else SMALL_FREQS
    clocks = []
    nroot = rng.choice([1, 2, 2, 3])
    nder = rng.choice([0, 0, 1, 1, 2, 3])
    if family == "q7":
        nroot, nder = rng.choice([1, 2]), rng.choice([1, 2])
    if family == "inherit":
        nroot, nder = rng.choice([1, 1, 2]), rng.choice([1, 2, 3, 3])
    names = 0
    for i in range(nroot + nder):
        root = i < nroot
        parent = None if root else rng.randrange(len(clocks))
        rst = rng.choice("SSAAN")
        if family == "reset":
            rst = rng.choice("SA")
        if family == "inherit" and root:
            rst = rng.choice("SAAN")
        init = True if rst == "N" else rng.random() < 0.5
        k = dict(parent=parent, freq=rng.choice(freqs) if root else rng.choice(MULTS), name=names, rstname=names,
                 trig=rng.choice("RRFB"), psync=True, rst=rst, act=rng.random() < 0.6, init=init,
                 mrt=F(0), mrc=0)
        names += 1
        if family == "inherit" and root:      # parents with NON-default attributes: active low, falling / dual edge, no init
            k["act"] = rng.random() < 0.25
            k["trig"] = rng.choice("RFFB")
            if rst != "N":
                k["init"] = rng.random() < 0.4
        if not root:
            pk = clocks[parent]
            if family == "q7":
                k["freq"] = F(1)
            if rng.random() < (0.9 if family == "q7" else 0.6):
                k["name"] = pk["name"]
            if rng.random() < 0.6:
                k["rstname"] = pk["rstname"]
            if family == "q7" and rng.random() < 0.8:
                k["trig"] = rng.choice([t for t in "RFB" if t != pk["trig"]])
            if rng.random() < 0.7:   # usually the same reset polarity as the parent (a shared reset pin with opposite polarity is legal but odd)
                k["act"] = pk["act"]
        if rng.random() < (0.6 if family == "reset" else 0.25):
            k["mrc"] = rng.choice([1, 2, 3, 4])
        if rng.random() < (0.5 if family == "reset" else 0.2):
            k["mrt"] = rng.choice([F(1, 2), F(3, 2), F(5, 4), F(2), F(7, 3)]) / (freqs[0] if family == "mhz" else 1)
        clocks.append(k)
    # phaseSynchronousWithParent = false only where Clock::getMinResetCycles' assertion cannot fire
    for i, k in enumerate(clocks):
        if k["parent"] is not None and rng.random() < 0.15:
            a, ok = k["parent"], True
            while a is not None:
                ok = ok and clocks[a]["rst"] == "N"
                a = clocks[a]["parent"]
            if ok:
                k["psync"] = False
    # Unset optional ClockConfig fields (None): the frontend must then inherit them from the parent / default them.
    #  * every family: a field whose explicit value equals what would be inherited anyway is dropped with probability 1/2
    #    (the design stays the same, only the way it is written changes);
    #  * family "inherit": derived clocks additionally leave most fields unset whatever their value was, so the effective
    #    clock is whatever the chain above provides (validity is re-checked on the effective values by valid_case).
    for i, k in enumerate(clocks):
        par = clocks[k["parent"]] if k["parent"] is not None else None
        k["_explicit"] = dict(k)
    for i, k in enumerate(clocks):
        ex = k["_explicit"]
        par = clocks[k["parent"]]["_explicit"] if k["parent"] is not None else None
        for key in INHERITED:
            if par is None and key in ("name", "rstname"):
                continue
            inherited = par[key] if par is not None else INHERITED[key]
            if family == "inherit" and par is not None and rng.random() < 0.6:
                k[key] = None
            elif ex[key] == inherited and rng.random() < 0.5:
                k[key] = None
        if par is not None and ex["freq"] == 1 and rng.random() < 0.5:
            k["freq"] = None
    if family == "inherit":
        # the explicit values of the ancestors changed what descendants inherit: recompute for the rest of the generator
        eff = effective_clocks([{kk: vv for kk, vv in k.items() if kk != "_explicit"} for k in clocks])
        for k, e in zip(clocks, eff):
            k["_explicit"] = e
    for k in clocks:
        del k["_explicit"]
    W = rng.choice([1, 2, 3, 3, 4, 4, 8])
    nreg = rng.choice([2, 3, 4, 5, 6])
    if family == "shift":
        nreg = rng.choice([4, 5, 6, 8])
    c = dict(id=cid, clocks=clocks, inputs=[], regs=[], order=[], rstev=[], stim=[], steps=steps, family=family)
    # inputs: a few data inputs (width W) and enable inputs (width 1)
    nd, ne = rng.choice([0, 1, 1, 2]), rng.choice([0, 1, 1, 2])
    if family == "scopes":
        ne = rng.choice([3, 4, 4])
    for _ in range(nd):
        c["inputs"].append(dict(w=W, clk=rng.randrange(len(clocks))))
    for _ in range(ne):
        c["inputs"].append(dict(w=1, clk=rng.randrange(len(clocks))))
    ins_w = [p["w"] for p in c["inputs"]]
    regs_w = [W] * nreg
    en_ins = [i for i, w in enumerate(ins_w) if w == 1]
    for r in range(nreg):
        clk = rng.randrange(len(clocks))
        if family == "q7":
            clk = rng.choice([i for i in range(len(clocks))])
        der = [i for i, k in enumerate(clocks) if k["parent"] is not None]
        if family == "inherit" and der and rng.random() < 0.7:
            clk = rng.choice(der)
        rv = None if rng.random() < (0.1 if family == "inherit" else 0.2) else rbits(rng, W, 0.05)
        if family == "shift":
            # shift chain / ring with feedback through the last stage (johnson / lfsr style), across whatever clocks
            if r == 0:
                d = rng.choice([f"n(r{nreg - 1})", f"x(r{nreg - 1},r{nreg // 2})", f"p(r{nreg - 1})"])
            else:
                d = f"r{r - 1}"
        else:
            kind = rng.random()
            if kind < 0.25:
                d = f"p(r{r})"                      # feedback counter
            elif kind < 0.45:
                d = f"r{rng.randrange(nreg)}"       # shift / cross-domain copy
            elif kind < 0.5:
                d = None
                if rv is None:
                    rv = rbits(rng, W, 0.0)         # the output width must come from somewhere
            else:
                d = gen_expr(rng, c, W, 2, regs_w, ins_w)
        ek = rng.random()
        if ek < 0.45:
            en = None
        elif ek < 0.65 and en_ins:
            en = f"i{rng.choice(en_ins)}"
        elif ek < 0.85:
            en = f"b{rng.randrange(W)}(r{rng.randrange(nreg)})"
        elif ek < 0.9:
            en = "c" + rng.choice("01X")
        elif en_ins:
            en = f"x(i{rng.choice(en_ins)},b{rng.randrange(W)}(r{rng.randrange(nreg)}))"
        else:
            en = None
        # registers created by the frontend inside nested ENIF / IF / ELSE / ENALWAYS scopes (depth 0..4): the enable is
        # what EnableScope / ConditionalScope accumulate; conditions are mostly 1-bit pins so that the stimulus can hold an
        # outer condition low while the inner ones are high
        scopes = None
        if d is not None and (family == "scopes" or rng.random() < 0.25):
            depth = rng.choice([0, 1, 2, 3, 3, 4, 4]) if family == "scopes" else rng.choice([1, 2, 3, 3])
            scopes = []
            for _ in range(depth):
                kind = rng.choice("EEEEEIIILLA") if family == "scopes" else rng.choice("EEEIIL")
                if kind == "A":
                    scopes.append(("A", None))
                    continue
                if en_ins and rng.random() < 0.8:
                    ce = f"i{rng.choice(en_ins)}"
                else:
                    ce = f"b{rng.randrange(W)}(r{rng.randrange(nreg)})"
                scopes.append((kind, ce))
            en = None
        c["regs"].append(dict(clk=clk, w=W, rstval=rv, d=d, en=en, scopes=scopes))
    order = list(range(nreg)); rng.shuffle(order)
    c["order"] = order
    T = Tree(c)
    # time grid for process / reset events: quarter periods of the clock pins (hits edges and mid points)
    pins = T.clock_pins()
    grid = [1 / (4 * T.absfreq(p)) for p in pins] or [F(1, 4)]
    horizon = steps // max(1, len(pins)) // 2 + 2   # in half periods
    def rtime():
        g = rng.choice(grid)
        return g * rng.randrange(1, 2 * horizon + 1)
    # stimulus
    if c["inputs"]:
        ts = sorted({rtime() for _ in range(rng.choice([2, 4, 6, 10]) if family != "scopes" else rng.choice([8, 12, 20]))})
        if rng.random() < 0.7:
            ts = [F(0)] + ts
        for t in ts:
            if family == "scopes":   # conditions mostly high, each now and then low (or undefined) on its own
                ws = [(p, rng.choice("1111111000X") if ins_w[p] == 1 else rbits(rng, ins_w[p], 0.05)) for p in range(len(ins_w)) if rng.random() < 0.8]
            else:
                ws = [(p, rbits(rng, ins_w[p], 0.12)) for p in range(len(ins_w)) if rng.random() < 0.7]
            if ws:
                c["stim"].append((t, ws))
    # additional reset events (assert / release at arbitrary instants), never two on one pin at one time
    rpins = T.reset_pins()
    used = {(T.hold(s), s) for s in rpins}
    if rpins:
        for _ in range(rng.choice([0, 0, 1, 2, 3, 4]) if family != "reset" else rng.choice([2, 3, 4, 6])):
            s = rng.choice(rpins)
            t = rtime()
            if (t, s) in used:
                continue
            used.add((t, s))
            c["rstev"].append((t, s, rng.random() < 0.5))
    return c


def valid_case(c):
    T = Tree(c)
    if not T.psync_assert_ok():
        return False
    for i, k in enumerate(T.k):
        if k["rst"] == "N" and not k["init"]:
            return False        # HCL_DESIGNCHECK in Clock::applyConfig (evaluated on the effective values)
        raw = c["clocks"][i]
        if raw["parent"] is None and (raw["freq"] is None or raw["name"] is None or raw["rstname"] is None):
            return False
    return True


def nontrivial_key(c, lines):
    """a case is non-trivial when >= 2 different registers change value at least once after power-on and at
    least two different clock pins toggle, or one pin drives domains of different trigger edges; distinctness = the log itself"""
    tl = [l for l in lines if l.startswith("T ")]
    vals = [l.split(" V", 1)[1].split() for l in tl]
    changed = set()
    for a, b in zip(vals, vals[1:]):
        for i, (x, y) in enumerate(zip(a, b)):
            if x != y:
                changed.add(i)
    pins = set()
    for l in tl:
        cpart = l.split(" C ", 1)[1].split(" R ")[0]
        if cpart != "-":
            for e in cpart.split(","):
                pins.add(e.split(":")[0])
    T = Tree(c)
    multi_edge = any(len({T.k[i]["trig"] for i in range(T.n) if T.relevant(i) and T.pinsrc(i) == p}) > 1 for p in T.clock_pins())
    if len(changed) >= 2 and (len(pins) >= 2 or multi_edge):
        return hashlib.sha1("\n".join(tl).encode()).hexdigest()
    return None


# ----------------------------------------------------------------------------------------------
# running the three implementations
# ----------------------------------------------------------------------------------------------

def split_blocks(text):
    """{case id: [lines]} from harness / driver output"""
    blocks, cur, cid = {}, None, None
    for line in text.splitlines():
        if line.startswith("case "):
            cid = line.split()[1]; cur = [line]
        elif line == "end" and cur is not None:
            cur.append(line); blocks[cid] = cur; cur = None
        elif cur is not None:
            cur.append(line)
    return blocks


def run_harness(exe, cases, tag):
    """runs the C++ harness on chunks in parallel; returns ({id: lines}, maxden)"""
    TMP.mkdir(parents=True, exist_ok=True)
    nchunk = max(1, min(V.NCPU, (len(cases) + 7) // 8))
    chunks = [cases[i::nchunk] for i in range(nchunk)]
    def one(i):
        cf = TMP / f"{tag}_{i}.cases"; of = TMP / f"{tag}_{i}.impl"
        cf.write_text("".join(case_text(c) for c in chunks[i]))
        if of.exists():
            of.unlink()
        rc, out = V.run([exe, str(cf), str(of)], timeout=1500)
        if rc != 0 or not of.exists():
            return None, f"harness rc={rc}: {out[-1500:]}"
        return of.read_text(), None
    blocks, maxden = {}, 0
    with ThreadPoolExecutor(max_workers=nchunk) as ex:
        for txt, err in ex.map(one, range(nchunk)):
            if txt is None:
                V.infra_error("C04 harness failed: " + err)
            blocks.update(split_blocks(txt))
            for line in txt.splitlines():
                if line.startswith("MAXDEN "):
                    maxden = max(maxden, int(line.split()[1]))
    return blocks, maxden


def run_model(drv, cases, tag, shuffle=0):
    TMP.mkdir(parents=True, exist_ok=True)
    nchunk = max(1, min(V.NCPU, (len(cases) + 7) // 8))
    chunks = [cases[i::nchunk] for i in range(nchunk)]
    def one(i):
        cf = TMP / f"{tag}_{i}.mcases"
        cf.write_text("".join(case_text(c) for c in chunks[i]))
        rc, out = V.run([drv, str(cf)] + ([str(shuffle)] if shuffle else []), timeout=1500)
        return rc, out
    blocks = {}
    errs = []
    with ThreadPoolExecutor(max_workers=nchunk) as ex:
        for rc, out in ex.map(one, range(nchunk)):
            if rc != 0:
                errs.append(out[-800:])
            blocks.update(split_blocks(out))
    return blocks, errs


def strip_por(lines):
    """(kept as a hook) the oracle reproduces the whole log including the onReset sequence of powerOn"""
    return lines


def first_diff(a, b):
    for i, (x, y) in enumerate(zip(a, b)):
        if x != y:
            return i, x, y
    if len(a) != len(b):
        i = min(len(a), len(b))
        return i, (a[i] if i < len(a) else "<missing>"), (b[i] if i < len(b) else "<missing>")
    return None


def shrink(exe, c):
    """greedy reduction of a case on which the real simulator and the oracle disagree"""
    def bad(x):
        if not valid_case(x):
            return False
        try:
            exp = oracle(x)
        except Exception:
            return False
        got, _ = run_harness(exe, [x], "shrink")
        return strip_por(got.get(x["id"], [])) != strip_por(exp)
    cur = json.loads(json.dumps(c, default=str))
    cur = parse_cases(case_text(c))[0]
    changed = True
    budget = 60
    while changed and budget > 0:
        changed = False
        for key in ("stim", "rstev"):
            i = 0
            while i < len(cur[key]) and budget > 0:
                t = dict(cur); t[key] = cur[key][:i] + cur[key][i + 1:]
                budget -= 1
                if bad(t):
                    cur = t; changed = True
                else:
                    i += 1
        # fewer steps
        while cur["steps"] > 4 and budget > 0:
            t = dict(cur); t["steps"] = cur["steps"] // 2
            budget -= 1
            if bad(t):
                cur = t; changed = True
            else:
                break
    return cur


def _oracle_job(c):
    st = {}
    return c["id"], oracle(c, st), st


def main():
    tier = V.tier()
    rep = V.Report(CID)
    t0 = time.time()
    V.build_gatery()
    exe = V.build_harness("C04_clk")

    # S3: regenerate the event order from the current ReferenceSimulator.h (fail closed)
    gen = V.COQ / "Gatery" / "gen" / "EventOrder.v"
    with V.Lock("coq_C04_gen"):
        rc, tout = V.run([sys.executable, str(V.VERIF / "translate" / "C04_eventorder.py"), str(V.REPO), str(gen)], timeout=120)
    translator_ok = (rc == 0)
    if not translator_ok:
        # fail closed: no stale compiled copy of the generated file may satisfy the Coq build
        for f in (V.COQ / "Gatery" / "gen").glob("EventOrder.*"):
            try:
                f.unlink()
            except OSError:
                pass
    res = V.check_properties(CID)
    rep.add_proof(res)
    drv = V.build_model(CID)
    if "--build-only" in sys.argv:
        print("build-only:", exe, drv, "translator:", tout.strip()[:200])
        sys.exit(0)

    broken = []      # reasons for entering search mode
    if not translator_ok:
        broken.append("S3 translator failed closed: " + tout.strip()[:300])
    if not res["ok"]:
        broken.append("proof obligations no longer check: " + ", ".join(res["failed"] or ["<build failed>"]))
    if drv is None:
        broken.append("extracted model no longer builds")

    # ---- cases --------------------------------------------------------------------------------
    if "--replay" in sys.argv:
        rp = json.loads(Path(sys.argv[sys.argv.index("--replay") + 1]).read_text())
        cases = parse_cases(rp["case_text"]) if "case_text" in rp else []
        ncorpus = 0
    else:
        cases = []
        for f in sorted((V.VERIF / "corpus" / CID).glob("*.cases")):
            cases += parse_cases(f.read_text())
        ncorpus = len(cases)
        rng = random.Random(V.seed() * 1000003 + 4)
        ngen, steps = (200, 60) if tier == "quick" else (12000, 160)
        i = 0
        while len(cases) < ncorpus + ngen:
            c = gen_case(rng, f"g{i}", steps)
            i += 1
            if valid_case(c):
                cases.append(c)
    ids = [c["id"] for c in cases]
    assert len(set(ids)) == len(ids)

    impl, maxden = run_harness(exe, cases, "main")
    if drv is not None:
        model, merr = run_model(drv, cases, "main")
        model_sh, merr2 = run_model(drv, cases, "mainsh", shuffle=V.seed() + 17)
    else:
        model, model_sh, merr, merr2 = {}, {}, [], []
    orac = {}
    rule_hist = {}
    if len(cases) > 400:
        from concurrent.futures import ProcessPoolExecutor
        with ProcessPoolExecutor(max_workers=V.NCPU) as ex:
            for cid_, lines_, st_ in ex.map(_oracle_job, cases, chunksize=64):
                orac[cid_] = lines_
                for k_, v_ in st_.items():
                    rule_hist[k_] = rule_hist.get(k_, 0) + v_
    else:
        for c in cases:
            orac[c["id"]] = oracle(c, rule_hist)

    mism_model, mism_oracle, mism_shuffle, errors = [], [], [], []
    hist = dict(family={}, trig={}, rst={}, shared_pin_opposite_edge=0, derived=0, cdc_regs=0,
                coincident_pins_instants=0, reset_event_on_edge=0, stim_on_edge=0, async_assert_off_edge=0, instants=0)
    nontrivial = set()
    for c in cases:
        cid = c["id"]
        a = impl.get(cid)
        if a is None:
            V.infra_error(f"harness produced no block for case {cid}")
        if any(l.startswith("ERROR") for l in a):
            errors.append((cid, [l for l in a if l.startswith("ERROR")][0][:300]))
            continue
        if drv is not None:
            d = first_diff(a, model.get(cid, []))
            if d:
                mism_model.append((cid, d))
            d2 = first_diff(model.get(cid, []), model_sh.get(cid, []))
            if d2:
                mism_shuffle.append((cid, d2))
        d = first_diff(strip_por(a), strip_por(orac[cid]))
        if d:
            mism_oracle.append((cid, d))
        # coverage histogram (from the implementation's log)
        T = Tree(c)
        hist["family"][c.get("family", "corpus")] = hist["family"].get(c.get("family", "corpus"), 0) + 1
        for i in range(T.n):
            if T.relevant(i):
                k = T.k[i]
                hist["trig"][k["trig"]] = hist["trig"].get(k["trig"], 0) + 1
                hist["rst"][k["rst"] + ("H" if k["act"] else "L")] = hist["rst"].get(k["rst"] + ("H" if k["act"] else "L"), 0) + 1
                if k["parent"] is not None:
                    hist["derived"] += 1
                if T.pinsrc(i) != i and k["trig"] != T.k[T.pinsrc(i)]["trig"]:
                    hist["shared_pin_opposite_edge"] += 1
        for r in c["regs"]:
            if r["d"] and any(("r%d" % j) in r["d"] and c["regs"][j]["clk"] != r["clk"] for j in range(len(c["regs"]))):
                hist["cdc_regs"] += 1
        edge_times = set()
        for l in a:
            if l.startswith("T "):
                hist["instants"] += 1
                parts = l.split()
                if parts[3] != "-":
                    edge_times.add(parts[1])
                    if "," in parts[3]:
                        hist["coincident_pins_instants"] += 1
                    if parts[5] != "-":
                        hist["reset_event_on_edge"] += 1
                elif parts[5] != "-":
                    hist["async_assert_off_edge"] += 1
        for t, _ in c["stim"]:
            if fr(t) in edge_times:
                hist["stim_on_edge"] += 1
        key = nontrivial_key(c, a)
        if key:
            nontrivial.add(key)

    if errors:
        # a generated configuration the real library rejects is a generator bug, not a property violation
        V.infra_error("harness rejected generated cases (generator bug): " + json.dumps(errors[:3]))
    if merr or merr2:
        broken.append("model driver failed: " + (merr + merr2)[0][:300])
    if mism_model:
        broken.append(f"correspondence model vs implementation differs on {len(mism_model)} case(s), first {mism_model[0]}")
    if mism_shuffle:
        broken.append(f"extracted model depends on the node visiting order on {len(mism_shuffle)} case(s) (advance_commute contradicted), first {mism_shuffle[0]}")
    if mism_oracle:
        broken.append(f"implementation differs from the independent oracle on {len(mism_oracle)} case(s), first {mism_oracle[0]}")

    rep.cov["evaluations"] = len(cases)
    rep.cov["distinct_nontrivial"] = len(nontrivial)
    rep.cov["rule"] = ("cases = corpus + seeded random clock trees (1-3 roots, 0-3 derived clocks; frequencies p/q or MHz-range; trigger R/F/both; "
                       "reset sync/async/none x active high/low; initializeRegs on/off; minResetTime/minResetCycles; shared pins with opposite edge; "
                       "clocks created through the frontend with random subsets of the optional ClockConfig fields left unset = inherited, effective attributes read back) x "
                       "register networks (counters, shift rings, xor feedback, cross-domain copies through Node_CDC, enables from pins/register bits/constants incl. X, "
                       "registers made by the frontend's reg() under nested ENIF/IF/ELSE/ENALWAYS scopes of depth 0..4) x "
                       "process stimulus and injected reset events on a quarter-period grid; non-trivial = at least two registers change value after power-on and "
                       "(two clock pins toggle or one pin drives domains with different trigger edges); distinct = different implementation log")
    rep.cov["traces_validated_against_impl"] = len(cases) - len(mism_model) if drv else 0
    rep.cov["instants_compared"] = hist["instants"]
    rep.cov["corpus_cases"] = ncorpus
    rep.cov["histogram"] = hist
    rep.cov["register_rule_histogram"] = rule_hist   # counted by the oracle, which agrees with the implementation line by line
    rep.cov["largest_numerator_or_denominator_of_any_simulation_time"] = maxden
    rep.cov["event_order_translator"] = tout.strip()[:400]
    rep.cov["observations"] = [
        "Q7 (by design, DESIGN.md section 8): a derived clock with its parent's name, frequency and phase but the opposite single trigger edge "
        "shares the parent's clock pin (Clock::inheritsClockPinSource ignores the trigger); its registers are advanced at (j+1/2)/f, not at j/f. "
        f"Theorem activation_times_opposite states this, activation_at_period_multiples_refuted gives the witness; {hist['shared_pin_opposite_edge']} such domains were simulated in this run and the real simulator agrees with model and oracle on all of them.",
        "Node_Register::simulatePowerOn writes the reset value at time 0 whatever initializeRegs, reset kind and polarity say (the test is commented out in the source); theorem power_on_outputs; the tie runs initializeRegs on and off.",
        "powerOn's zero-hold-time branch only exists for reset pins without clocked nodes (theorem zero_hold_no_register); its onReset callback was wrong until the repair recorded as `fixed: property=C20 58165a4`; corpus/C04/01_nodeless_reset_pin.cases keeps the configuration in the tie.",
        "minResetTime / minResetCycles of a derived clock that shares its parent's reset pin only count through Clock::getMinReset* of the reset pin's SOURCE clock, converted with the source clock's frequency (as modelled).",
    ]
    rep.cov["samples"] = [dict(case=case_text(c), impl_log=impl[c["id"]][:14]) for c in cases[ncorpus:ncorpus + 2]]
    rep.assumptions += [
        "boost::rational<uint64_t> overflow is outside the model (Q is unbounded); the generated frequencies keep every numerator/denominator below 2^60 (largest seen is in coverage)",
        "the combinational network between registers is a universally quantified function in the theorems; in the tie it is a small expression language (xor/and/or/not/+1/bit select) interpreted by the OCaml driver and, independently, by the python oracle -- operator semantics themselves are C03's subject",
        "Node_Register / ReferenceSimulator are represented by a hand transcription (SchedDefs.v) whose agreement with the C++ is established by the sampled differential runs only; Event::operator< and the enum orders are regenerated from the header on every run",
        "only self-driven clocks and resets (the simulator asserts on logic-driven ones); simulation processes are limited to one WaitFor-driven stimulus process (phase AFTER); WaitClock/fiber ordering is C19's subject",
        "extra reset assertions are injected as genuine Event::Type::resetValueChange events through a subclass of ReferenceSimulator (the public API only produces the power-on reset)",
        "MinimalPostprocessing is used instead of DefaultPostprocessing so that no optimisation pass (C01's subject) stands between the described network and the simulated one",
    ]

    if broken:
        # ---- search mode: the real simulator against the independent oracle -------------------
        budget = 60 if tier == "quick" else 600
        tstart = time.time()
        found = None
        seeds = [c for c in cases if any(c["id"] == m[0] for m in mism_oracle)]
        if not seeds:
            rng = random.Random(V.seed() * 7919 + 11)
            j = 0
            while time.time() - tstart < budget and found is None:
                batch = []
                while len(batch) < 64:
                    c = gen_case(rng, f"s{j}", 80, family=rng.choice(["reset", "q7", "shift", "small"])); j += 1
                    if valid_case(c):
                        batch.append(c)
                got, _ = run_harness(exe, batch, "search")
                for c in batch:
                    if any(l.startswith("ERROR") for l in got[c["id"]]):
                        continue
                    if strip_por(got[c["id"]]) != strip_por(oracle(c)):
                        found = c
                        break
        else:
            found = seeds[0]
        if found is not None:
            small = shrink(exe, found)
            got, _ = run_harness(exe, [small], "final")
            exp = oracle(small)
            d = first_diff(strip_por(got[small["id"]]), strip_por(exp))
            rep.violation(dict(property=CID, what_broke=broken, case_text=case_text(small),
                               first_difference=dict(line=d[0], observed=d[1], expected=d[2]) if d else None,
                               expected=exp, observed=got[small["id"]],
                               replay_cmd=f"python3 checks/C04.py --replay <this file>"))
        else:
            rep.violation(dict(property=CID, what_broke=broken,
                               note="no configuration found on which the real simulator differs from the independent oracle within the budget"),
                          nofail=True)
    # Q7 is a deviation from the property's literal wording ("exactly at the positive multiples of 1/f"): report it as the
    # recorded known finding whenever such a domain was actually simulated in this run (the simulator, the model and the
    # oracle agree on the (j+1/2)/f activation times; theorem activation_at_period_multiples_refuted).
    known, _fixed = V.known_findings(CID)
    if hist.get("shared_pin_opposite_edge", 0) > 0 and not rep.violations:
        for k in known:
            if k.startswith("shared-pin-opposite-edge"):
                rep.known(f"shared-pin-opposite-edge {hist['shared_pin_opposite_edge']} derived-clock domains sharing the parent's pin with the opposite single edge "
                          f"were simulated; their registers activate at (j+1/2)/f (e.g. corpus case c_q7: clock 2 at t=1/6)")
    shutil_rm(TMP)
    rep.finish()


def shutil_rm(p):
    import shutil
    shutil.rmtree(p, ignore_errors=True)


if __name__ == "__main__":
    main()
