#!/usr/bin/env python3
"""C16 -- ready/valid stream stages pass on exactly the accepted transfer sequence and hold their output.

Pipeline (AGENT_BRIEF.md): build gatery + harness from the current /repo tree, re-check the Coq
theorems (Properties_C16.v), extract the stage machines (StreamDefs.v), build seeded random chains of
the REAL scl stages (depth 1..5) in ONE harness process, run them under seeded random and adversarial
valid / back-pressure / stall patterns, and diff the per-cycle handshake log line by line with the
extracted machines run on the same per-cycle inputs.
Independent oracle (this file, NOT the Coq model): python list model -- the output transfers must be
the input transfers mapped through pack / unpack, in order, nothing lost after the drain phase -- plus
the hold rule on the real output wire.  The oracle always runs on every real trace; when a proof
obligation, the extraction or the tie breaks, it additionally runs over fresh cases (search mode).

By-design effects (reported as KNOWN-FINDING only if observed and listed in KNOWN_FINDINGS.txt):
  stall-deasserts-valid-while-beat-waits, extendWidth-drops-unaligned-eop.
A producer that withdraws an offered beat violates the ready/valid protocol; such streams
(hold=0) are labelled non-conformant and are used for the tie only (and for the oracle where the
property does not depend on producer conformance).
"""
import sys, os
sys.path.insert(0, os.path.join(os.path.dirname(os.path.abspath(__file__)), "..", "lib"))
import vcommon as V
import json, time, collections, hashlib, glob, random

CID = "C16"
WORK = V.BUILD / "work" / CID
HARNESS = "C16_stream"
DRAIN = 48
K_STALL = "stall-deasserts-valid-while-beat-waits"
K_EOP = "extendWidth-drops-unaligned-eop"
K_DEADLOCK = "blockingReg-before-reduceWidth-deadlock"
K_XREADY = "widthExtend-ready-reads-undefined-eop-behind-blockingReg"
K_PR_EMPTY = "widthReduce-emptyBits-is-valid-count"
# ByteEnable streams: every stage kind; Packet.h widthExtend only from a one-byte source to 2 / 4 bytes (wider sources do not
# elaborate on the real code -- loud DesignCheck / assertion, listed in the assumptions), widthReduce since e4b3b0a for all shapes
BE_KINDS = ["rd", "rb", "rr", "dc", "dl", "st", "ex", "re", "ex", "re", "pr", "pr", "pm", "px"]

REG_STAGES = ("rd", "rb", "rr", "dc", "dl", "ff", "fz")


# ----------------------------------------------------------------------------- chain helpers
def parse_chain(chain, min_digits=None):
    """'rd,ex2,st0' -> [('rd',0),('ex',2),('st',0)].  With min_digits (digits of the chain's input beat) a
    pm<t> (matchWidth to t digits) is resolved to the converter it selects: px<t/m>, pr<m/t> or the wire (dl0)."""
    if chain in ("-", ""):
        return []
    out = []
    m = min_digits
    for t in chain.split(","):
        k, a = t[:2], (int(t[2:]) if len(t) > 2 else 0)
        if m is not None:
            if k == "pm":
                k, a = ("px", a // m) if a > m else ("pr", m // a) if a < m else ("dl", 0)
            if k in ("ex", "px"):
                m *= max(1, a)
            elif k in ("re", "pr"):
                m //= max(1, a)
        out.append((k, a))
    return out


def chain_info(stages, hold, polite, eb=False):
    """Independent reading of what each stage promises (see module doc).
    returns dict(expect_transfers, expect_hold, cap, ex_product, has_fifo, tail_has_rude_stall)"""
    held = bool(hold)
    expect_transfers = True
    cap = 0
    exprod = 1
    has_fifo = False
    for k, a in stages:
        if k in ("rd", "rb", "rr"):
            held = True; cap = cap + 1
        elif k == "dc":
            held = True; cap = cap + 2
        elif k == "dl":
            if a > 0:
                held = True
            cap = cap + a
        elif k in ("ff", "fz", "fe", "fl", "fm"):
            # strm::fifo; fe / fl / fm carry the latency request: a = n * 100 + minDepth (FifoLatency(n) / AtLeast(n) / AtMost(n))
            has_fifo = True
            depth = a if k in ("ff", "fz") else a % 100
            d = 1
            while d < depth:
                d <<= 1
            cap = cap + d + 4 + (0 if k in ("ff", "fz") else a // 100)
            if not (k == "fz" or (k in ("fe", "fm") and a // 100 == 0)):
                held = True
        elif k == "st":
            held = held and bool(polite)
        elif k == "ex":
            exprod *= max(1, a)
        elif k in ("re", "pr"):
            if not held:
                expect_transfers = False
            cap = cap * max(1, a)
    # documented restriction (utils.h: regDownstreamBlocking "violates stream semantics"): a blocking register moves only
    # while ready is high; an idle reduceWidth(r>=2) keeps ready low -> the pair deadlocks (no loss, no progress)
    may_deadlock = False
    waiting_for_ready = False          # a blocking register whose ready path is still combinational up to here
    for k, a in stages:
        if k == "rb":
            waiting_for_ready = True
        elif k in ("st", "ex", "px") or (k == "dl" and a == 0) or (k in ("re", "pr") and a <= 1):
            pass
        elif k in ("re", "pr"):
            if waiting_for_ready:
                may_deadlock = True
            # ready_in of reduceWidth depends on its own counter only -> later stages see a normal consumer
            waiting_for_ready = False
        else:
            waiting_for_ready = False
    # simulation only: Packet.h widthExtend's ready(in) reads eop(in) even while valid(in) is low; behind a blocking register
    # (enable = ready, eop register without reset value) ready is X at power-up and the register enable with it
    x_poison = False
    comb_to_rb = False
    for k, a in stages:
        if k == "rb":
            comb_to_rb = True
        elif k == "px" or (k == "pr" and eb):
            # (with EmptyBits widthReduce's ready(in) also reads emptyBits(in) through eop(out))
            if comb_to_rb:
                x_poison = True
        elif k in ("st", "ex", "re", "pr") or (k == "dl" and a == 0):
            pass
        else:
            comb_to_rb = False
    return dict(expect_transfers=expect_transfers, expect_hold=held, cap=cap, ex_product=exprod, has_fifo=has_fifo,
                may_deadlock=may_deadlock, x_poison=x_poison)


def f_chain(stages, xs, stats=None):
    """the chain's data function on a list of transfers (digits tuple, eop, meta)"""
    for k, a in stages:
        if k == "ex":
            r = max(1, a); out = []
            for i in range(0, len(xs) - r + 1, r):
                g = xs[i:i + r]
                d = tuple(x for b in g for x in b[0])
                if stats is not None:
                    stats["eop_dropped"] += sum(1 for b in g[:-1] if b[1])
                out.append((d, g[-1][1], g[-1][2]))
            if stats is not None and len(xs) % r:
                pass
            xs = out
        elif k in ("re", "pr"):
            # utils.h reduceWidth and Packet.h widthReduce (stream without Empty/EmptyBits): r slices, eop on the last
            r = max(1, a); out = []
            for (d, e, m) in xs:
                q = len(d) // r
                for i in range(r):
                    out.append((tuple(d[i * q:(i + 1) * q]), e and i == r - 1, m))
            xs = out
        elif k == "px":
            # Packet.h widthExtend: a group ends after r beats or at eop; the digits above a short group are unspecified
            # (None = wildcard: stale register contents); eop and meta of the last member
            r = max(1, a); out = []; g = []
            for b in xs:
                g.append(b)
                if b[1] or len(g) == r:
                    mdig = len(b[0])
                    d = tuple(x for bb in g for x in bb[0]) + (None,) * ((r - len(g)) * mdig)
                    if stats is not None and len(g) < r:
                        stats["px_short_group"] += 1
                    out.append((d, b[1], b[2])); g = []
            xs = out
    return xs


def rec_match(o, e):
    """observed record vs expected record with wildcard digits"""
    return o[1] == e[1] and o[2] == e[2] and len(o[0]) == len(e[0]) and all(y is None or x == y for x, y in zip(o[0], e[0]))


# ----------------------------------------------------------------------------- case generation
def gen_bits(rng, n, kind, p=0.5):
    if kind == "always":
        return [1] * n
    if kind == "never":
        return [0] * n
    if kind == "alt":
        return [(i & 1) for i in range(n)]
    if kind == "rand":
        return [1 if rng.random() < p else 0 for _ in range(n)]
    if kind == "bursty":
        out = []
        v = rng.random() < 0.5
        while len(out) < n:
            ln = rng.choice([1, 1, 2, 3, 5, 8, 13, 30])
            out += [1 if v else 0] * ln
            v = not v
        return out[:n]
    if kind == "longstall":
        out = []
        while len(out) < n:
            out += [0] * rng.choice([7, 15, 31, 40]) + [1] * rng.choice([1, 2, 3, 9, 20])
        return out[:n]
    raise ValueError(kind)


STAGE_KINDS = ["rd", "rb", "rr", "dc", "dl", "st", "ex", "re", "px", "pr", "pm"]
PKT_KINDS = ["rd", "rb", "rr", "dc", "dl", "st", "px", "pr", "pm", "px", "pr"]     # streams with EmptyBits: no utils.h ex/re


def emptybits_widths_ok(stages, w, digits0):
    """Elaboration restriction seen on the real code (reported, not a behavioural defect): Packet.h widthReduce computes
    `bitsLeft - zext(emptyBits(in))` with bitsLeft BitWidth::last(bitsPerBeatIn) wide, so emptyBits(in) must not be wider;
    widthExtend's output EmptyBits is BitWidth::last((r-1)*bitsIn + maxvalue(emptyBits(in))) wide, which is wider than that
    for some non power of two widths (9b -> 27b -> 9b) => DesignCheck 'missmatching operands size'."""
    bits = w * digits0
    ebw = (bits - 1).bit_length()
    for k, a in stages:
        a = max(1, a)
        if k == "px":
            ebw = (bits * (a - 1) + (1 << ebw) - 1).bit_length(); bits *= a
        elif k == "pr":
            if ebw > bits.bit_length():
                return False
            bits //= a; ebw = (bits - 1).bit_length()
    return True


def gen_chain(rng, depth, allow_fifo=False, force=None, kinds=None, ebsafe=False, w=4, digits0=None, be=False):
    """returns (tokens, min_digits, nstall).  ebsafe (streams with EmptyBits): widthExtend ratio >= 2 (ratio 1 throws a
    DesignCheck with EmptyBits) and no blocking register in front of widthReduce (X at power-up, K_XREADY)."""
    for _ in range(400):
        fixed0 = digits0
        digits0 = fixed0 or (rng.choice([1, 1, 1, 2, 3, 4, 6]) if not be else rng.choice([1, 2, 2, 4, 6, 8, 12, 12]))
        digits = digits0
        toks = []
        nst = 0
        ok = True
        for i in range(depth):
            kk = list(kinds or STAGE_KINDS) + (["ff", "fz", "fe", "fl", "fm"] if allow_fifo else [])
            k = force[i] if force and i < len(force) and force[i] else rng.choice(kk)
            if k == "dl":
                toks.append(f"dl{rng.choice([0, 1, 2, 3, 4])}")
            elif k == "st":
                toks.append(f"st{nst}"); nst += 1
            elif k == "ex":
                r = rng.choice([1, 2, 2, 3, 4]) if not be else rng.choice([2, 3, 3, 4, 4])
                if digits * r > 12:
                    ok = False; break
                digits *= r; toks.append(f"ex{r}")
            elif k == "re":
                divs = [r for r in (1, 2, 3, 4, 6) if digits % r == 0]
                if be and any(r in (3, 4) for r in divs) and rng.random() < 0.7:
                    divs = [r for r in divs if r in (3, 4)]
                r = rng.choice(divs[1:] if len(divs) > 1 and rng.random() < 0.85 else divs)
                digits //= r; toks.append(f"re{r}")
            elif k == "px":
                r = rng.choice([1, 2, 2, 3, 4]) if not ebsafe else rng.choice([2, 2, 3, 4, 6, 8])
                if be:
                    if digits != 1:
                        ok = False; break
                    r = rng.choice([2, 4])
                if digits * r > 12:
                    ok = False; break
                digits *= r; toks.append(f"px{r}")
            elif k == "pr":
                divs = [r for r in (1, 2, 3, 4, 6, 8) if digits % r == 0]
                if be and any(r in (3, 4) for r in divs) and rng.random() < 0.6:
                    divs = [r for r in divs if r in (3, 4)]
                if not divs:
                    ok = False; break
                r = rng.choice(divs[1:] if len(divs) > 1 and rng.random() < 0.9 else divs)
                digits //= r; toks.append(f"pr{r}")
            elif k == "pm":
                targets = [t for t in (1, 2, 3, 4, 6, 8, 12) if (t % digits == 0 or digits % t == 0)
                           and (not be or t <= digits or (digits == 1 and t in (2, 4)))]
                t = rng.choice(targets)
                digits = t; toks.append(f"pm{t}")
            elif k in ("ff", "fz"):
                toks.append(f"{k}{rng.choice([2, 4, 8])}")
            elif k in ("fe", "fl", "fm"):
                # every way of requesting a latency (AtMost(0) = fall-through since 19458b4; before, its elaboration never returned)
                nreq = rng.choice([0, 1, 1, 2, 3])
                toks.append(f"{k}{nreq * 100 + rng.randrange(1, 17)}")
            else:
                toks.append(k)
        if ok and ebsafe and not emptybits_widths_ok(parse_chain(",".join(toks), digits0), w, digits0):
            ok = False
        if ok and not chain_info(parse_chain(",".join(toks), digits0), True, True, eb=ebsafe)["x_poison"]:
            return toks, digits0, nst
        digits0 = fixed0
    return ["rd"], 1, 0


VALID_KINDS = ["rand", "rand", "always", "bursty", "rand_sparse"]
READY_KINDS = ["rand", "rand", "always", "bursty", "longstall", "alt", "adv_fall_on_rise", "adv_only_on_rise", "adv_fall_after_rise", "rand_sparse"]


def be_fields(rng, digits0, style):
    """byte enables (one character per byte, byte 0 first) and error bit of one beat"""
    if style == "ones":
        b = "1" * digits0
    elif style == "sparse":
        b = "".join("1" if rng.random() < 0.2 else "0" for _ in range(digits0))
    else:
        b = "".join(rng.choice("01") for _ in range(digits0))
    return f" {b} {rng.randrange(2)}"


def gen_case(rng, cid, n, depth=None, hold=None, polite=None, allow_fifo=False, force=None, vkind=None, rkind=None, aligned=None,
             be=False, kinds=None, digits0=None, extra="", tokens=None):
    depth = depth or rng.choice([1, 1, 2, 2, 3, 4, 5])
    fixed0 = digits0
    toks, digits0, nst = gen_chain(rng, depth, allow_fifo, force, kinds=kinds, digits0=digits0, be=be)
    if tokens:
        toks, digits0, nst = list(tokens), fixed0, sum(1 for t in tokens if t.startswith("st"))
    w = rng.choice([3, 4]) if not be else 8
    bestyle = rng.choice(["rand", "rand", "rand", "sparse", "ones"])
    mw = 3
    hold = (rng.random() < 0.8) if hold is None else hold
    polite = (rng.random() < 0.7) if polite is None else polite
    stages = parse_chain(",".join(toks), digits0)
    exprod = 1
    for k, a in stages:
        if k == "ex":
            exprod *= max(1, a)
    aligned = (rng.random() < 0.6) if aligned is None else aligned
    eopg = exprod if (aligned and hold) else 0
    vkind = vkind or rng.choice(VALID_KINDS)
    rkind = rkind or rng.choice(READY_KINDS)
    cap = chain_info(stages, True, True)["cap"]
    drain = min(n // 2, max(DRAIN, 2 * cap + 12))
    body = n - drain
    if vkind == "rand_sparse":
        v = gen_bits(rng, body, "rand", 0.15)
    elif vkind == "rand":
        v = gen_bits(rng, body, "rand", rng.choice([0.3, 0.5, 0.7, 0.9]))
    else:
        v = gen_bits(rng, body, vkind)
    if rkind == "rand":
        r = gen_bits(rng, body, "rand", rng.choice([0.2, 0.5, 0.8]))
    elif rkind == "rand_sparse":
        r = gen_bits(rng, body, "rand", 0.1)
    elif rkind == "adv_fall_on_rise":      # ready is low exactly in the cycles in which valid rises
        r = [0 if (v[i] and (i == 0 or not v[i - 1])) else 1 for i in range(body)]
    elif rkind == "adv_only_on_rise":      # ready is high only in the cycles in which valid rises (and a few random ones)
        r = [1 if (v[i] and (i == 0 or not v[i - 1])) or rng.random() < 0.1 else 0 for i in range(body)]
    elif rkind == "adv_fall_after_rise":   # ready drops one cycle after valid rises, for 1-2 cycles
        r = [1] * body
        for i in range(1, body):
            if v[i - 1] and (i == 1 or not v[i - 2]):
                r[i] = 0
                if i + 1 < body and rng.random() < 0.5:
                    r[i + 1] = 0
    else:
        r = gen_bits(rng, body, rkind)
    stalls = []
    for k in range(nst):
        sk = rng.choice(["rand", "bursty", "never", "adv"])
        if sk == "rand":
            stalls.append(gen_bits(rng, body, "rand", rng.choice([0.1, 0.3, 0.5])))
        elif sk == "adv":                   # stall rises exactly when ready falls (a beat is likely waiting)
            stalls.append([1 if (i > 0 and r[i - 1] == 0 and rng.random() < 0.7) else 0 for i in range(body)])
        else:
            stalls.append(gen_bits(rng, body, sk))
    lines = []
    pe = rng.choice([0.15, 0.4, 0.8]) if not eopg else rng.choice([0.5, 0.9])
    for i in range(n):
        if i < body:
            vi, ri = v[i], r[i]
            ctl = "".join(str(s[i]) for s in stalls) or "-"
        else:
            vi, ri = 0, 1
            ctl = "0" * nst or "-"
        d = ".".join(str(rng.randrange(1 << w)) for _ in range(digits0))
        e = 1 if rng.random() < pe else 0
        m = rng.randrange(1 << mw)
        lines.append(f"P {vi} {d} {e} {m} {ri} {ctl}" + (be_fields(rng, digits0, bestyle) if be else ""))
    pp = 1 if rng.random() < 0.8 else 0
    header = (f"C {cid} w={w} mw={mw} min={digits0} chain={','.join(toks) or '-'} hold={int(hold)} polite={int(polite)} "
              f"pp={pp} eopg={eopg} n={n} vk={vkind} rk={rkind}" + (f" be=1 bestyle={bestyle}" if be else "") + extra)
    return dict(header=header, plan=lines)


PAUSE_MODES = ["before_last", "before_last", "before_single", "random", "every", "none"]


def gen_pkt_case(rng, cid, n, eb, force=None, depth=None, pause=None, rkind=None, allow_fifo=False, expose=None,
                 be=False, kinds=None, digits0=None, extra="", tokens=None, em=False):
    """Packet family: the producer sends whole packets (prod=seq) with idle slots placed at packet-beat boundaries,
    in particular directly in front of the LAST beat of a packet / in front of a one-beat packet, while the consumer is
    (mostly) ready -- the schedules on which Packet.h widthReduce's beat bookkeeping (sentBits / bytesLeft / bitsLeft,
    advancing on transfer(out)) matters."""
    depth = depth or rng.choice([1, 1, 2, 3, 3, 4])
    kinds = kinds or (PKT_KINDS if eb else STAGE_KINDS)
    w = (rng.choice([3, 4]) if not (be or em) else 8) if not expose else expose[2]; mw = 3
    bestyle = rng.choice(["rand", "rand", "rand", "sparse", "ones"])
    fixed0 = digits0
    toks, digits0, nst = gen_chain(rng, depth, allow_fifo, force, kinds=kinds, ebsafe=bool(eb) and not expose, w=(1 if em else w), digits0=digits0, be=be)
    if tokens:
        toks, digits0, nst = list(tokens), fixed0, sum(1 for t in tokens if t.startswith("st"))
    if expose:
        digits0, r_, w_ = expose
        toks, nst = [f"pr{r_}"], 0
    stages = parse_chain(",".join(toks), digits0)
    cap = chain_info(stages, True, True)["cap"]
    drain = min(n // 2, max(DRAIN, 2 * cap + 12))
    body = n - drain
    pause = pause or rng.choice(PAUSE_MODES)
    rkind = rkind or rng.choice(["always", "always", "rand9", "rand", "bursty", "alt"])
    if rkind == "rand9":
        r = gen_bits(rng, body, "rand", 0.9)
    elif rkind == "rand":
        r = gen_bits(rng, body, "rand", rng.choice([0.5, 0.7]))
    else:
        r = gen_bits(rng, body, rkind)
    stalls = [gen_bits(rng, body, "rand", rng.choice([0.0, 0.1, 0.3])) for _ in range(nst)]
    slow = 1
    for k, a in stages:
        if k in ("re", "pr"):
            slow *= max(1, a)
    budget = max(6, int(body / (slow * 1.6 + 1)))          # items the producer can get through before the drain tail
    items = []                                              # (v, digits, eop, meta, eb)
    def junk(v=0):
        return (0, [rng.randrange(1 << w) for _ in range(digits0)], rng.randrange(2), rng.randrange(1 << mw), 0)
    while len(items) < budget:
        L = rng.choice([1, 1, 2, 2, 3, 4, 5, 7])
        txid = rng.randrange(1 << mw)
        for j in range(L):
            last = j == L - 1
            npause = 0
            if pause == "every":
                npause = rng.choice([1, 2])
            elif pause == "random":
                npause = rng.choice([0, 0, 1, 3])
            elif pause == "before_last" and last and L > 1:
                npause = rng.choice([1, 1, 2, 4])
            elif pause == "before_single" and L == 1:
                npause = rng.choice([1, 2, 3])
            elif pause == "before_last" and L == 1 and rng.random() < 0.5:
                npause = rng.choice([1, 2])
            items += [junk() for _ in range(npause)]
            ebv = 0
            if eb and last:
                ebv = (1 if em else w) * rng.randrange(digits0)   # 0 .. digits0-1 empty digits, at least one valid digit
            items.append((1, [rng.randrange(1 << w) for _ in range(digits0)], 1 if last else 0, txid, ebv))
    lines = []
    for i in range(n):
        it = items[i] if i < len(items) else junk()
        ri = r[i] if i < body else 1
        ctl = ("".join(str(sk[i]) for sk in stalls) if i < body else "0" * nst) or "-"
        lines.append(f"P {it[0]} {'.'.join(str(x) for x in it[1])} {it[2]} {it[3]} {ri} {ctl}" + (f" {it[4]}" if eb else "")
                     + (be_fields(rng, digits0, bestyle) if be else ""))
    pp = 1 if rng.random() < 0.8 else 0
    header = (f"C {cid} w={w} mw={mw} min={digits0} chain={','.join(toks) or '-'} hold=1 polite=1 pp={pp} eopg=0 eb={int(eb)} prod=seq "
              f"n={n} vk=pkt_{pause} rk={rkind}" + (" expose=1" if expose else "") + (f" be=1 bestyle={bestyle}" if be else "") + (" em=1" if em else "") + extra)
    return dict(header=header, plan=lines)


def gen_pkt_cases(seed, tiername, tag, count, n, eb, em=False):
    rng = random.Random(f"C16/{seed}/{tiername}/{tag}")
    cases = []; i = 0
    if em:
        # scl::Empty (bytes): every converter shape alone from reset -- the FIRST packet after reset is drawn from the full length
        # distribution (1 beat .. several wide beats), with and without back pressure on the first beat
        for toks, d0 in ((["px2"], 1), (["px3"], 1), (["px4"], 1), (["px6"], 1), (["px8"], 1), (["px2"], 2), (["px4"], 2), (["px3"], 4), (["px2"], 4),
                         (["pr2"], 2), (["pr4"], 4), (["pr3"], 6), (["pr8"], 8), (["pm4"], 1), (["pm1"], 4), (["px4", "pr2"], 1), (["rd", "px4", "rr"], 1),
                         (["px2", "rd", "px2"], 1)):
            for rk in ("always", "rand", "alt"):
                for pm in ("none", "before_single"):
                    cases.append(gen_pkt_case(rng, f"{tag}{i}", n, True, tokens=toks, digits0=d0, pause=pm, rkind=rk, em=True)); i += 1
        while len(cases) < count:
            cases.append(gen_pkt_case(rng, f"{tag}{i}", n, True, em=True, allow_fifo=rng.random() < 0.15)); i += 1
        return cases
    regs = ["rd", "rr", "rb", "dc", "dl", "st"]
    # the converters alone and wrapped in registers, under every pause placement, consumer always / mostly ready
    for f in (["pr"], ["px"], ["pm"], ["rd", "pr"], ["pr", "rr"], ["rd", "pr", "rr"], ["rr", "pr", "rd"], ["px", "pr"], ["pr", "px"],
              ["px", "rd", "pr"], ["dc", "pr", "dc"], ["st", "pr"], ["pr", "st"]):
        for pm in ("before_last", "before_single", "every", "none"):
            for rk in ("always", "rand9"):
                cases.append(gen_pkt_case(rng, f"{tag}{i}", n, eb, force=f, depth=len(f), pause=pm, rkind=rk)); i += 1
    while len(cases) < count:
        cases.append(gen_pkt_case(rng, f"{tag}{i}", n, eb, allow_fifo=eb and rng.random() < 0.15)); i += 1
    return cases


# (digits of the chain input, chain): the width conversions named in the requirement, bytes = digits
BE_SHAPES = [(6, ["re3"]), (8, ["re4"]), (12, ["re3"]), (12, ["re4"]), (8, ["re2"]), (12, ["re6"]), (2, ["ex3"]), (2, ["ex4"]), (4, ["ex3"]),
             (6, ["pr3"]), (8, ["pr4"]), (12, ["pr3"]), (12, ["pr4"]), (4, ["pr2"]), (8, ["pr2"]), (1, ["px2"]), (1, ["px4"]), (8, ["pm2"]), (1, ["pm4"]),
             (8, ["rd", "pr4", "rr"]), (1, ["px4", "rd", "pr2"]), (12, ["pr3", "dc"]), (2, ["ex4", "pr4"]),
             (3, ["ex4"]), (8, ["rd", "re4", "rr"]), (12, ["dc", "re3"]), (6, ["re3", "dl2"]), (2, ["ex3", "re3"]), (4, ["ex2", "rd", "re4"]),
             (8, ["st0", "re4"]), (12, ["re3", "st0", "rd"])]


def gen_be_cases(seed, tiername, tag, count, n):
    """streams with ByteEnable (one enable bit per payload byte) and Error through every stage kind (utils.h and Packet.h
    converters, registers, delay, stall, fifo); ratios 3 and 4 with 2- and 4-byte narrow beats (48->16, 64->16, 96->32 ...); random, sparse and all-ones enables"""
    rng = random.Random(f"C16/{seed}/{tiername}/{tag}")
    cases = []; i = 0
    for d0, toks in BE_SHAPES:
        for mode in ("cycle", "seq"):
            if mode == "cycle":
                cases.append(gen_case(rng, f"{tag}{i}", n, depth=len(toks), hold=True, polite=True, tokens=toks, be=True,
                                      kinds=BE_KINDS, digits0=d0, extra=" shape=" + "+".join(toks)))
            else:
                cases.append(gen_pkt_case(rng, f"{tag}{i}", n, False, depth=len(toks), tokens=toks, be=True, kinds=BE_KINDS,
                                          digits0=d0, extra=" shape=" + "+".join(toks)))
            i += 1
    for f in (["rd"], ["rb"], ["rr"], ["dc"], ["dl"], ["st"], ["ex"], ["re"], ["pr"], ["pm"], ["ff"], ["fz"]):
        cases.append(gen_case(rng, f"{tag}{i}", n, depth=1, hold=True, polite=True, force=f, be=True, kinds=BE_KINDS, allow_fifo=True)); i += 1
    while len(cases) < count:
        fifo = rng.random() < 0.2
        if rng.random() < 0.5:
            cases.append(gen_case(rng, f"{tag}{i}", n, be=True, kinds=BE_KINDS, allow_fifo=fifo))
        else:
            cases.append(gen_pkt_case(rng, f"{tag}{i}", n, False, be=True, kinds=BE_KINDS, allow_fifo=fifo))
        i += 1
    return cases


SIG_KINDS = {"rs": ["rd", "rb", "dl", "re", "re", "pr"], "v": ["rd", "rb", "dl", "ex", "px"], "s": ["rd", "rb", "dl"]}


def gen_sig_case(rng, cid, n, sig, tokens=None, digits0=None, ready_p=None, w=None, pause=None):
    """Other stream signatures: rs = RsPacketStream (Ready, Sop, Eop; valid() derived), v = VPacketStream (no back pressure),
    s = SPacketStream.  Stage kinds: what the library accepts for the signature (regReady / regDecouple / fifo / stall do not
    compile without a Valid signal; widthExtend on a stream without Valid cannot express the gaps it needs; after Packet.h
    widthReduce the sop registers of later stages have no reset value, so pr is only generated as the last stage)."""
    if tokens is None:
        for _ in range(200):
            depth = rng.choice([1, 1, 2, 2, 3, 4])
            digits0 = rng.choice([1, 2, 2, 3, 4, 6])
            digits = digits0; toks = []; ok = True
            for i in range(depth):
                k = rng.choice(SIG_KINDS[sig])
                if k == "dl":
                    toks.append(f"dl{rng.choice([0, 1, 2, 3])}")
                elif k in ("re", "pr"):
                    divs = [r for r in (2, 3, 4, 6) if digits % r == 0]
                    if not divs or (k == "pr" and i != depth - 1):
                        ok = False; break
                    r = rng.choice(divs); digits //= r; toks.append(f"{k}{r}")
                elif k in ("ex", "px"):
                    r = rng.choice([2, 2, 3, 4])
                    if digits * r > 12:
                        ok = False; break
                    digits *= r; toks.append(f"{k}{r}")
                else:
                    toks.append(k)
            if ok and not chain_info(parse_chain(",".join(toks), digits0), True, True)["x_poison"]:
                break
        else:
            toks, digits0 = ["rd"], 1
    else:
        toks = list(tokens)
    w = w or rng.choice([3, 4, 8]); mw = 3
    stages = parse_chain(",".join(toks), digits0)
    cap = chain_info(stages, True, True)["cap"]
    drain = min(n // 2, max(DRAIN, 2 * cap + 12))
    body = n - drain
    ready_p = ready_p if ready_p is not None else rng.choice([1.0, 1.0, 0.9, 0.6, 0.6, 0.25])
    r = [1 if rng.random() < ready_p else 0 for _ in range(body)] if sig == "rs" else [1] * body
    pause = pause or rng.choice(["none", "between", "between", "long"])
    slow = 1
    for k, a in stages:
        if k in ("re", "pr"):
            slow *= max(1, a)
    budget = max(6, int(body * ready_p / (slow * 1.3 + 0.5)))
    items = []
    def junk():
        return (0, [rng.randrange(1 << w) for _ in range(digits0)], rng.randrange(2), rng.randrange(1 << mw))
    while len(items) < budget:
        L = rng.choice([1, 1, 2, 3, 4, 6])
        txid = rng.randrange(1 << mw)
        # streams without Valid cannot pause inside a packet; with Valid (v) they can
        for j in range(L):
            if sig == "v" and j and rng.random() < 0.3:
                items.append(junk())
            items.append((1, [rng.randrange(1 << w) for _ in range(digits0)], 1 if j == L - 1 else 0, txid))
        gap = 0 if pause == "none" else rng.choice([0, 1, 2]) if pause == "between" else rng.choice([0, 5, 9])
        items += [junk() for _ in range(gap)]
    lines = []
    for i in range(n):
        it = items[i] if i < len(items) else (0, [0] * digits0, 0, 0)
        lines.append(f"P {it[0]} {'.'.join(str(x) for x in it[1])} {it[2]} {it[3]} {r[i] if i < body else 1} -")
    pp = 1 if rng.random() < 0.8 else 0
    header = (f"C {cid} w={w} mw={mw} min={digits0} chain={','.join(toks) or '-'} hold=1 polite=1 pp={pp} eopg=0 sig={sig} prod=seq "
              f"n={n} vk=sig_{sig}_{pause} rk=ready{int(ready_p * 100)}")
    return dict(header=header, plan=lines)


def gen_sig_cases(seed, tiername, tag, count, n):
    rng = random.Random(f"C16/{seed}/{tiername}/{tag}")
    cases = []; i = 0
    # RsPacketStream through reduceWidth / widthReduce and the register stages at 100 / 60 / 25 % readiness
    for toks, d0 in ((["re2"], 2), (["re3"], 3), (["re4"], 4), (["pr2"], 2), (["pr4"], 4), (["rd", "re2"], 2), (["re2", "rd"], 2), (["rd", "re3", "dl2"], 6),
                     (["rd"], 1), (["rb"], 1), (["dl3"], 2), (["rd", "re2", "re2"], 4), (["dl1", "pr3"], 3)):
        for rp in (1.0, 0.6, 0.25):
            cases.append(gen_sig_case(rng, f"{tag}{i}", n, "rs", tokens=toks, digits0=d0, ready_p=rp)); i += 1
    for toks, d0 in ((["rd"], 1), (["rb"], 2), (["dl2"], 1), (["ex2"], 1), (["px2"], 1), (["rd", "ex3", "dl1"], 1), (["px4", "rd"], 2)):
        cases.append(gen_sig_case(rng, f"{tag}{i}", n, "v", tokens=toks, digits0=d0)); i += 1
    for toks, d0 in ((["rd"], 1), (["rb"], 2), (["dl3"], 1), (["rd", "rb"], 3)):
        cases.append(gen_sig_case(rng, f"{tag}{i}", n, "s", tokens=toks, digits0=d0)); i += 1
    while len(cases) < count:
        cases.append(gen_sig_case(rng, f"{tag}{i}", n, rng.choice(["rs", "rs", "rs", "v", "s"]))); i += 1
    return cases


def gen_fifolat_cases(seed, tiername, tag, count, n):
    """strm::fifo under every way of REQUESTING a latency the API offers -- FifoLatency(n) exact n = 0..3, DontCare, AtLeast(n),
    AtMost(n) incl. AtMost(0) (= fall-through) -- x minDepth 1..16 x light-load schedules (push while the
    fifo is empty / draining, consumer stalls), alone and between register stages.  The stage specification does not depend on
    the request; only the latency bound does (checked for single-stage chains)."""
    rng = random.Random(f"C16/{seed}/{tiername}/{tag}")
    reqs = [("ff", None), ("fe", 0), ("fe", 1), ("fe", 2), ("fe", 3), ("fl", 0), ("fl", 1), ("fl", 2), ("fl", 3), ("fm", 0), ("fm", 1), ("fm", 2), ("fm", 3)]
    cases = []; i = 0
    def tok(k, nreq, d):
        return f"ff{d}" if k == "ff" else f"{k}{nreq * 100 + d}"
    vks = ["rand_sparse", "rand_sparse", "bursty", "rand"]
    rks = ["always", "rand", "bursty", "longstall", "alt", "adv_fall_on_rise", "rand_sparse"]
    for (k, nreq) in reqs:
        for d in (1, 2, 3, 4, 7, 16):
            cases.append(gen_case(rng, f"{tag}{i}", n, depth=1, hold=True, polite=True, tokens=[tok(k, nreq, d)], digits0=rng.choice([1, 2]),
                                  vkind=rng.choice(vks), rkind=rng.choice(rks))); i += 1
    while len(cases) < count:
        k, nreq = rng.choice(reqs); d = rng.randrange(1, 17)
        pre = rng.choice([[], [], ["rd"], ["rr"], ["dc"], ["st0"]]); post = rng.choice([[], [], ["rd"], ["rr"], ["dl2"]])
        toks = pre + [tok(k, nreq, d)] + post
        cases.append(gen_case(rng, f"{tag}{i}", n, depth=len(toks), hold=True if rng.random() < 0.85 else False, polite=True, tokens=toks,
                              digits0=rng.choice([1, 1, 2, 3]), vkind=rng.choice(vks), rkind=rng.choice(rks), be=rng.random() < 0.15)); i += 1
    return cases


def gen_expose_cases(seed, tiername, n):
    """single Packet.h widthReduce stages on shapes where its Empty/EmptyBits output was wrong before 32e913f
    (narrow beat not a power of two bits wide, or more than two digits)"""
    rng = random.Random(f"C16/{seed}/{tiername}/expose")
    cases = []
    for i, shape in enumerate([(3, 3, 3), (2, 2, 3), (6, 2, 4), (6, 3, 3), (4, 2, 3), (8, 2, 4 - 1), (3, 3, 3), (6, 2, 4)]):
        cases.append(gen_pkt_case(rng, f"expose{i}", n, True, expose=shape, pause=rng.choice(["before_last", "none", "every"])))
    return cases


def gen_cases(seed, tiername, tag, count, n, allow_fifo=False):
    rng = random.Random(f"C16/{seed}/{tiername}/{tag}")
    cases = []
    singles = [["rd"], ["rb"], ["rr"], ["dc"], ["dl"], ["st"], ["ex"], ["re"], ["px"], ["pr"], ["pm"]]
    i = 0
    # every single stage under every adversarial ready pattern, conformant producer
    if tag == "tie":
        for f in singles:
            for rk in ("adv_fall_on_rise", "adv_only_on_rise", "adv_fall_after_rise", "longstall", "rand"):
                cases.append(gen_case(rng, f"{tag}{i}", n, depth=1, hold=True, polite=True, force=f, rkind=rk)); i += 1
        # non-conformant producer / rude stall, single stages (tie only where the property needs conformance)
        for f in singles:
            cases.append(gen_case(rng, f"{tag}{i}", n, depth=1, hold=False, polite=False, force=f)); i += 1
        # pairs around the skid buffer and the width converters
        for a in ("rd", "rb", "rr", "st", "ex", "re", "dl"):
            for b in ("rr", "re", "ex", "pr", "px"):
                cases.append(gen_case(rng, f"{tag}{i}", n, depth=2, hold=True, force=[a, b])); i += 1
    while len(cases) < count:
        if allow_fifo:
            # every case of this family contains at least one strm::fifo stage at a random position
            depth = rng.choice([1, 2, 2, 3, 4, 5])
            force = [None] * depth
            force[rng.randrange(depth)] = rng.choice(["ff", "fz"])
            cases.append(gen_case(rng, f"{tag}{i}", n, depth=depth, allow_fifo=True, force=force))
        else:
            cases.append(gen_case(rng, f"{tag}{i}", n))
        i += 1
    return cases


def write_cases(path, cases):
    with open(path, "w") as f:
        for c in cases:
            f.write(c["header"] + "\n")
            f.write("\n".join(c["plan"]) + "\n")


# ----------------------------------------------------------------------------- reading logs
def read_log(path):
    """yields (header_line, params, [E lines]) and ('X ...', None, None)"""
    cur = None
    with open(path) as f:
        for line in f:
            line = line.rstrip("\n")
            if not line:
                continue
            if line[0] == "C":
                if cur:
                    yield cur
                p = {}
                toks = line.split()
                p["id"] = toks[1]
                for t in toks[2:]:
                    if "=" in t:
                        k, v = t.split("=", 1); p[k] = v
                cur = (line, p, [])
            elif line[0] == "E" and cur:
                cur[2].append(line)
            elif line[0] == "X":
                if cur:
                    yield cur
                    cur = None
                yield (line, None, None)
    if cur:
        yield cur


def parse_ev(line):
    lhs, rhs = line.split("|")
    lt = lhs.split(); rt = rhs.split()
    _, v, d, e, m, r, ctl = lt[:7]
    rin, vo, po, eo, mo = rt[:5]
    if "/" in rt[-1]:
        # streams without Valid (sig=rs|s): first field is SOP; rhs = rin valid() payload eop meta sop raw_sop/raw_eop
        raw = rt[-1].split("/")
        return dict(v=v == "1", d=tuple(int(x) for x in d.split(".")), e=e == "1", m=int(m), r=r == "1", ctl=ctl,
                    rin=rin, vo=vo, po=po, eo=eo, mo=mo, eb=None, ebo=None, so=rt[5], raw_sop=raw[0], raw_eop=raw[1])
    if len(lt) == 9:
        # stream with ByteEnable + Error: a digit of the oracle is the pair (byte, its enable bit), the meta word (txid, error)
        be = lt[7]
        return dict(v=v == "1", d=tuple((int(x), be[i]) for i, x in enumerate(d.split("."))), e=e == "1", m=(int(m), lt[8]), r=r == "1", ctl=ctl,
                    rin=rin, vo=vo, po=po, eo=eo, mo=mo, eb=None, ebo=None, beo=rt[5] if len(rt) > 5 else None, erro=rt[6] if len(rt) > 6 else None)
    return dict(v=v == "1", d=tuple(int(x) for x in d.split(".")), e=e == "1", m=int(m), r=r == "1", ctl=ctl,
                rin=rin, vo=vo, po=po, eo=eo, mo=mo, eb=int(lt[7]) if len(lt) > 7 else None, ebo=rt[5] if len(rt) > 5 else None)


def digits_of(po):
    return tuple(int(x) if x != "X" else "X" for x in po.split("."))


# ----------------------------------------------------------------------------- the independent oracle
st_branch = [None]   # per-call side channel: branch histogram of the last oracle_case call (single-stage cases)


def oracle_case(params, evlines):
    """list model + hold rule on one real trace.  returns (violation or None, stats, observations)"""
    st = collections.Counter()
    obs = collections.Counter()
    branch = collections.Counter()
    st_branch[0] = branch
    stages = parse_chain(params.get("chain", "-"), int(params.get("min", "1")))
    hold = params.get("hold", "1") == "1" or params.get("prod") == "seq"; polite = params.get("polite", "1") == "1"
    ebmode = params.get("eb", "0") == "1"
    w = int(params.get("w", "4"))
    has_px = any(k == "px" for k, _ in stages)
    info = chain_info(stages, hold, polite, eb=ebmode)
    if info["x_poison"]:
        obs[K_XREADY] += 1
        return None, st, obs
    expose = False   # (the shapes of the former widthReduce Empty/EmptyBits defect, fixed in 32e913f, are ordinary cases now)
    framed = params.get("sig") in ("rs", "s")      # no Valid signal: a beat is on offer from sop until its eop is transferred
    in_inside = out_inside = False
    busy = []
    tin, tout = [], []
    tout_cycle = []
    prev = None
    offered_last = None
    hold_break = None
    last_e = None
    em = params.get("em") == "1"                   # scl::Empty: the extra column counts empty BYTES (w = 8): convert to bits
    for idx, line in enumerate(evlines):
        e = parse_ev(line)
        if em:
            e["eb"] = e["eb"] * 8 if e.get("eb") is not None else None
            e["ebo"] = str(int(e["ebo"]) * 8) if (e.get("ebo") or "").isdigit() else e.get("ebo")
        if e["rin"] not in "01" or e["vo"] not in "01":
            return dict(event=idx, what="undefined handshake signal (ready_in / valid_out)", line=line), st, obs
        vo = e["vo"] == "1"; rin = e["rin"] == "1"
        if framed:
            st["sop_in"] += 1 if e["v"] else 0
            e["v"] = in_inside or e["v"]                      # what valid MEANS at the input
            if e["raw_sop"] not in "01" or (e["raw_eop"] not in "01" and (out_inside or e["raw_sop"] == "1")):
                return dict(event=idx, what="undefined sop / eop on the output of a stream without Valid", line=line), st, obs
            offered_out = out_inside or e["raw_sop"] == "1"    # ... and at the output, from the framing signals alone
            if vo != offered_out:
                return dict(event=idx, what=f"the library's valid(out) accessor says {int(vo)} but by the framing (inside a packet={out_inside}, sop={e['raw_sop']}) a beat is "
                            f"{'on offer' if offered_out else 'not on offer'} -- valid of a Sop/Eop stream must be 'inside a packet or sop', independent of ready", line=line,
                            context=evlines[max(0, idx - 3):idx + 1]), st, obs
            if vo and e["so"] != ("0" if out_inside else "1"):
                return dict(event=idx, what=f"sop(out)={e['so']} on a beat that is {'not ' if out_inside else ''}the first of its packet", line=line), st, obs
            if e["v"] and rin:
                in_inside = not e["e"]
            if vo and e["r"]:
                out_inside = e["raw_eop"] != "1"
        busy.append(bool(e["v"]) or not e["r"] or "1" in e["ctl"])
        if vo and (("X" in e["po"] and not has_px) or e["eo"] not in "01" or "X" in e["mo"]):
            return dict(event=idx, what="valid output beat with undefined payload / eop / meta", line=line), st, obs
        if vo and e.get("beo") is not None:
            if (("X" in e["beo"]) and not has_px) or e["erro"] not in "01":
                return dict(event=idx, what="valid output beat with undefined byte enables / error", line=line), st, obs
            ob = (tuple((x, e["beo"][i]) for i, x in enumerate(digits_of(e["po"]))), e["eo"] == "1", (int(e["mo"]), e["erro"]))
        else:
            ob = (digits_of(e["po"]), e["eo"] == "1", int(e["mo"])) if vo else None
        if ebmode and vo:
            ob = ob + (e["ebo"],)
        # hold rule on the real output wire
        if prev is not None and prev[0] is not None and not prev[1]:
            if ob != prev[0] and hold_break is None:
                hold_break = dict(event=idx, what=("output beat %s was offered with ready=0 and then %s" %
                                                   (prev[0], "withdrawn (valid dropped)" if ob is None else "changed to %s" % (ob,))),
                                  line=line, context=evlines[max(0, idx - 3):idx + 1])
        prev = (ob, e["r"])
        if e["v"] and rin:
            tin.append((e["d"], e["e"], e["m"]) + ((e["eb"],) if ebmode else ())); st["in_transfers"] += 1
        if vo and e["r"]:
            tout.append(ob); tout_cycle.append(idx); st["out_transfers"] += 1
        if len(stages) == 1:
            # single stage: the boundary events identify the branch of the stage machine taken in this cycle
            tin_now = e["v"] and rin; tout_now = vo and e["r"]
            cls = ("accept+deliver" if tin_now and tout_now else "accept_only(fill)" if tin_now else "deliver_only(drain)" if tout_now
                   else "hold_output(valid&!ready)" if vo else "refuse_input(valid&!ready_in)" if e["v"] else "idle")
            branch[f"{stages[0][0]}{stages[0][1] if stages[0][0] in ('ex', 're', 'dl', 'px', 'pr') else ''}:{cls}"] += 1
        if e["v"] and rin and vo and e["r"]:
            st["in_and_out_same_cycle"] += 1
        if vo and not e["r"]:
            st["out_backpressure"] += 1
        if e["v"] and not rin:
            st["in_backpressure"] += 1
        if last_e is not None and e["v"] and not last_e["v"] and last_e["r"] and not e["r"]:
            st["ready_falls_when_valid_rises"] += 1
        last_e = e
        offered_last = ((e["d"], e["e"], e["m"]) + ((e["eb"],) if ebmode else ())) if (e["v"] and not rin) else None
        st["cycles"] += 1
    # a single strm::fifo stage: the measured write-to-read latency of beats pushed into the EMPTY fifo against the request
    if len(stages) == 1 and stages[0][0] in ("ff", "fz", "fe", "fl", "fm") and not ebmode:
        kreq, areq = stages[0]
        req = ("dontcare", 0) if kreq == "ff" else ("exact", 0) if kreq == "fz" else ({"fe": "exact", "fl": "atleast", "fm": "atmost"}[kreq], areq // 100)
        nin = nout = 0; pending = None
        for idx, line in enumerate(evlines):
            e = parse_ev(line)
            vo_ = e["vo"] == "1"
            measured = None
            if pending is not None and vo_:
                measured = idx - pending; pending = None
            elif pending is None and e["v"] and e["rin"] == "1" and nin == nout:
                if vo_:
                    measured = 0
                else:
                    pending = idx
            if measured is not None:
                L = measured
                st[f"fifo_latency_{req[0]}{req[1]}_measured_{L}"] += 1
                bad = (req[0] == "exact" and L != req[1]) or (req[0] == "atleast" and L < req[1]) or (req[0] == "atmost" and L > req[1])
                if bad:
                    return dict(event=idx, what=f"strm::fifo requested with latency {req[0]}({req[1]}) shows a beat pushed into the empty fifo after {L} cycles", line=line,
                                context=evlines[max(0, idx - L - 1):idx + 1]), st, obs
            if e["v"] and e["rin"] == "1":
                nin += 1
            if vo_ and e["r"]:
                nout += 1
    # hold rule verdict
    if hold_break is not None:
        if info["expect_hold"]:
            hold_break["what"] = "hold rule broken on the output: " + hold_break["what"]
            return hold_break, st, obs
        if any(k == "st" for k, _ in stages) and not polite:
            obs[K_STALL] += 1
        else:
            obs["hold_break_nonconformant_producer"] += 1
    # transfer sequence
    idle_tail = 0
    for b_ in reversed(busy):
        if b_:
            break
        idle_tail += 1
    # "drained" = the producer has been idle with the consumer ready long enough for the capacity AND the output has fallen silent:
    # a chain that is still delivering at the end of the trace (e.g. a depth-1 fifo with latency >= 3 passes one beat every 6
    # cycles) is not stuck, its drain simply has not finished -- nothing can be concluded about missing beats yet
    lat_sum = 0
    for k_, a_ in stages:
        lat_sum += (1 if k_ in ("rd", "rb", "rr") else 2 if k_ == "dc" else a_ if k_ == "dl" else 2 if k_ in ("ff", "fz") else
                    max(2, a_ // 100) if k_ in ("fe", "fl", "fm") else 0)
    quiet_needed = max(16, 4 * (lat_sum + 2))
    quiet = 0
    for l in reversed(evlines):
        pe = parse_ev(l)
        if pe["vo"] == "1" and pe["r"]:
            break
        quiet += 1
    drained = idle_tail >= 2 * info["cap"] + 8 and quiet >= min(quiet_needed, max(1, idle_tail - 1))
    if idle_tail >= 2 * info["cap"] + 8 and not drained:
        st["drain_not_finished_output_still_flowing"] += 1
    if ebmode and expose:
        # single Packet.h widthReduce on a shape where its EmptyBits output is known to be wrong (K_PR_EMPTY): everything but
        # the emptyBits value must be right; the emptyBits value must be either right or exactly the known wrong formula
        r = max(1, stages[0][1]); exp = []
        for (d, eop, m, eb) in tin + ([offered_last] if offered_last else []):
            B = len(d) * w; bpo = B // r; q = len(d) // r
            valid = B - eb if eop else B
            k = -(-valid // bpo)
            for i in range(k):
                last = eop and i == k - 1
                exp.append((tuple(d[i * q:(i + 1) * q]), last, m, (k * bpo - valid) if last else None, (valid - (k - 1) * bpo) if last else None, bpo))
        for i, o in enumerate(tout):
            if i >= len(exp) or o[:3] != exp[i][:3]:
                return dict(event=tout_cycle[i], what=f"widthReduce output transfer #{i} is {o}, expected {exp[i][:4] if i < len(exp) else None} (digits / eop / TxId)"), st, obs
            if exp[i][3] is not None and o[3] != str(exp[i][3]):
                v, bpo = exp[i][4], exp[i][5]
                if o[3] == str(v % (1 << (bpo - 1).bit_length())):
                    obs[K_PR_EMPTY] += 1
                else:
                    return dict(event=tout_cycle[i], what=f"widthReduce eop beat {o}: emptyBits should be {exp[i][3]}"), st, obs
        st["oracle_expose_checked"] += 1
    elif ebmode and info["expect_transfers"]:
        # streams with EmptyBits: packets in == packets out, digit exact; eop beat not empty; TxId of the eop beat kept
        def tokens(recs, bits_of_beat, what):
            toks = []
            for (d, eop, m, eb) in recs:
                if eop:
                    if eb in ("X", None):
                        return None, f"{what}: eop beat with undefined emptyBits"
                    eb = int(eb)
                    if eb % w or eb >= len(d) * w:
                        return None, f"{what}: eop beat {d} with emptyBits={eb} of {len(d) * w} bits (empty or not digit aligned)"
                    nd = len(d) - eb // w
                    toks += list(d[:nd]) + [("EOP", m)]
                else:
                    toks += list(d)
            return toks, None
        tin_t, err = tokens(tin + ([offered_last] if offered_last else []), None, "input")
        tin_now, _ = tokens(tin, None, "input")
        tout_t, err2 = tokens(tout, None, "output")
        if err2:
            return dict(event=None, what=err2), st, obs
        if tin_t is not None:
            if tout_t != tin_t[:len(tout_t)]:
                k = next(i for i in range(len(tout_t)) if i >= len(tin_t) or tout_t[i] != tin_t[i])
                # locate the output beat that carries token k
                cnt = 0; cyc = None
                for rec, cy in zip(tout, tout_cycle):
                    nd = len(rec[0]) - (int(rec[3]) // w if rec[1] else 0)
                    cnt += nd + (1 if rec[1] else 0)
                    if cnt > k:
                        cyc = cy; break
                return dict(event=cyc, what=f"packet contents differ at element #{k} (output cycle {cyc}): delivered {tout_t[max(0, k - 4):k + 2]}, accepted {tin_t[max(0, k - 4):k + 2]} "
                            "(digits of the packets in order, ('EOP', txid) = packet boundary; truncated / extended packet, eop on the wrong beat, wrong emptyBits)"), st, obs
            if drained and not info["may_deadlock"]:
                st["drained_cases"] += 1
                if tin_now is not None and len(tout_t) != len(tin_now):
                    return dict(event=None, what=f"after {idle_tail} idle cycles only {len(tout_t)} of {len(tin_now)} packet elements came out (beats lost or stuck)"), st, obs
            st["oracle_packets_checked_emptybits"] += 1
    elif info["expect_transfers"]:
        fs = collections.Counter()
        exp_now = f_chain(stages, tin, fs)
        exp_ext = f_chain(stages, tin + ([offered_last] if offered_last else []))
        if len(tout) > len(exp_ext) or not all(rec_match(o, x) for o, x in zip(tout, exp_ext)):
            k = next(i for i in range(len(tout)) if i >= len(exp_ext) or not rec_match(tout[i], exp_ext[i]))
            return dict(event=tout_cycle[k], what=f"output transfer #{k} (cycle {tout_cycle[k]}) is {tout[k]}, the accepted input sequence mapped through the chain gives "
                        f"{exp_ext[k] if k < len(exp_ext) else 'nothing (more beats came out than went in)'} (loss / duplication / reordering / eop or meta on the wrong beat)",
                        out_transfers=tout[max(0, k - 3):k + 2], expected=exp_ext[max(0, k - 3):k + 2]), st, obs
        if not info["has_fifo"] and len(exp_now) - len(tout) > info["cap"]:
            return dict(event=None, what=f"{len(exp_now) - len(tout)} beats in flight exceed the chain capacity {info['cap']}"), st, obs
        # after the drain phase (consumer ready, stalls off, producer idle) everything accepted must have come out;
        # the idle tail must be long enough for the chain's capacity (each output beat needs one ready cycle)
        if drained and info["may_deadlock"]:
            if len(tout) != len(exp_now) or (st["in_transfers"] == 0 and st["in_backpressure"] > 20):
                obs[K_DEADLOCK] += 1
        elif drained:
            st["drained_cases"] += 1
            if len(tout) != len(exp_now):
                return dict(event=None, what=f"after {idle_tail} idle cycles with the consumer ready (chain capacity {info['cap']}) only {len(tout)} of {len(exp_now)} expected beats came out (beat lost or stuck)",
                            missing=exp_now[len(tout):len(tout) + 3]), st, obs
        if fs["eop_dropped"]:
            obs[K_EOP] += fs["eop_dropped"]
        if fs["px_short_group"]:
            st["widthExtend_short_last_beat"] += fs["px_short_group"]
        st["oracle_transfer_checked"] += 1
    else:
        st["oracle_transfer_skipped_nonconformant_into_reduce"] += 1
    st["nontrivial"] = 1 if (st["in_transfers"] >= 5 and st["out_transfers"] >= 5 and st["out_backpressure"] and st["in_backpressure"]) else 0
    return None, st, obs


# ----------------------------------------------------------------------------- running
CASE_TIMEOUT = 20          # seconds of wall clock one case may take in the harness (elaboration + 200..360 simulated cycles take ~10 ms)
hang_cases = []            # cases that did not finish within the limit (reported as VIOLATION)


def _limit_memory():
    import resource
    resource.setrlimit(resource.RLIMIT_AS, (12 << 30, 12 << 30))


def run_cases(exe, drv, cases, tag):
    """Runs the harness over the cases in a child process.  A case that does not finish within CASE_TIMEOUT seconds (e.g. a stage
    whose elaboration does not terminate) ends the child (SIGALRM / memory limit); it is recorded in hang_cases and the batch
    is continued behind it."""
    import subprocess, signal
    cf = WORK / f"cases_{tag}.txt"; impl = WORK / f"impl_{tag}.txt"; model = WORK / f"model_{tag}.txt"
    part = WORK / f"impl_{tag}.part.txt"
    remaining = list(cases)
    write_cases(cf, cases)
    open(impl, "w").close()
    hangs_here = 0
    while True:
        pc = WORK / f"cases_{tag}.part.txt"
        write_cases(pc, remaining)
        try:
            pr = subprocess.run([exe, "run", str(pc), str(part)], capture_output=True, text=True, timeout=600 + len(remaining),
                                env=dict(os.environ, C16_CASE_TIMEOUT=str(CASE_TIMEOUT)), preexec_fn=_limit_memory)
            rc, out = pr.returncode, pr.stdout + pr.stderr
        except subprocess.TimeoutExpired:
            rc, out = -signal.SIGALRM, "[batch timeout]"
        done = []
        if os.path.exists(part):
            txt = open(part).read()
            with open(impl, "a") as f:
                f.write(txt)
            done = [l.split()[1] for l in txt.splitlines() if l[:2] in ("C ", "X ")]
        if rc == 0:
            break
        ids = [c["header"].split()[1] for c in remaining]
        k = len(done)
        if k < len(remaining) and ids[:k] == done:
            # the first case without output is the one that did not finish
            hang_cases.append(dict(case=remaining[k], rc=rc, batch=tag, stderr=out[-300:]))
            hangs_here += 1
            remaining = remaining[k + 1:]
            if hangs_here >= 2 or not remaining:
                break
            continue
        return dict(error=f"harness rc={rc}: {out[-800:]}")
    res = dict(impl=str(impl), model=None, cases=str(cf))
    if drv:
        rc, out = V.run([drv, str(impl), str(model)], timeout=3000)
        if rc != 0:
            res["error"] = f"model driver rc={rc}: {out[-800:]}"
        else:
            res["model"] = str(model)
    return res


def new_agg():
    return dict(cases=0, events=0, hash=set(), classes=collections.Counter(), stage_hist=collections.Counter(), depth_hist=collections.Counter(),
                pattern_hist=collections.Counter(), flag_hist=collections.Counter(), obs=collections.Counter(), nomodel=0, nontrivial_hashes=set(),
                branches=collections.Counter(), pause_hist=collections.Counter(), be_hist=collections.Counter())


def compare(res, by_id, agg, mismatches, oracle_viol, xlines, samples):
    model_cases = read_log(res["model"]) if res.get("model") else None
    for case in read_log(res["impl"]):
        mcase = next(model_cases, None) if model_cases else None
        if case[1] is None:
            xlines.append(case[0]); continue
        hline, p, evs = case
        agg["cases"] += 1; agg["events"] += len(evs)
        stages = parse_chain(p.get("chain", "-"))
        for k, a in stages:
            agg["stage_hist"][k] += 1
        if p.get("be") == "1":
            agg["be_hist"][f"shape={p.get('shape', 'random')} enables={p.get('bestyle')}"] += 1
        if "pkt_" in p.get("vk", ""):
            agg["pause_hist"][f"{p.get('vk')} eb={p.get('eb', '0')}"] += 1
        agg["depth_hist"][len(stages)] += 1
        agg["pattern_hist"][f"valid={p.get('vk', '?')} ready={p.get('rk', '?')}"] += 1
        agg["flag_hist"][f"hold={p.get('hold')} polite={p.get('polite')} pp={p.get('pp')} aligned_eop={'1' if p.get('eopg', '0') != '0' else '0'} "
                         f"emptybits={p.get('eb', '0')} byteenable={p.get('be', '0')} signature={p.get('sig', 'rv')} producer={p.get('prod', 'cycle')}"] += 1
        h = hashlib.sha1((p.get("chain", "") + "\n" + "\n".join(evs)).encode()).hexdigest()
        agg["hash"].add(h)
        src = by_id.get(p["id"])
        xp = chain_info(parse_chain(p.get("chain", "-"), int(p.get("min", "1"))), True, True, eb=p.get("eb", "0") == "1")["x_poison"]
        if mcase is not None and mcase[1] is not None:
            if xp:
                pass        # simulation goes X at power-up (K_XREADY): nothing to compare with a two-valued machine
            elif "nomodel" in mcase[0]:
                agg["nomodel"] += 1
            else:
                mevs = mcase[2]
                if len(mevs) != len(evs):
                    mismatches.append(dict(case=hline, event=min(len(mevs), len(evs)), observed="<%d lines>" % len(evs), expected="<%d lines>" % len(mevs), src=src))
                else:
                    if p.get("sig") in ("rs", "s"):
                        evs_cmp = [x.rsplit(" ", 1)[0] for x in evs]      # the raw sop/eop column is not produced by the model
                    else:
                        evs_cmp = evs
                    for i, (a, b) in enumerate(zip(evs_cmp, mevs)):
                        if a != b:
                            mismatches.append(dict(case=hline, event=i, observed=a, expected=b, context=evs[max(0, i - 6):i + 1], src=src))
                            break
        v, st, obs = oracle_case(p, evs)
        for kk, vv in st.items():
            agg["classes"][kk] += vv
        for kk, vv in obs.items():
            agg["obs"][kk] += vv
        for kk, vv in (st_branch[0] or {}).items():
            agg["branches"][kk] += vv
        if st.get("nontrivial"):
            agg["nontrivial_hashes"].add(h)
        if v:
            v["case"] = hline; v["src"] = src
            oracle_viol.append(v)
        if len(samples) < 3 and len(evs) > 30 and st.get("nontrivial"):
            samples.append(dict(case=hline, events_10_to_22=evs[10:22]))


def shrink_plan(src, event):
    """the behaviour up to a cycle depends only on the plan up to that cycle: cut the plan after the failing cycle"""
    if not src or event is None:
        return src
    keep = min(len(src["plan"]), event + 2)
    return dict(header=src["header"], plan=src["plan"][:keep])


def main():
    t0 = time.time()
    tiername = V.tier()
    seed = V.seed()
    WORK.mkdir(parents=True, exist_ok=True)
    V.build_gatery()
    exe = V.build_harness(HARNESS)
    res = V.check_properties(CID)
    drv = V.build_model(CID)
    if "--build-only" in sys.argv:
        sys.exit(0)
    rep = V.Report(CID)
    rep.add_proof(res)
    known, _fixed = V.known_findings(CID)

    # ---------------- replay mode
    if "--replay" in sys.argv:
        rp = json.load(open(sys.argv[sys.argv.index("--replay") + 1]))
        still = []
        src = rp.get("replay_case")
        if src:
            r = run_cases(exe, drv, [src], "replay")
            if hang_cases:
                still.append(f"does not terminate within {CASE_TIMEOUT} s")
            elif "error" in r and "impl" not in r:
                still.append(r["error"])
            else:
                agg = new_agg(); mm, ov, xl, sm = [], [], [], []
                compare(r, {}, agg, mm, ov, xl, sm)
                still = mm + ov + xl
        else:
            still.append("replay names no concrete case (theorem / build level failure): run the check itself")
        print(json.dumps(dict(still_failing=bool(still), details=still[:2]), indent=1, default=str))
        sys.exit(1 if still else 0)

    agg = new_agg()
    mismatches, oracle_viol, xlines, samples, errors = [], [], [], [], []
    by_id = {}

    def run_batch(cases, tag, with_model=True):
        for c in cases:
            by_id[c["header"].split()[1]] = c
        r = run_cases(exe, drv if with_model else None, cases, tag)
        if "error" in r:
            errors.append(r["error"])
            if "impl" not in r:
                return
        compare(r, by_id, agg, mismatches, oracle_viol, xlines, samples)

    # ---------------- corpus first
    ncorpus = 0
    corpus_cases = []
    for cf in sorted(glob.glob(str(V.VERIF / "corpus" / CID / "*.txt"))):
        cur = None
        for line in open(cf):
            line = line.rstrip("\n")
            if line.startswith("C "):
                cur = dict(header=line, plan=[]); corpus_cases.append(cur)
            elif line.startswith("P ") and cur:
                cur["plan"].append(line)
    if corpus_cases:
        ncorpus = len(corpus_cases)
        run_batch(corpus_cases, "corpus")

    # ---------------- generated cases (tie + oracle)
    if tiername == "quick":
        ntie, nfifo, npkt, npkteb, nbe, nsig, nfl, npktem, ncyc = 1500, 150, 500, 400, 500, 400, 400, 400, 200
    else:
        ntie, nfifo, npkt, npkteb, nbe, nsig, nfl, npktem, ncyc = 15000, 1500, 5000, 4000, 5000, 4000, 4000, 4000, 360
    run_batch(gen_cases(seed, tiername, "tie", ntie, ncyc), "tie")
    # chains containing strm::fifo: no Coq machine -> independent oracle only
    run_batch(gen_cases(seed, tiername, "fifo", nfifo, ncyc, allow_fifo=True), "fifo")
    # strm::fifo under every latency request kind x depth 1..16 x light load
    run_batch(gen_fifolat_cases(seed, tiername, "fifolat", nfl, ncyc), "fifolat")
    # packet family: whole packets with pauses at packet-beat boundaries (Packet.h widthReduce / widthExtend / matchWidth)
    run_batch(gen_pkt_cases(seed, tiername, "pkt", npkt, ncyc, False), "pkt")
    # the same on streams that carry EmptyBits (partial last beats): no Coq machine -> packet oracle only
    run_batch(gen_pkt_cases(seed, tiername, "pkteb", npkteb, ncyc, True), "pkteb")
    # ... and on streams that carry scl::Empty (empty BYTES)
    run_batch(gen_pkt_cases(seed, tiername, "pktem", npktem, ncyc, True, em=True), "pktem")
    # single widthReduce stages on the shapes on which its Empty/EmptyBits output used to be wrong (fixed: 32e913f)
    run_batch(gen_expose_cases(seed, tiername, ncyc), "pkteb_expose")
    # the other stream signatures: Ready+Sop+Eop without Valid (derived valid()), Valid-only, Sop/Eop-only
    run_batch(gen_sig_cases(seed, tiername, "sig", nsig, ncyc), "sig")
    # streams with ByteEnable + Error through every stage kind (ratios 3 / 4, 2- and 4-byte narrow beats)
    run_batch(gen_be_cases(seed, tiername, "be", nbe, ncyc), "be")

    # ---------------- verdict
    tie_broken = bool(mismatches) or drv is None or not res["ok"] or bool(errors) or bool(xlines)
    search_info = {}
    if tie_broken and not oracle_viol:
        budget = 60 if tiername == "quick" else 600
        ts = time.time(); rounds = 0
        # start from the disagreeing chains, then fresh cases
        seeds_from = [m["src"] for m in mismatches[:20] if m.get("src")]
        while time.time() - ts < budget and not oracle_viol and rounds < (6 if tiername == "quick" else 60):
            rng = random.Random(f"C16/search/{seed}/{rounds}")
            cases = []
            for j, s in enumerate(seeds_from):
                # same chain, fresh conformant stimulus with a drain phase
                hp = dict(t.split("=", 1) for t in s["header"].split()[2:] if "=" in t)
                force = [k for k, _ in parse_chain(hp.get("chain", "-"))]
                for q in range(6):
                    cases.append(gen_case(rng, f"s{rounds}_{j}_{q}", 240, depth=max(1, len(force)), hold=True, polite=True, force=force or None))
            cases += gen_cases(seed * 31 + rounds, "search", f"s{rounds}x", 300, 240)
            a2 = new_agg(); bid = {c["header"].split()[1]: c for c in cases}
            r = run_cases(exe, None, cases, f"search{rounds}")
            rounds += 1
            if "impl" in r:
                compare(r, bid, a2, [], oracle_viol, [], [])
                search_info["extra_cases"] = search_info.get("extra_cases", 0) + a2["cases"]
        search_info["rounds"] = rounds

    def emit(obj, nofail=False, tag=None):
        txt = json.dumps(obj, sort_keys=True, default=str)
        for kf in known:
            if kf.split()[0] in txt:
                rep.known(kf); return
        rep.violation(obj, nofail=nofail, tag=tag)

    if hang_cases:
        h = hang_cases[0]
        emit(dict(property=CID, kind="does-not-terminate", case=h["case"]["header"], what=f"the chain does not elaborate / simulate within {CASE_TIMEOUT} s of wall clock "
                  f"(harness child ended with rc={h['rc']}; a normal case takes about 10 ms): a stage of the chain never returns",
                  n_such_cases=len(hang_cases), other_cases=[x["case"]["header"] for x in hang_cases[1:5]],
                  replay_case=dict(header=h["case"]["header"], plan=h["case"]["plan"][:40]), how_to_replay="checks/C16.py --replay <this file>"), tag="hang")
    if oracle_viol:
        v = oracle_viol[0]
        src = shrink_plan(v.get("src"), v.get("event"))
        emit(dict(property=CID, kind="list-oracle", case=v["case"], event=v.get("event"), what=v["what"], observed=v.get("line"),
                  details={k: v[k] for k in v if k in ("context", "out_transfers", "expected", "missing")},
                  expected="output transfers == accepted input transfers mapped through the chain (pack/unpack), in order, nothing lost; valid and payload held until accepted",
                  replay_case=src, how_to_replay="checks/C16.py --replay <this file>", n_failing_cases=len(oracle_viol),
                  broke=("correspondence with the Coq machines also differs" if mismatches else "independent list oracle on the real scl stages")), tag="oracle")
    elif tie_broken:
        if mismatches:
            m = mismatches[0]
            emit(dict(property=CID, kind="tie-mismatch", case=m["case"], event=m["event"], observed=m["observed"], expected=m["expected"],
                      context=m.get("context"), n_mismatching_cases=len(mismatches), replay_case=shrink_plan(m.get("src"), m["event"] if isinstance(m["event"], int) else None),
                      what="the real scl stage chain and the extracted Coq machines (StreamDefs.v) disagree cycle-accurately on this schedule; the theorems of Properties_C16.v no longer describe the implementation",
                      theorems_failed=res["failed"], model_extracts=drv is not None, search=search_info,
                      how_to_replay="checks/C16.py --replay <this file>"), nofail=True, tag="tie")
        elif xlines:
            emit(dict(property=CID, kind="construction-error", case=xlines[0], what="the real library threw while building / simulating a legal chain", search=search_info), nofail=True, tag="throw")
        elif not res["ok"]:
            emit(dict(property=CID, kind="proof", failed=res["failed"], log=res["log"][-1500:], what="theorems of Properties_C16.v no longer check", search=search_info), nofail=True, tag="proof")
        elif drv is None:
            emit(dict(property=CID, kind="model", what="Extract_C16.v no longer compiles", log=V.last_model_log[-1500:], search=search_info), nofail=True, tag="model")
        else:
            emit(dict(property=CID, kind="harness", what="harness / driver run failed", errors=errors[:3], search=search_info), nofail=True, tag="harness")

    # by-design effects: KNOWN-FINDING only when observed in this run and listed
    for key in (K_STALL, K_EOP):
        if agg["obs"].get(key):
            for kf in known:
                if kf.startswith(key):
                    rep.known(kf)
    # ---------------- evidence
    cov = rep.cov
    cov["evaluations"] = agg["cases"]
    cov["distinct_nontrivial"] = len(agg["nontrivial_hashes"])
    cov["rule"] = ("a case = one chain of real scl stream stages (depth 0..5, seeded) simulated for n cycles under one seeded valid / ready / stall plan; "
                   "non-trivial = at least 5 input and 5 output transfers AND back-pressure observed both at the output (valid_out & !ready_out) and at the input "
                   "(valid_in & !ready_in); distinct = distinct sha1 of (chain, full per-cycle log). Counted in this run.")
    cov["samples"] = samples
    cov["traces_validated_against_impl"] = agg["cases"] - agg["nomodel"]
    cov["cycles_compared"] = agg["events"]
    cov["tie_mismatching_cases"] = len(mismatches)
    cov["corpus_cases"] = ncorpus
    cov["cases_without_coq_machine_oracle_only"] = agg["nomodel"]
    cov["stage_histogram"] = dict(agg["stage_hist"])
    cov["depth_histogram"] = {str(k): v for k, v in sorted(agg["depth_hist"].items())}
    cov["pattern_histogram"] = dict(sorted(agg["pattern_hist"].items()))
    cov["flag_histogram"] = dict(sorted(agg["flag_hist"].items()))
    cov["packet_pause_placement_histogram"] = dict(sorted(agg["pause_hist"].items()))
    cov["byte_enable_shape_histogram"] = dict(sorted(agg["be_hist"].items()))
    cov["case_classes"] = dict(agg["classes"])
    cov["model_branches_single_stage_cases"] = dict(sorted(agg["branches"].items()))
    cov["by_design_observations"] = dict(agg["obs"])
    cov["search_mode"] = search_info
    cov["theorem_vs_differential"] = ("THEOREM (all schedules): utils.h stages, Packet.h widthExtend/widthReduce/matchWidth on streams without Empty/EmptyBits, "
                                      "arbitrary chains of them. DIFFERENTIAL ONLY: strm::fifo, and every chain on a stream that carries EmptyBits (packet oracle).")
    cov["explanation"] = ("Theorems are universal over all schedules (arbitrary lists of per-cycle inputs), all ratios, all chains (sdesc). What is sampled is only the "
                          "correspondence StreamDefs.v <-> utils.h. strm::fifo has no Coq machine here (C15 owns it): chains with ff/fz run against the python list oracle only.")
    rep.assumptions += [
        "StreamDefs.v is a hand transcription of utils.h (regDownstream, regDownstreamBlocking, regReady, regDecouple, delay, stall, extendWidth, reduceWidth); agreement with the code is established by the sampled cycle-accurate diff only",
        "producer-hold hypothesis (ready/valid protocol): reduceWidth's transfer theorem and every conditional hold theorem assume the producer keeps valid, payload, eop and meta of an offered beat until it is accepted; a non-conformant producer (hold=0 cases) is used for the tie only",
        "stall: the hold theorem assumes the stall condition does not rise while a beat waits at the stall stage's own output (stall_hold_refuted shows the unconditional form is false; DESIGN Q5, by design)",
        "extendWidth (utils.h) takes eop/meta from the last packed sub-beat: packet boundaries are preserved only for packets aligned to the ratio (extendWidth_unaligned_eop_refuted); Packet.h widthExtend keeps them for all packet lengths (widthExtend_keeps_packet_boundaries) but leaves the digits above a short last beat stale / undefined (wildcards in the oracle)",
        "the optional reset input of extendWidth / reduceWidth is tied to '0'; Sop and Empty (bytes) meta signals are not exercised",
        "ByteEnable + Error: harness mode be=1 (RvPacketStream<UInt,TxId,ByteEnable,Error>, digit = byte, payloads up to 96 bit) through every stage kind; in the Coq model a digit is then the pair (byte, its enable bit) encoded as byte + 256*enable and the error bit rides in the meta word (txid + 8*error): the machines never look inside a digit / meta word, so the universal theorems state that enables and error stay attached and are sliced / packed with their bytes (unpack_digit_view, pack_digit_view, *_byteEnable_slices); that the REAL stages treat payload and enables in lockstep is established by the cycle-accurate diff and, independently, by the python oracle which slices the enables itself",
        "observation (not checked, loud on the real code): Packet.h widthExtend on a ByteEnable stream elaborates only from a one-byte source to 2 or 4 bytes (8b->16b, 8b->32b are in the family); wider sources fail with DesignCheck 'missmatching operands size', 8b->24b with Assertion rangeOffset < totalWidth",
        "Packet.h widthExtend / widthReduce are modelled (pextendS / preduceS) and tied cycle-exactly for streams WITHOUT Empty/EmptyBits; streams that carry EmptyBits (partial last beats, truncation path of widthReduce) have no Coq machine: they are checked by the packet oracle only (packets in == packets out digit exact, eop beat not empty, TxId of the eop beat kept, hold rule, drain) -- differential, not theorem",
        "scl::Empty (empty BYTES; harness em=1, RvPacketStream<UInt,TxId,Empty>, digit = byte) runs through the same packet family and packet oracle as EmptyBits: widthExtend ratios 2..8, widthReduce, matchWidth stand-in, registers, stall, fifo; the FIRST packet after reset is drawn from the full length distribution (1 byte .. several wide beats, exactly one wide beat) with and without back pressure on its first beat, and the byte-level packet sequence is compared from the very first transfer; differential only (no Coq machine for the Empty arithmetic)",
        "Packet.h matchWidth cannot be instantiated (Packet.h:798 calls in.width() on the Stream object; reported, not repaired): harness token pm<t> is a stand-in that makes the same three-way choice on in->width() and calls the real widthExtend / widthReduce; the model's matchD mirrors that choice",
        "excluded from generation and listed as observations: (a) widthExtend ratio 1 on a stream with EmptyBits (DesignCheck 'missmatching operands size'); (b) regDownstreamBlocking combinationally in front of widthExtend (or, with EmptyBits, widthReduce): ready(in) reads eop/emptyBits of a register without reset value, the simulation stays X from power-up (X-pessimism, harmless in hardware); (c) widthExtend | widthReduce on EmptyBits streams of some non power of two widths (9b->27b->9b): widthReduce's `bitsLeft - zext(emptyBits(in))` rejects the wider EmptyBits that widthExtend produces (elaboration error, no behavioural defect)",
        "packet family: the producer sends whole packets (prod=seq) with idle slots directly in front of the last beat of a packet / in front of one-beat packets / everywhere / nowhere while the consumer is always or mostly ready; emptyBits values are digit aligned (multiples of w)",
        "other stream signatures (harness sig=rs|v|s): RsPacketStream (Ready, Sop, Eop, no Valid), VPacketStream (no Ready), SPacketStream (Sop, Eop). For rs / s the observation interface is the library's derived accessor valid(out) (pinned out) plus the raw sop/eop of the output; the oracle decides independently from the framing whether a beat is on offer (from sop until its eop is transferred) and requires the accessor to agree in every cycle, sop to sit on exactly the first beat of each packet, and the usual transfer / hold / drain rules with the derived valid at the input. Model: StreamRs.v (rs_flags = the flag register, inpkt = the specification, rsCycles supplies the derived valid to the unchanged stage machines); output sop of the model run is the framing of its own output transfers",
        "stage kinds per signature are what the library accepts: regReady / regDecouple / strm::fifo / stall assign valid(...) and do not compile without a Valid signal; utils.h extendWidth turns an Rs stream into a different type (adds Valid); Packet.h widthExtend on a stream without Valid offers partial wide beats (sop is high while the group is still incomplete) -- not generated; after Packet.h widthReduce the sop signal has lost its reset value, so later register stages power up with undefined sop and the derived valid is X until the first packet has ended (seen with pr2,rd,dl3) -- pr is only generated as the last stage of an rs chain; Sop as an additional meta signal of Valid-carrying streams is not exercised",
        "strm::fifo is exercised under every way of requesting a latency: FifoLatency(n) exact n=0..3, DontCare, AtLeast(0..3), AtMost(0..3), minDepth 1..16, light-load schedules, alone and between register stages (also on ByteEnable streams); for single-stage chains the measured write-to-read latency of beats pushed into the empty fifo is checked against the request (exact ==, AtLeast >=, AtMost <=). AtMost(0) never finished elaborating before 19458b4; every case now runs under a wall-clock limit in the harness child (C16_CASE_TIMEOUT) and a case that exceeds it is a VIOLATION 'does-not-terminate' with the case as replay; dual-clock FIFOs are not reachable through the single-clock strm::fifo(stream, depth, latency) overload used here (C15 covers scl::Fifo dual clock)",
        "strm::fifo is a black box for the Coq part (C15 owns its machine); here it is covered by the list oracle and the hold rule only",
        "reference simulator semantics (registers, reset, clock edges) are taken as the meaning of the generated circuit (C01/C04 cover them); values are sampled before each rising edge",
        "liveness is proved for the register stages (regDownstream, regDownstreamBlocking, regReady, regDecouple, delay n) and checked by the drain phase of every generated case for all chains",
    ]
    cov["wall_total_s"] = round(time.time() - t0, 1)
    rep.finish()


if __name__ == "__main__":
    main()
