#!/bin/bash
# MANIFEST.setup_cmd: build everything from files on disk (offline).
set -e
V="$(cd "$(dirname "$0")/.." && pwd)"
cd "$V"
bin/build_gatery.sh
# source-regenerated Coq files (S3) first, so that the full Coq build sees them
mkdir -p coq/Gatery/gen
python3 translate/C13_keywords.py /repo coq/Gatery/gen/Keywords.v || true
python3 translate/C04_eventorder.py /repo coq/Gatery/gen/EventOrder.v || true
python3 translate/C08_logicplanes.py /repo coq/Gatery/gen/LogicSrc.v || true
python3 translate/C18_bitmanip.py /repo coq/Gatery/gen/BitManipSrc.v || true
python3 - <<'PY'
import sys; sys.path.insert(0, "lib")
import vcommon as V
V.coq_project()
rc, log = V.coq_make()
print(log[-2000:])
PY
# pre-build harness binaries and extracted models of every registered check
for c in $(python3 -c "import json;print(' '.join(sorted({c['property_id'] for c in json.load(open('MANIFEST.json'))['checks']})))"); do
  if [ -f "checks/$c.py" ]; then python3 "checks/$c.py" --build-only || true; fi
done
echo setup done
