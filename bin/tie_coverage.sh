#!/bin/bash
# Measures which lines of the MODELLED C++ sources the correspondence runs of the quick checks
# execute (gcov): the tie of a hand model is only as good as the code it reaches.  Scratch build in
# $COV (default /tmp/verif_cov, removed at the end unless KEEP=1); writes tie_coverage.txt.
# Not part of any registered check.
V="$(cd "$(dirname "$0")/.." && pwd)"
COV="${COV:-/tmp/verif_cov}"
mkdir -p "$COV/gatery"
if [ ! -f "$COV/gatery/build.ninja" ]; then
  cmake -G Ninja -S /repo -B "$COV/gatery" -DCMAKE_BUILD_TYPE=Debug \
    -DCMAKE_CXX_FLAGS="-O0 -DGATERY_VERIF -Wno-error --coverage" > "$COV/gatery/cmake.log" 2>&1 || exit 2
fi
export VERIF_BUILD_DIR="$COV" VERIF_EXTRA_CXXFLAGS="--coverage"
cd "$V"
find "$COV" -name '*.gcda' -delete
for c in ${CHECKS:-C01 C02 C03 C04 C05 C06 C07 C08 C09 C10 C11 C12 C13 C14 C15 C16 C17 C18 C19 C20}; do
  timeout 7200 python3 checks/$c.py > "$COV/$c.log" 2>&1; echo "$c rc=$?"
done
git -C "$V" checkout -q evidence/ 2>/dev/null
# gcov summaries for the anchored / modelled files
OBJ="$COV/gatery/CMakeFiles"
out="$V/tie_coverage.txt"
{ echo "line coverage of modelled gatery sources under the quick correspondence runs ($(date -u +%F))"; } > "$out"
cd "$COV" && mkdir -p gcov && cd gcov
for f in $(find "$OBJ" -name '*.gcda' | grep -E "hlim/(coreNodes|supportNodes|postprocessing)/|hlim/(Circuit|CNF|Clock|NodeIO|Node|NodeGroup|Subnet|RegisterRetiming|GraphTools)\.cpp|simulation/(ReferenceSimulator|BitVectorState|WaveformRecorder|SigHandle)|simulation/waveformFormats|simulation/simProc|frontend/(ConditionalScope|BitVector|Bit|UInt|SInt|SignalArithmeticOp|SignalLogicOp|SignalCompareOp|SignalBitshiftOp|Memory|Clock|Scope|Area)\.cpp|export/vhdl/|scl/(Fifo|math|Counter|crc|cdc|Adder)|scl/utils/|scl/stream"); do
  gcov -o "$(dirname "$f")" "$f" 2>/dev/null | grep -A1 "^File '/repo/source" | paste - - | sed "s/File '\/repo\/source\/gatery\///; s/'\s*Lines executed:/ /; s/ of / /" 
done | sort -u | awk '{printf "%-70s %8s of %s lines\n", $1, $2, $3}' >> "$out"
cd "$V"; [ "${KEEP:-0}" = 1 ] || rm -rf "$COV"
tail -5 "$out"
