#!/bin/bash
# Independent re-check of the compiled property files with coqchk (takes several minutes and a
# few GB); writes coqchk_report.txt (summary + the axioms coqchk lists for everything loaded).
cd "$(dirname "$0")/../coq" || exit 2
mods=$(ls Gatery/Properties_*.vo 2>/dev/null | sed 's|/|.|g; s|\.vo$||')
[ -z "$mods" ] && { echo "no compiled property files (run bin/setup.sh first)"; exit 2; }
out=../coqchk_report.txt
{ echo "coqchk -o -silent -Q Gatery Gatery <all Properties_* modules>   ($(coqchk --version 2>/dev/null | head -1))"; date -u; } > $out
timeout 7200 coqchk -o -silent -Q Gatery Gatery $mods >> $out 2>&1
rc=$?
echo "exit status: $rc" >> $out
tail -30 $out
exit $rc
