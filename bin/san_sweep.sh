#!/bin/bash
# One-off exploration (not a registered check): builds gatery with UBSan (recovering, reports to
# files) in a scratch directory and runs the correspondence harnesses of all quick checks on it;
# every distinct "runtime error" location is listed in san_sweep.txt.  Latent undefined behaviour
# (signed overflow, over-wide shifts, ...) shows up here even when the optimised build "works".
V="$(cd "$(dirname "$0")/.." && pwd)"
SAN="${SAN:-/tmp/verif_san}"
mkdir -p "$SAN/gatery" "$SAN/reports"
if [ ! -f "$SAN/gatery/build.ninja" ]; then
  cmake -G Ninja -S /repo -B "$SAN/gatery" -DCMAKE_BUILD_TYPE=Release \
    -DCMAKE_CXX_FLAGS="-O1 -g1 -DGATERY_VERIF -Wno-error -fsanitize=undefined -fsanitize-recover=all -fno-sanitize=vptr" > "$SAN/gatery/cmake.log" 2>&1 || exit 2
fi
export VERIF_BUILD_DIR="$SAN" VERIF_EXTRA_CXXFLAGS="-fsanitize=undefined -fsanitize-recover=all -fno-sanitize=vptr"
export UBSAN_OPTIONS="log_path=$SAN/reports/ubsan:print_stacktrace=0"
cd "$V"
rm -f "$SAN"/reports/*
for c in ${CHECKS:-C01 C02 C03 C04 C05 C06 C07 C08 C09 C10 C11 C12 C13 C14 C15 C16 C17 C18 C19 C20}; do
  timeout 7200 python3 checks/$c.py > "$SAN/$c.log" 2>&1; echo "$c rc=$?"
done
git -C "$V" checkout -q evidence/ 2>/dev/null
cat "$SAN"/reports/* 2>/dev/null | grep "runtime error" | sed 's/^[^/]*//' | sort | uniq -c | sort -rn > "$V/san_sweep.txt"
wc -l "$V/san_sweep.txt"; head -40 "$V/san_sweep.txt"
[ "${KEEP:-0}" = 1 ] || rm -rf "$SAN"
