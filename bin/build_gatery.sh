#!/bin/bash
# Incremental build of /repo's *current working tree* with hooks on, into /verif/build/gatery.
set -e
V="$(cd "$(dirname "$0")/.." && pwd)"
B="${VERIF_BUILD_DIR:-$V/build}/gatery"
R="${VERIF_REPO:-/repo}"
mkdir -p "$B"
if [ ! -f "$B/build.ninja" ]; then
  cmake -G Ninja -S "$R" -B "$B" -DCMAKE_BUILD_TYPE=Release \
    -DCMAKE_CXX_FLAGS="-O1 -DGATERY_VERIF -Wno-error" > "$B/cmake.log" 2>&1 || { cat "$B/cmake.log"; exit 2; }
fi
cmake --build "$B" --target gatery_core gatery_scl -j16 > "$B/build.log" 2>&1 || { tail -50 "$B/build.log"; exit 2; }
