#!/usr/bin/env python3
"""Compose MANIFEST.json from manifest.d/*.json (one file per claimed property) —
every property without a file is listed under not_applicable with the reason in
manifest.d/not_applicable.json."""
import json, glob, os, sys
V = os.path.dirname(os.path.dirname(os.path.abspath(__file__)))
props = [json.loads(l)["id"] for l in open(os.path.join(V, "properties.jsonl"))]
base = json.load(open(os.path.join(V, "manifest.d", "base.json")))
na = json.load(open(os.path.join(V, "manifest.d", "not_applicable.json")))
checks = []
for f in sorted(glob.glob(os.path.join(V, "manifest.d", "C*.json"))):
    c = json.load(open(f))
    cid = c["property_id"]
    c.setdefault("quick_cmd", f"python3 checks/{cid}.py --tier quick")
    c.setdefault("thorough_cmd", f"python3 checks/{cid}.py --tier thorough")
    c.setdefault("evidence_file", f"/verif/evidence/{cid}.json")
    c.setdefault("replay_cmd_template", f"python3 checks/{cid}.py --replay {{path}}")
    checks.append(c)
claimed = {c["property_id"] for c in checks}
base["checks"] = checks
base["not_applicable"] = [dict(property_id=p, reason=na.get(p, "not yet claimed: check under construction")) for p in props if p not in claimed]
json.dump(base, open(os.path.join(V, "MANIFEST.json"), "w"), indent=1)
print("claimed:", sorted(claimed))
