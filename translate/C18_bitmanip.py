#!/usr/bin/env python3
"""S3 translator for C18 (and every model that uses the word helpers): regenerate
coq/Gatery/gen/BitManipSrc.v from the CURRENT text of source/gatery/utils/BitManipulation.h.

Translated functions (generic, non-BMI templates, T = std::uint64_t / std::size_t on x86-64; the
harness checks at run time that __BMI__ is undefined):
    andNot(a, b)   bitMaskRange(start, count)   isMaskSet(a, start, count)
    bitfieldExtract(a, start, count)   bitfieldInsert(a, start, count, v)   lowestSetBitMask(val)
    bitExtract(a, idx)   bitSet(a, idx)   bitClear(a, idx)   bitToggle(a, idx)      (std::uint64_t overloads)
Each becomes `src_<name>` over N with explicit 64-bit wrap-around (wrap64 / shl64 / not64 / sub64 of
BvsDefs.v): `x << n` -> shl64 x n (meaningful for n < 64, as in C), `~x` -> not64 x,
`x - y` -> sub64 x y (mod 2^64), `x >> n` -> N.shiftr, & | ^ -> N.land N.lor N.lxor,
`sizeof(T) * 8` -> 64, `T{1}` / `T(0)` / `1ull` / `0xFF` -> numerals; a bool result is `negb (r =? 0)`.

Understood function body shapes (after comment / disabled-preprocessor-branch removal):
    { return E; }
    { if (C) return E; return E; }
    { x &= K; y &= K; return E; }                     (parameter masking)
    { T m = E; return E; }  /  { auto m = E; return E; }    (one local)
    { a |= E; }  { a = E; }                            (reference parameter updated: the new value is the result)
Anything else -> FAIL CLOSED (generated file and compiled copies removed, exit 3, reason printed).
`#if 1 ... #else ... #endif` keeps the first branch; `#ifdef __BMI__ ... #endif` blocks are dropped
(BMI specialisations are not compiled in).

Usage: C18_bitmanip.py <repo-root> <out.v>
"""
import os, re, sys


class Shape(Exception):
    pass


def strip_comments(s):
    out, i, n = [], 0, len(s)
    while i < n:
        if s.startswith("//", i):
            j = s.find("\n", i); i = n if j < 0 else j
        elif s.startswith("/*", i):
            j = s.find("*/", i + 2)
            if j < 0: raise Shape("unterminated comment")
            i = j + 2
        else:
            out.append(s[i]); i += 1
    return "".join(out)


def preprocess(s):
    """resolve the conditionals of this header for: gcc/clang, x86-64, no BMI/BMI2, not MSVC"""
    defined = {"AMD64": True, "__BMI__": False, "__BMI2__": False, "_MSC_VER": False}
    out, stack = [], []      # stack of (taking, seen_true)
    for line in s.split("\n"):
        t = line.strip()
        m = re.match(r"#\s*(if|ifdef|ifndef|else|elif|endif)\b(.*)", t)
        if not m:
            if all(x[0] for x in stack) and not t.startswith("#"):
                out.append(line)
            continue
        d, arg = m.group(1), m.group(2).strip()
        if d == "ifdef":
            if arg not in defined: raise Shape(f"#ifdef {arg}: unknown macro")
            stack.append([defined[arg], defined[arg]])
        elif d == "ifndef":
            if arg not in defined: raise Shape(f"#ifndef {arg}: unknown macro")
            stack.append([not defined[arg], not defined[arg]])
        elif d == "if":
            if arg == "1": v = True
            elif arg == "0": v = False
            elif arg == "defined(_M_AMD64) || defined(__amd64__)": v = True
            else: raise Shape(f"#if {arg}: not understood")
            stack.append([v, v])
        elif d == "else":
            if not stack: raise Shape("#else without #if")
            stack[-1][0] = not stack[-1][1]; stack[-1][1] = True
        elif d == "elif":
            raise Shape("#elif not understood")
        elif d == "endif":
            if not stack: raise Shape("#endif without #if")
            stack.pop()
    if stack: raise Shape("unterminated #if")
    return "\n".join(out)


def matching(s, i, o="{", c="}"):
    d = 0
    for j in range(i, len(s)):
        if s[j] == o: d += 1
        elif s[j] == c:
            d -= 1
            if d == 0: return j
    raise Shape("unbalanced " + o)


# ---------------------------------------------------------------- expressions
TOK = re.compile(r"\s*(0[xX][0-9a-fA-F]+(?:ull|ULL|u|U)?|\d+(?:ull|ULL|u|U)?|[A-Za-z_][A-Za-z_0-9:]*|<<|>>|==|!=|>=|<=|[~&^|()+\-*<>{},])")


def tokenize(e):
    toks, pos = [], 0
    e = e.strip()
    while pos < len(e):
        m = TOK.match(e, pos)
        if not m: raise Shape(f"cannot tokenize {e[pos:pos+20]!r} in {e!r}")
        toks.append(m.group(1)); pos = m.end()
    return toks


class P:
    """C expression -> Coq term over N (64-bit unsigned semantics). vars: names usable as operands."""
    def __init__(self, expr, vars_, funcs):
        self.toks = tokenize(expr); self.i = 0; self.vars = vars_; self.funcs = funcs; self.src = expr

    def peek(self): return self.toks[self.i] if self.i < len(self.toks) else None
    def eat(self, t=None):
        x = self.peek()
        if x is None or (t is not None and x != t): raise Shape(f"expected {t!r}, got {x!r} in {self.src.strip()!r}")
        self.i += 1; return x

    def parse(self):
        r = self.bor()
        if self.peek() is not None: raise Shape(f"trailing {self.peek()!r} in {self.src.strip()!r}")
        return r

    # precedence: | < ^ < & < (== !=) < (>= <= < >) < (<< >>) < (+ -) < * < unary
    def bor(self):
        r = self.bxor()
        while self.peek() == "|": self.eat(); r = f"(N.lor {r} {self.bxor()})"
        return r
    def bxor(self):
        r = self.band()
        while self.peek() == "^": self.eat(); r = f"(N.lxor {r} {self.band()})"
        return r
    def band(self):
        r = self.equ()
        while self.peek() == "&": self.eat(); r = f"(N.land {r} {self.equ()})"
        return r
    def equ(self):
        r = self.rel()
        while self.peek() in ("==", "!="):
            op = self.eat(); b = self.rel()
            r = f"(b2n (N.eqb {r} {b}))" if op == "==" else f"(b2n (negb (N.eqb {r} {b})))"
        return r
    def rel(self):
        r = self.shift()
        while self.peek() in (">=", "<=", "<", ">"):
            op = self.eat(); b = self.shift()
            r = {">=": f"(b2n (N.leb {b} {r}))", "<=": f"(b2n (N.leb {r} {b}))", "<": f"(b2n (N.ltb {r} {b}))", ">": f"(b2n (N.ltb {b} {r}))"}[op]
        return r
    def shift(self):
        r = self.add()
        while self.peek() in ("<<", ">>"):
            op = self.eat(); b = self.add()
            r = f"(shl64 {r} {b})" if op == "<<" else f"(N.shiftr {r} {b})"
        return r
    def add(self):
        r = self.mul()
        while self.peek() in ("+", "-"):
            op = self.eat(); b = self.mul()
            r = f"(wrap64 (N.add {r} {b}))" if op == "+" else f"(sub64 {r} {b})"
        return r
    def mul(self):
        r = self.unary()
        while self.peek() == "*": self.eat(); r = f"(wrap64 (N.mul {r} {self.unary()}))"
        return r
    def unary(self):
        t = self.peek()
        if t == "~": self.eat(); return f"(not64 {self.unary()})"
        if t == "(": self.eat(); r = self.bor(); self.eat(")"); return r
        if t is None: raise Shape(f"operand expected in {self.src.strip()!r}")
        self.eat()
        if re.match(r"^(0[xX][0-9a-fA-F]+|\d+)", t):
            return str(int(re.match(r"^(0[xX][0-9a-fA-F]+|\d+)", t).group(1), 0))
        if t == "sizeof":
            self.eat("("); self.eat("T"); self.eat(")"); return "8"
        if t in ("T", "std::uint64_t", "std::size_t", "size_t"):
            # T{1}  T(0)
            o = self.eat();
            if o not in "({": raise Shape(f"constructor syntax in {self.src.strip()!r}")
            r = self.bor(); self.eat(")" if o == "(" else "}"); return r
        if t in self.funcs:
            # optional template argument list <T> / <std::uint64_t>
            if self.peek() == "<":
                self.eat("<"); self.eat(); self.eat(">")
            self.eat("(")
            args = []
            if self.peek() != ")":
                args.append(self.bor())
                while self.peek() == ",": self.eat(); args.append(self.bor())
            self.eat(")")
            if len(args) != self.funcs[t]: raise Shape(f"{t}: {len(args)} arguments")
            return f"(src_{t} {' '.join(args)})"
        if t in self.vars: return t
        raise Shape(f"identifier {t!r} not understood in {self.src.strip()!r}")


# ---------------------------------------------------------------- functions
# name -> (regex for the signature, parameter names in order, result kind: 'word'|'bool'|'ref:<param>')
SPECS = [
    ("andNot", r"template\s*<\s*typename\s+T\s*>\s*inline\s+T\s+andNot\s*\(\s*T\s+a\s*,\s*T\s+b\s*\)", ["a", "b"], "word"),
    ("bitExtract", r"inline\s+bool\s+bitExtract\s*\(\s*std::uint64_t\s+a\s*,\s*unsigned\s+idx\s*\)", ["a", "idx"], "bool"),
    ("bitSet", r"inline\s+void\s+bitSet\s*\(\s*std::uint64_t\s*&\s*a\s*,\s*unsigned\s+idx\s*\)", ["a", "idx"], "ref:a"),
    ("bitClear", r"inline\s+void\s+bitClear\s*\(\s*std::uint64_t\s*&\s*a\s*,\s*unsigned\s+idx\s*\)", ["a", "idx"], "ref:a"),
    ("bitToggle", r"inline\s+void\s+bitToggle\s*\(\s*std::uint64_t\s*&\s*a\s*,\s*unsigned\s+idx\s*\)", ["a", "idx"], "ref:a"),
    ("bitMaskRange", r"template\s*<\s*typename\s+T\s*=\s*std::size_t\s*>\s*inline\s+T\s+bitMaskRange\s*\(\s*size_t\s+start\s*,\s*size_t\s+count\s*\)", ["start", "count"], "word"),
    ("isMaskSet", r"template\s*<\s*typename\s+T\s*=\s*std::size_t\s*>\s*inline\s+bool\s+isMaskSet\s*\(\s*T\s+a\s*,\s*size_t\s+start\s*,\s*size_t\s+count\s*\)", ["a", "start", "count"], "bool"),
    ("bitfieldExtract", r"template\s*<\s*typename\s+T\s*>\s*inline\s+T\s+bitfieldExtract\s*\(\s*T\s+a\s*,\s*size_t\s+start\s*,\s*size_t\s+count\s*\)", ["a", "start", "count"], "word"),
    ("bitfieldInsert", r"template\s*<\s*typename\s+T\s*>\s*inline\s+T\s+bitfieldInsert\s*\(\s*T\s+a\s*,\s*size_t\s+start\s*,\s*size_t\s+count\s*,\s*T\s+v\s*\)", ["a", "start", "count", "v"], "word"),
    ("lowestSetBitMask", r"template\s*<\s*typename\s+T\s*>\s*inline\s+T\s+lowestSetBitMask\s*\(\s*T\s+val\s*\)", ["val"], "word"),
]


def split_statements(body):
    stmts, depth, cur = [], 0, ""
    for ch in body:
        if ch in "({": depth += 1
        if ch in ")}": depth -= 1
        if ch == ";" and depth == 0:
            if cur.strip(): stmts.append(cur.strip())
            cur = ""
        else:
            cur += ch
    if cur.strip(): raise Shape(f"statement without ';': {cur.strip()[:60]!r}")
    return stmts


def translate_function(name, params, kind, body, funcs):
    stmts = split_statements(body)
    vars_ = set(params)
    lets = []          # (name, coq term)
    result = None
    cond_ret = None
    for k, st in enumerate(stmts):
        last = (k == len(stmts) - 1)
        m = re.match(r"^if\s*\((.*)\)\s*return\s+(.*)$", st, re.S)
        if m:
            if cond_ret is not None or lets: raise Shape(f"{name}: more than one conditional return / return after locals")
            cond_ret = (P(m.group(1), vars_, funcs).parse(), P(m.group(2), vars_, funcs).parse())
            continue
        m = re.match(r"^return\s+(.*)$", st, re.S)
        if m:
            if not last: raise Shape(f"{name}: statements after return")
            result = P(m.group(1), vars_, funcs).parse(); continue
        m = re.match(r"^(?:T|auto|std::uint64_t)\s+([A-Za-z_]\w*)\s*=\s*(.*)$", st, re.S)
        if m:
            lets.append((m.group(1), P(m.group(2), vars_, funcs).parse())); vars_.add(m.group(1)); continue
        m = re.match(r"^([A-Za-z_]\w*)\s*(&=|\|=|\^=|=)\s*(.*)$", st, re.S)
        if m and m.group(1) in vars_:
            x, op, e = m.group(1), m.group(2), P(m.group(3), vars_, funcs).parse()
            t = {"&=": f"(N.land {x} {e})", "|=": f"(N.lor {x} {e})", "^=": f"(N.lxor {x} {e})", "=": e}[op]
            lets.append((x, t)); continue
        raise Shape(f"{name}: statement not understood: {st[:80]!r}")
    if kind.startswith("ref:"):
        if result is not None: raise Shape(f"{name}: void function returns a value")
        result = kind[4:]
    if result is None: raise Shape(f"{name}: no result")
    term = result
    if kind == "bool":
        term = f"(negb (N.eqb {term} 0))"
    for x, t in reversed(lets):
        term = f"(let {x} := {t} in {term})"
    if cond_ret is not None:
        c, r = cond_ret
        r2 = f"(negb (N.eqb {r} 0))" if kind == "bool" else r
        term = f"(if negb (N.eqb {c} 0) then {r2} else {term})"
    rt = "bool" if kind == "bool" else "N"
    return f"Definition src_{name} ({' '.join(params)} : N) : {rt} :=\n  {term}."


def main():
    repo, out = sys.argv[1], sys.argv[2]
    stem = out[:-2]
    try:
        s = preprocess(strip_comments(open(os.path.join(repo, "source/gatery/utils/BitManipulation.h")).read()))
        funcs = {n: len(p) for n, _, p, _ in SPECS}
        defs = []
        for name, sig, params, kind in SPECS:
            ms = list(re.finditer(sig + r"\s*\{", s))
            if len(ms) != 1: raise Shape(f"{len(ms)} definitions matching the signature of {name}")
            b0 = ms[0].end() - 1
            b1 = matching(s, b0)
            defs.append(translate_function(name, params, kind, s[b0 + 1:b1], funcs))
        text = "\n".join([
            "(* GENERATED by translate/C18_bitmanip.py from source/gatery/utils/BitManipulation.h -- do not edit;",
            "   regenerated on every check run.  64-bit unsigned semantics written out explicitly. *)",
            "From Coq Require Import NArith Bool.",
            "From Gatery Require Import BvsDefs.",
            "Local Open Scope N_scope.",
            "",
            "Definition sub64 (a b : N) : N := wrap64 (a + 2^64 - wrap64 b).     (* a - b mod 2^64, for a < 2^64 *)",
            "Definition b2n (b : bool) : N := if b then 1 else 0.",
            "", ""]) + "\n\n".join(defs) + "\n"
        os.makedirs(os.path.dirname(out), exist_ok=True)
        if not (os.path.exists(out) and open(out).read() == text):
            open(out + ".tmp", "w").write(text); os.replace(out + ".tmp", out)
        print("OK %d functions: %s" % (len(defs), " ".join(n for n, _, _, _ in SPECS)))
    except Shape as e:
        for ext in (".v", ".vo", ".vok", ".vos", ".glob"):
            try: os.remove(stem + ext)
            except OSError: pass
        print("FAIL " + str(e)); sys.exit(3)


if __name__ == "__main__":
    main()
