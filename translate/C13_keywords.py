#!/usr/bin/env python3
"""S3 translator for C13: regenerate coq/Gatery/gen/Keywords.v from the CURRENT text of
source/gatery/export/vhdl/NamespaceScope.cpp.

It understands exactly one shape of the NamespaceScope constructor:

    NamespaceScope::NamespaceScope(AST &ast, NamespaceScope *parent) : <mem-initialisers>
    {
        for (auto keyword :
                { "lit", "lit", ... })          // string literals, commas, // and /* */ comments only
            m_namesInUse.insert(keyword);
    }

Anything else (another statement in the body, a literal with an escape, a conditional,
insertion of something other than `keyword`, a transformation of the loop variable ...)
makes the translator FAIL CLOSED: the previously generated file is removed, nothing is
written, exit status 3 and a one-line reason on stdout.  checks/C13.py then counts every
obligation depending on impl_keywords as broken.

Usage: C13_keywords.py <repo-root> <out.v>       (prints "OK <n> keywords" on success)
"""
import re, sys, os


class Shape(Exception):
    pass


def strip_comments(s):
    # only used on the constructor body; string literals there must not contain // or /*
    out, i, n = [], 0, len(s)
    while i < n:
        c = s[i]
        if c == '"':
            j = i + 1
            while j < n and s[j] != '"':
                if s[j] == '\\' or s[j] == '\n':
                    raise Shape("string literal with escape/newline in constructor")
                j += 1
            if j >= n:
                raise Shape("unterminated string literal")
            out.append(s[i:j + 1]); i = j + 1
        elif s.startswith("//", i):
            j = s.find("\n", i)
            i = n if j < 0 else j
        elif s.startswith("/*", i):
            j = s.find("*/", i + 2)
            if j < 0:
                raise Shape("unterminated comment")
            i = j + 2
        else:
            out.append(c); i += 1
    return "".join(out)


def matching_brace(s, i):
    """s[i] == '{' -> index of the matching '}' (string literals skipped)."""
    depth, n = 0, len(s)
    while i < n:
        c = s[i]
        if c == '"':
            i = s.index('"', i + 1)
        elif c == '{':
            depth += 1
        elif c == '}':
            depth -= 1
            if depth == 0:
                return i
        i += 1
    raise Shape("unbalanced braces")


def extract(src):
    heads = [m for m in re.finditer(r"NamespaceScope::NamespaceScope\s*\(", src)]
    if len(heads) != 1:
        raise Shape(f"expected exactly one NamespaceScope constructor definition, found {len(heads)}")
    h = heads[0]
    m = re.compile(r"\s*AST\s*&\s*\w+\s*,\s*NamespaceScope\s*\*\s*\w+\s*\)\s*:\s*[^{};]*").match(src, h.end())
    if not m or src[m.end():m.end() + 1] != "{":
        raise Shape("constructor signature / initialiser list not of the expected form")
    b0 = m.end()
    b1 = matching_brace(src, b0)
    body = strip_comments(src[b0 + 1:b1])
    fm = re.fullmatch(
        r"\s*for\s*\(\s*(?:const\s+)?auto\s*(?:&\s*)?(\w+)\s*:\s*\{(?P<lits>[^{}]*)\}\s*\)\s*"
        r"m_namesInUse\s*\.\s*insert\s*\(\s*(\w+)\s*\)\s*;\s*", body, re.S)
    if not fm:
        raise Shape("constructor body is not exactly `for (auto k : {literals}) m_namesInUse.insert(k);`")
    if fm.group(1) != fm.group(3):
        raise Shape("inserted expression is not the loop variable")
    lits = fm.group("lits")
    toks = re.findall(r'"([^"\\\n]*)"|(,)|(\S)', lits)
    words, expect_word = [], True
    for lit, comma, other in toks:
        if other:
            raise Shape(f"unexpected token {other!r} in keyword initializer list")
        if comma:
            if expect_word:
                raise Shape("misplaced comma in keyword initializer list")
            expect_word = True
        else:
            if not expect_word:
                raise Shape("adjacent string literals (implicit concatenation) in keyword list")
            words.append(lit); expect_word = False
    if not words:
        raise Shape("empty keyword list")
    for w in words:
        if not re.fullmatch(r"[\x20-\x7e]*", w):
            raise Shape(f"non printable-ASCII keyword {w!r}")
    # the set is also consulted by every other member: make sure nothing else REMOVES names
    rest = src[:h.start()] + src[b1 + 1:]
    if re.search(r"m_namesInUse\s*\.\s*(erase|clear|swap|extract)\b|m_namesInUse\s*=", strip_comments_safe(rest)):
        raise Shape("m_namesInUse is erased/cleared/assigned outside the constructor")
    return words


def strip_comments_safe(s):
    s = re.sub(r"/\*.*?\*/", "", s, flags=re.S)
    return re.sub(r"//[^\n]*", "", s)


def coq_string(w):
    return '"' + w.replace('"', '""') + '"'


def main():
    repo, out = sys.argv[1], sys.argv[2]
    srcf = os.path.join(repo, "source/gatery/export/vhdl/NamespaceScope.cpp")
    try:
        if os.path.exists(out):
            os.unlink(out)  # never keep an old file
        words = extract(open(srcf, encoding="utf8").read())
    except (Shape, OSError, ValueError) as e:
        print(f"FAILCLOSED {e}")
        return 3
    os.makedirs(os.path.dirname(out), exist_ok=True)
    with open(out, "w") as f:
        f.write("(* GENERATED by translate/C13_keywords.py from source/gatery/export/vhdl/NamespaceScope.cpp\n"
                "   (constructor's keyword initializer list, in source order). Do not edit, do not commit. *)\n"
                "Require Import String List.\nImport ListNotations.\nOpen Scope string_scope.\n\n"
                "Definition impl_keywords : list string :=\n  [ ")
        f.write(";\n    ".join(coq_string(w) for w in words))
        f.write(" ].\n")
    print(f"OK {len(words)} keywords")
    return 0


if __name__ == "__main__":
    sys.exit(main())
