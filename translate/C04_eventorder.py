#!/usr/bin/env python3
"""S3 translator for C04: regenerate coq/Gatery/gen/EventOrder.v from the CURRENT text of

    source/gatery/simulation/ReferenceSimulator.h      struct Event { enum class Type {...}; ...
                                                         bool operator<(const Event &rhs) const {...} }
    source/gatery/simulation/simProc/WaitClock.h       enum TimingPhase { BEFORE, DURING, AFTER }
    source/gatery/hlim/ClockRational.h                 clockLess / clockMore (cross multiplication)

What is regenerated:
  * `Inductive evtype` / `type_rank`          enumerators of Event::Type in source order (rank = position)
  * `Inductive timing_phase` / `phase_rank`   enumerators of WaitClock::TimingPhase in source order
  * `Record event`                            the fields the comparison may mention (fixed vocabulary below)
  * `Definition event_lt (a b : event)`       statement-by-statement translation of Event::operator< (a = *this,
                                               b = rhs): which field, in which order, which direction.

Understood statement shapes inside operator< (after comment removal), each exactly one `if`/`return`:
    if (hlim::clockMore(F, rhs.F)) return B;        if (hlim::clockLess(F, rhs.F)) return B;
    if (F > rhs.F) return B;   if (F < rhs.F) return B;            (F in the field vocabulary, optional
    if ((unsigned)F > (unsigned) rhs.F) return B;   ... < ...        `(unsigned)` casts on both sides)
    if (type == Type::NAME) return evt<SimProcResumeEvt>().insertionId > rhs.evt<SimProcResumeEvt>().insertionId;
                                                                    (also with <)
    return B;                                                        (last statement)
Anything else -> FAIL CLOSED: the old generated file is removed, nothing is written, exit status 3, one-line reason.

Usage: C04_eventorder.py <repo-root> <out.v>       (prints "OK ..." on success)
"""
import os, re, sys


class Shape(Exception):
    pass


def strip_comments(s):
    out, i, n = [], 0, len(s)
    while i < n:
        if s.startswith("//", i):
            j = s.find("\n", i)
            i = n if j < 0 else j
        elif s.startswith("/*", i):
            j = s.find("*/", i + 2)
            if j < 0:
                raise Shape("unterminated comment")
            i = j + 2
        elif s[i] == '"':
            raise Shape("string literal in a region that must not contain one")
        else:
            out.append(s[i]); i += 1
    return "".join(out)


def matching_brace(s, i):
    assert s[i] == "{"
    d = 0
    for j in range(i, len(s)):
        if s[j] == "{":
            d += 1
        elif s[j] == "}":
            d -= 1
            if d == 0:
                return j
    raise Shape("unbalanced braces")


IDENT = r"[A-Za-z_][A-Za-z0-9_]*"


def parse_enum(text, header_re, what):
    ms = list(re.finditer(header_re, text))
    if len(ms) != 1:
        raise Shape(f"{what}: expected exactly one declaration, found {len(ms)}")
    i = text.index("{", ms[0].end() - 1)
    j = matching_brace(text, i)
    body = strip_comments(text[i + 1:j])
    names = [x.strip() for x in body.split(",")]
    if names and names[-1] == "":
        names.pop()
    for nm in names:
        if not re.fullmatch(IDENT, nm):
            raise Shape(f"{what}: enumerator {nm!r} is not a plain identifier (explicit values are not understood)")
    if len(set(names)) != len(names) or not names:
        raise Shape(f"{what}: empty or duplicate enumerators")
    return names


# field vocabulary: C++ member -> (Coq projection, kind)
FIELDS = {
    "timeOfEvent": ("ev_time", "Q"),
    "timingPhase": ("ev_phase", "phase"),
    "microTick": ("ev_microtick", "N"),
    "type": ("ev_type", "type"),
}


def proj(field, who):
    p, kind = FIELDS[field]
    e = f"({p} {who})"
    if kind == "phase":
        return f"(phase_rank {e})", "N"
    if kind == "type":
        return f"(type_rank {e})", "N"
    return e, kind


def translate_lt(body, type_names):
    """returns list of Coq lines of nested ifs"""
    body = strip_comments(body)
    # split into statements at ';'
    stmts = [re.sub(r"\s+", " ", s).strip() for s in body.split(";")]
    if stmts and stmts[-1] == "":
        stmts.pop()
    if not stmts:
        raise Shape("operator<: empty body")
    lines = []
    used = []
    bool_of = {"true": "true", "false": "false"}
    cast = r"(?:\(\s*unsigned\s*\)\s*)?"
    for k, st in enumerate(stmts):
        last = (k == len(stmts) - 1)
        m = re.fullmatch(r"return (true|false)", st)
        if m:
            if not last:
                raise Shape("operator<: unconditional return before the end")
            lines.append(bool_of[m.group(1)])
            continue
        if last:
            raise Shape(f"operator<: last statement is not an unconditional return: {st!r}")
        m = re.fullmatch(r"if \( ?(?:hlim::)?clock(More|Less) ?\( ?(%s) ?, ?rhs\.(%s) ?\) ?\) return (true|false)" % (IDENT, IDENT), st)
        if m:
            which, f1, f2, b = m.groups()
            if f1 != f2 or f1 not in FIELDS or FIELDS[f1][1] != "Q":
                raise Shape(f"operator<: clock{which} on unexpected fields {f1},{f2}")
            a_, _ = proj(f1, "a"); b_, _ = proj(f1, "b")
            lines.append(f"if Q{which.lower()} {a_} {b_} then {bool_of[b]} else")
            used.append((f1, which))
            continue
        m = re.fullmatch(r"if \( ?%s(%s) ?([<>]) ?%srhs\.(%s) ?\) return (true|false)" % (cast, IDENT, cast, IDENT), st)
        if m:
            f1, op, f2, b = m.groups()
            if f1 != f2 or f1 not in FIELDS:
                raise Shape(f"operator<: comparison on unexpected fields {f1},{f2}")
            a_, kind = proj(f1, "a"); b_, _ = proj(f1, "b")
            if kind != "N":
                raise Shape(f"operator<: plain {op} on the rational field {f1} (clockLess/clockMore expected)")
            which = "More" if op == ">" else "Less"
            lines.append(f"if N{which.lower()} {a_} {b_} then {bool_of[b]} else")
            used.append((f1, which))
            continue
        m = re.fullmatch(r"if \( ?type == Type::(%s) ?\) return evt ?< ?SimProcResumeEvt ?> ?\( ?\)\.insertionId ?([<>]) ?rhs\.evt ?< ?SimProcResumeEvt ?> ?\( ?\)\.insertionId" % IDENT, st)
        if m:
            nm, op = m.groups()
            if nm not in type_names:
                raise Shape(f"operator<: unknown Event::Type::{nm}")
            which = "more" if op == ">" else "less"
            lines.append(f"if evtype_eqb (ev_type a) {nm} then N{which} (ev_insertion a) (ev_insertion b) else")
            used.append(("insertionId@" + nm, which))
            continue
        raise Shape(f"operator<: statement outside the understood fragment: {st!r}")
    return lines, used


def check_clock_rational(text):
    t = re.sub(r"\s+", " ", strip_comments(text))
    want = {
        "clockLess": "lhs.numerator() * rhs.denominator() < rhs.numerator() * lhs.denominator()",
        "clockMore": "lhs.numerator() * rhs.denominator() > rhs.numerator() * lhs.denominator()",
    }
    for fn, expr in want.items():
        m = re.search(r"inline bool %s ?\( ?const ClockRational ?& ?lhs, const ClockRational ?& ?rhs ?\) ?\{ ?return ([^;]*); ?\}" % fn, t)
        if not m:
            raise Shape(f"ClockRational.h: {fn} not found in the expected shape")
        if m.group(1).strip() != expr:
            raise Shape(f"ClockRational.h: {fn} is no longer the cross-multiplication comparison: {m.group(1).strip()!r}")
    if not re.search(r"using ClockRational ?= ?boost::rational ?< ?std::uint64_t ?>", t):
        raise Shape("ClockRational.h: ClockRational is no longer boost::rational<std::uint64_t>")


def main():
    if len(sys.argv) != 3:
        print(__doc__); return 2
    repo, out = sys.argv[1], sys.argv[2]
    try:
        try:
            rs = open(os.path.join(repo, "source/gatery/simulation/ReferenceSimulator.h")).read()
            wc = open(os.path.join(repo, "source/gatery/simulation/simProc/WaitClock.h")).read()
            cr = open(os.path.join(repo, "source/gatery/hlim/ClockRational.h")).read()
        except OSError as e:
            raise Shape(f"cannot read source: {e}")
        check_clock_rational(cr)
        # struct Event { ... }
        ms = list(re.finditer(r"\bstruct\s+Event\s*\{", rs))
        if len(ms) != 1:
            raise Shape(f"struct Event: expected exactly one definition, found {len(ms)}")
        i = ms[0].end() - 1
        j = matching_brace(rs, i)
        ev = rs[i + 1:j]
        types = parse_enum(ev, r"\benum\s+class\s+Type\s*\{", "Event::Type")
        phases = parse_enum(wc, r"\benum\s+TimingPhase\s*\{", "WaitClock::TimingPhase")
        # defaults of the fields used by events that are pushed without setting them
        evnc = re.sub(r"\s+", " ", strip_comments(ev))
        m = re.search(r"WaitClock::TimingPhase timingPhase ?= ?WaitClock::(%s) ?;" % IDENT, evnc)
        if not m or m.group(1) not in phases:
            raise Shape("Event::timingPhase: default initialiser not found")
        default_phase = m.group(1)
        m = re.search(r"size_t microTick ?= ?(\d+) ?;", evnc)
        if not m:
            raise Shape("Event::microTick: default initialiser not found")
        default_microtick = int(m.group(1))
        ms = list(re.finditer(r"\bbool\s+operator\s*<\s*\(\s*const\s+Event\s*&\s*rhs\s*\)\s*const\s*\{", ev))
        if len(ms) != 1:
            raise Shape(f"Event::operator<: expected exactly one definition, found {len(ms)}")
        bi = ms[0].end() - 1
        bj = matching_brace(ev, bi)
        lines, used = translate_lt(ev[bi + 1:bj], types)
        for nm in types + phases:
            if nm in ("a", "b", "event", "if", "then", "else", "true", "false", "match", "with", "end", "Q", "N"):
                raise Shape(f"enumerator name {nm!r} clashes with the generated Coq text")

        o = []
        o.append("(* GENERATED by translate/C04_eventorder.py from source/gatery/simulation/ReferenceSimulator.h,")
        o.append("   simProc/WaitClock.h and hlim/ClockRational.h -- do not edit, never committed. *)")
        o.append("From Coq Require Import QArith NArith Bool List.")
        o.append("Import ListNotations.")
        o.append("")
        o.append("(* Event::Type, in source order *)")
        o.append("Inductive evtype := " + " | ".join(types) + ".")
        o.append("Definition type_rank (t : evtype) : N :=")
        o.append("  match t with " + " | ".join(f"{n} => {k}%N" for k, n in enumerate(types)) + " end.")
        o.append("Definition evtype_eqb (x y : evtype) : bool := N.eqb (type_rank x) (type_rank y).")
        o.append("Definition all_evtypes : list evtype := [" + "; ".join(types) + "].")
        o.append("")
        o.append("(* WaitClock::TimingPhase, in source order *)")
        o.append("Inductive timing_phase := " + " | ".join(phases) + ".")
        o.append("Definition phase_rank (p : timing_phase) : N :=")
        o.append("  match p with " + " | ".join(f"{n} => {k}%N" for k, n in enumerate(phases)) + " end.")
        o.append("Definition phase_eqb (x y : timing_phase) : bool := N.eqb (phase_rank x) (phase_rank y).")
        o.append("Definition all_phases : list timing_phase := [" + "; ".join(phases) + "].")
        o.append(f"Definition default_phase : timing_phase := {default_phase}.")
        o.append(f"Definition default_microtick : N := {default_microtick}%N.")
        o.append("")
        o.append("(* hlim::clockMore / clockLess (cross multiplication == exact rational comparison),")
        o.append("   and > / < on size_t, enum ranks *)")
        o.append("Definition Qmore (x y : Q) : bool := match (x ?= y)%Q with Gt => true | _ => false end.")
        o.append("Definition Qless (x y : Q) : bool := match (x ?= y)%Q with Lt => true | _ => false end.")
        o.append("Definition Nmore (x y : N) : bool := match (x ?= y)%N with Gt => true | _ => false end.")
        o.append("Definition Nless (x y : N) : bool := match (x ?= y)%N with Lt => true | _ => false end.")
        o.append("")
        o.append("(* the ordering keys of struct Event plus the payload the model needs")
        o.append("   (clockPinIdx/resetPinIdx/stimulus index -> ev_idx; risingEdge/newResetHigh -> ev_flag) *)")
        o.append("Record event := mk_event {")
        o.append("  ev_type : evtype; ev_time : Q; ev_microtick : N; ev_phase : timing_phase;")
        o.append("  ev_insertion : N; ev_idx : nat; ev_flag : bool }.")
        o.append("")
        o.append("(* Event::operator< with a = *this, b = rhs: true means a has LOWER priority (std::priority_queue")
        o.append("   pops the greatest element first) *)")
        o.append("Definition event_lt (a b : event) : bool :=")
        for ln in lines:
            o.append("  " + ln)
        o[-1] += "."
        o.append("")
        o.append("(* summary of the chain, for the evidence file: " + "; ".join(f"{f}:{w}" for f, w in used) + " *)")
        txt = "\n".join(o) + "\n"
        os.makedirs(os.path.dirname(out), exist_ok=True)
        # only touch the file when the text changed (keeps make incremental)
        old = open(out).read() if os.path.exists(out) else None
        if old != txt:
            with open(out, "w") as f:
                f.write(txt)
        print("OK types=" + ",".join(types) + " phases=" + ",".join(phases) + " chain=" + ";".join(f"{f}:{w}" for f, w in used))
        return 0
    except Shape as e:
        try:
            os.remove(out)
        except OSError:
            pass
        print("FAIL-CLOSED " + str(e))
        return 3


if __name__ == "__main__":
    sys.exit(main())
