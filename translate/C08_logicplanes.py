#!/usr/bin/env python3
"""S3 translator for C08 / C03: regenerate coq/Gatery/gen/LogicSrc.v from the CURRENT text of

    source/gatery/hlim/coreNodes/Node_Logic.cpp      Node_Logic::simulateEvaluate

What is regenerated: `src_logic_planes op left leftDefined right rightDefined : bool * bool`, the
statement-by-statement translation of the `switch (m_op)` in simulateEvaluate: for every `case`
the two assignments `result = E;` and `resultDefined = E;` (bit-parallel 64-bit word formulas, here
read as formulas on one bit of the VALUE / DEFINED planes; & | ^ ~ act bit-wise, so the word
formula holds iff it holds for every bit position).

Understood shape (after comment removal), anything else -> FAIL CLOSED (old generated file and its
compiled copies are removed, nothing is written, exit status 3, one-line reason on stdout):
  * exactly one definition `void Node_Logic::simulateEvaluate(...) const { ... }`
  * in it exactly one `switch (m_op) { ... }` whose body is a sequence of
        case NAME:  result = EXPR;  resultDefined = EXPR;  break;
    with NAME in {AND, NAND, OR, NOR, XOR, EQ, NOT}, each at most once
  * EXPR over the identifiers left, right, leftDefined, rightDefined with ~ & ^ | and parentheses
    (C precedence: ~ binds tighter than & tighter than ^ tighter than |)
  * the frame around the switch (how the four words are obtained and where the two results go) must
    consist of exactly the statements listed in FRAME below (whitespace-insensitive) and the four
    operand words / two result words may not be assigned anywhere else.

Usage: C08_logicplanes.py <repo-root> <out.v>      (prints "OK ..." on success)
       C08_logicplanes.py --table <repo-root>      (prints the truth table of the parsed formulas as
                                                    JSON: used by the check's counterexample search)
"""
import os, re, sys, json, itertools

OPS = ["AND", "NAND", "OR", "NOR", "XOR", "EQ", "NOT"]
IDS = ["left", "leftDefined", "right", "rightDefined"]


class Shape(Exception):
    pass


def strip_comments(s):
    out, i, n = [], 0, len(s)
    while i < n:
        if s.startswith("//", i):
            j = s.find("\n", i); i = n if j < 0 else j
        elif s.startswith("/*", i):
            j = s.find("*/", i + 2)
            if j < 0: raise Shape("unterminated comment")
            i = j + 2
        else:
            out.append(s[i]); i += 1
    return "".join(out)


def matching(s, i, o="{", c="}"):
    d = 0
    for j in range(i, len(s)):
        if s[j] == o: d += 1
        elif s[j] == c:
            d -= 1
            if d == 0: return j
    raise Shape("unbalanced " + o)


# ---- expression parser -------------------------------------------------------------------
def tokenize(e):
    toks = re.findall(r"[A-Za-z_][A-Za-z_0-9]*|[~&^|()]|\S", e)
    for t in toks:
        if not (t in "~&^|()" or t in IDS):
            raise Shape(f"token {t!r} not understood in expression {e.strip()!r}")
    return toks


def parse_expr(e):
    toks = tokenize(e); pos = [0]
    def peek(): return toks[pos[0]] if pos[0] < len(toks) else None
    def eat(t=None):
        x = peek()
        if x is None or (t is not None and x != t): raise Shape(f"expected {t!r} in {e.strip()!r}")
        pos[0] += 1; return x
    def unary():
        if peek() == "~": eat(); return ("not", unary())
        if peek() == "(": eat(); r = orx(); eat(")"); return r
        x = eat()
        if x not in IDS: raise Shape(f"operand expected, got {x!r} in {e.strip()!r}")
        return ("id", x)
    def andx():
        r = unary()
        while peek() == "&": eat(); r = ("and", r, unary())
        return r
    def xorx():
        r = andx()
        while peek() == "^": eat(); r = ("xor", r, andx())
        return r
    def orx():
        r = xorx()
        while peek() == "|": eat(); r = ("or", r, xorx())
        return r
    r = orx()
    if peek() is not None: raise Shape(f"trailing {peek()!r} in {e.strip()!r}")
    return r


def to_coq(t):
    k = t[0]
    if k == "id": return t[1]
    if k == "not": return f"(negb {to_coq(t[1])})"
    return {"and": "(andb %s %s)", "or": "(orb %s %s)", "xor": "(xorb %s %s)"}[k] % (to_coq(t[1]), to_coq(t[2]))


def ev(t, env):
    k = t[0]
    if k == "id": return env[t[1]]
    if k == "not": return not ev(t[1], env)
    a, b = ev(t[1], env), ev(t[2], env)
    return (a and b) if k == "and" else (a or b) if k == "or" else (a != b)


# ---- frame: every statement of the function outside the switch, whitespace removed --------
FRAME = [
    "size_twidth=getOutputConnectionType(0).width;",
    "NodePortleftDriver=getDriver(0);",
    "boolleftAllUndefined=leftDriver.node==nullptr;",
    "NodePortrightDriver;",
    "boolrightAllUndefined=true;",
    "if(m_op!=NOT){rightDriver=getDriver(1);rightAllUndefined=rightDriver.node==nullptr;}",
    "size_toffset=0;",
    "while(offset<width){",
    "size_tchunkSize=std::min<size_t>(64,width-offset);",
    "std::uint64_tleft,leftDefined,right,rightDefined;",
    "if(leftAllUndefined||inputOffsets[0]==~0ull){leftDefined=0;left=0;}else{"
    "leftDefined=state.extractNonStraddling(sim::DefaultConfig::DEFINED,inputOffsets[0]+offset,chunkSize);"
    "left=state.extractNonStraddling(sim::DefaultConfig::VALUE,inputOffsets[0]+offset,chunkSize);}",
    "if(rightAllUndefined||m_op==NOT||inputOffsets[1]==~0ull){rightDefined=0;right=0;}else{"
    "rightDefined=state.extractNonStraddling(sim::DefaultConfig::DEFINED,inputOffsets[1]+offset,chunkSize);"
    "right=state.extractNonStraddling(sim::DefaultConfig::VALUE,inputOffsets[1]+offset,chunkSize);}",
    "std::uint64_tresult,resultDefined;",
    "@SWITCH@;",
    "state.insertNonStraddling(sim::DefaultConfig::VALUE,outputOffsets[0]+offset,chunkSize,result);",
    "state.insertNonStraddling(sim::DefaultConfig::DEFINED,outputOffsets[0]+offset,chunkSize,resultDefined);",
    "offset+=chunkSize;",
    "}",
]


def parse(repo):
    path = os.path.join(repo, "source/gatery/hlim/coreNodes/Node_Logic.cpp")
    s = strip_comments(open(path).read())
    ms = list(re.finditer(r"void\s+Node_Logic::simulateEvaluate\s*\(", s))
    if len(ms) != 1: raise Shape(f"{len(ms)} definitions of Node_Logic::simulateEvaluate")
    p = matching(s, s.index("(", ms[0].start()), "(", ")")
    m = re.match(r"\s*const\s*\{", s[p + 1:])
    if not m: raise Shape("simulateEvaluate: `const {` expected after the parameter list")
    b0 = p + 1 + m.end() - 1
    b1 = matching(s, b0)
    body = s[b0 + 1:b1]
    sw = list(re.finditer(r"switch\s*\(\s*m_op\s*\)\s*\{", body))
    if len(sw) != 1: raise Shape(f"{len(sw)} `switch (m_op)` statements in simulateEvaluate")
    s0 = sw[0].end() - 1
    s1 = matching(body, s0)
    swbody = body[s0 + 1:s1]
    frame = re.sub(r"\s+", "", body[:sw[0].start()] + "@SWITCH@" + body[s1 + 1:])
    want = "".join(FRAME)
    if frame != want:
        # locate the first difference for the message
        k = next((i for i, (a, b) in enumerate(zip(frame, want)) if a != b), min(len(frame), len(want)))
        raise Shape("frame around the switch changed near ...%s... (expected ...%s...)" % (frame[max(0, k - 30):k + 40], want[max(0, k - 30):k + 40]))
    cases = {}
    rest = swbody
    pat = re.compile(r"\s*case\s+([A-Za-z_]+)\s*:\s*result\s*=([^;]*);\s*resultDefined\s*=([^;]*);\s*break\s*;")
    pos = 0
    while True:
        m = pat.match(rest, pos)
        if not m:
            if rest[pos:].strip() == "": break
            raise Shape("switch body: unexpected text %r" % rest[pos:pos + 80].strip())
        name = m.group(1)
        if name not in OPS: raise Shape(f"unknown operation {name}")
        if name in cases: raise Shape(f"case {name} twice")
        cases[name] = (parse_expr(m.group(2)), parse_expr(m.group(3)))
        pos = m.end()
    return cases


def table(cases):
    rows = []
    for op in OPS:
        if op not in cases: continue
        for l, ld, r, rd in itertools.product([0, 1], repeat=4):
            env = dict(left=bool(l), leftDefined=bool(ld), right=bool(r), rightDefined=bool(rd))
            rows.append(dict(op=op, left=l, leftDefined=ld, right=r, rightDefined=rd,
                             result=int(ev(cases[op][0], env)), resultDefined=int(ev(cases[op][1], env))))
    return rows


def main():
    if len(sys.argv) == 3 and sys.argv[1] == "--table":
        try:
            print(json.dumps(table(parse(sys.argv[2]))))
        except Shape as e:
            print("FAIL " + str(e)); sys.exit(3)
        return
    repo, out = sys.argv[1], sys.argv[2]
    stem = out[:-2]
    try:
        cases = parse(repo)
        lines = ["(* GENERATED by translate/C08_logicplanes.py from source/gatery/hlim/coreNodes/Node_Logic.cpp",
                 "   (Node_Logic::simulateEvaluate, switch (m_op)) -- do not edit; regenerated on every check run. *)",
                 "From Coq Require Import Bool.",
                 "From Gatery Require Import NodeSemDefs.",
                 "",
                 "Definition src_logic_planes (op : logic_op) (left leftDefined right rightDefined : bool) : bool * bool :=",
                 "  match op with"]
        for op in OPS:
            if op in cases:
                lines.append(f"  | L_{op} => ({to_coq(cases[op][0])}, {to_coq(cases[op][1])})")
        lines += ["  end.", ""]
        tmp = out + ".tmp"
        os.makedirs(os.path.dirname(out), exist_ok=True)
        open(tmp, "w").write("\n".join(lines))
        if not (os.path.exists(out) and open(out).read() == open(tmp).read()):
            os.replace(tmp, out)
        else:
            os.remove(tmp)
        print("OK %d cases: %s" % (len(cases), " ".join(o for o in OPS if o in cases)))
    except Shape as e:
        for ext in (".v", ".vo", ".vok", ".vos", ".glob"):
            try: os.remove(stem + ext)
            except OSError: pass
        print("FAIL " + str(e)); sys.exit(3)


if __name__ == "__main__":
    main()
