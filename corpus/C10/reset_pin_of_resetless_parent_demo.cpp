#include <gatery/pch.h>
#include <gatery/frontend.h>
#include <gatery/simulation/ReferenceSimulator.h>
#include <gatery/export/vhdl/VHDLExport.h>
#include <iostream>
using namespace gtry;
int main(int argc, char **argv) {
	DesignScope design;
	Clock clk({.absoluteFrequency = 100'000'000});
	Clock c0 = clk.deriveClock({.resetType = ClockConfig::ResetType::NONE});
	Clock c2 = c0.deriveClock({.resetType = ClockConfig::ResetType::SYNCHRONOUS});
	UInt bq;
	{
		ClockScope cs(c2);
		UInt bx = pinIn(2_b).setName("bx");
		bq = reg(bx, "2b01");
		pinOut(bq).setName("bo");
	}
	design.postprocess();
	std::cout << "reset pin source of c2: " << (void*)c2.getClk()->getResetPinSource() << "\n";
	int bad = 0;
	sim::ReferenceSimulator sim(false);
	sim.addSimulationProcess([&]()->SimProcess {
		co_await WaitFor({1, 1000000000});       // 1 ns after power-on: reset asserted, register must show its reset value
		auto v = simu(bq);
		std::cout << "after power-on: defined=" << v.allDefined() << " value=" << (v.allDefined() ? v.value() : 99) << " (expected 1)\n";
		if (!v.allDefined() || v.value() != 1) bad++;
		co_return;
	});
	sim.compileProgram(design.getCircuit());
	sim.powerOn();
	sim.advance({1, 10000000});
	if (argc > 1) {
		vhdl::VHDLExport vhdl("/tmp/rs/out.vhd");
		vhdl(design.getCircuit());
		std::cout << "export ok\n";
	}
	std::cout << (bad ? "FAIL\n" : "PASS\n");
	return bad;
}
