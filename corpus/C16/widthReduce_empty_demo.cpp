#include <gatery/pch.h>
#include <gatery/frontend.h>
#include <gatery/simulation/ReferenceSimulator.h>
#include <gatery/scl/stream/Packet.h>
#include <gatery/scl/stream/utils.h>
#include <iostream>
using namespace gtry;
int main() {
	DesignScope design;
	Clock clock({.absoluteFrequency = 100'000'000});
	ClockScope cs(clock);
	scl::RvPacketStream<UInt, scl::Empty> in{ 64_b };
	empty(in) = 3_b;
	pinIn(in, "in");
	auto out = scl::strm::widthReduce(move(in), 32_b);
	pinOut(out, "out");
	int bad = 0;
	sim::ReferenceSimulator sim(false);
	sim.addSimulationProcess([&]()->SimProcess {
		simu(ready(out)) = '1';
		simu(valid(in)) = '0';
		co_await OnClk(clock);
		// one-beat packet, 8 byte beat with 5 empty bytes -> 3 valid bytes: all in the first 4-byte narrow beat, whose empty must be 1
		simu(valid(in)) = '1'; simu(eop(in)) = '1'; simu(*in) = 0x0000000000C0FFEEull; simu(empty(in)) = 5;
		for (int i = 0; i < 4; i++) {
			co_await WaitFor({1, 1000000000});
			if (simu(valid(out)) == '1' && simu(eop(out)) == '1') {
				std::cout << "eop narrow beat data=" << std::hex << simu(*out).value() << " empty=" << std::dec << simu(empty(out)).value() << " (expected 1)\n";
				if (simu(empty(out)).value() != 1) bad++;
				break;
			}
			co_await OnClk(clock);
			simu(valid(in)) = '0';
		}
		co_return;
	});
	design.postprocess();
	sim.compileProgram(design.getCircuit());
	sim.powerOn();
	sim.advance({1, 1000000});
	std::cout << (bad ? "FAIL\n" : "PASS\n");
	return bad ? 1 : 0;
}
