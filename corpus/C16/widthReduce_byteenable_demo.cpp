#include <gatery/pch.h>
#include <gatery/frontend.h>
#include <gatery/simulation/ReferenceSimulator.h>
#include <gatery/scl/stream/Packet.h>
#include <gatery/scl/stream/utils.h>
#include <iostream>
using namespace gtry;
int main() {
	DesignScope design;
	Clock clock({.absoluteFrequency = 100'000'000});
	ClockScope cs(clock);
	scl::RvPacketStream<UInt, scl::ByteEnable> in{ 64_b };
	byteEnable(in) = 8_b;
	pinIn(in, "in");
	auto out = scl::strm::widthReduce(move(in), 16_b);
	pinOut(out, "out");
	int bad = 0;
	std::vector<uint64_t> got;
	sim::ReferenceSimulator sim(false);
	sim.addSimulationProcess([&]()->SimProcess {
		simu(ready(out)) = '1';
		simu(valid(in)) = '1'; simu(eop(in)) = '1'; simu(*in) = 0x7766554433221100ull; simu(byteEnable(in)) = 0b10'01'00'11;   // narrow beats (lsb first): 11, 00, 01, 10
		for (int i = 0; i < 8 && got.size() < 4; i++) {
			co_await WaitFor({1, 1000000000});
			if (simu(valid(out)) == '1') got.push_back(simu(byteEnable(out)).value());
			co_await OnClk(clock);
		}
		co_return;
	});
	design.postprocess();
	sim.compileProgram(design.getCircuit());
	sim.powerOn();
	sim.advance({1, 1000000});
	uint64_t expect[4] = {0b11, 0b00, 0b01, 0b10};
	for (size_t i = 0; i < 4; i++) {
		std::cout << "narrow beat " << i << " byteEnable=" << (i < got.size() ? (long long)got[i] : -1) << " expected " << expect[i] << "\n";
		if (i >= got.size() || got[i] != expect[i]) bad++;
	}
	std::cout << (bad ? "FAIL\n" : "PASS\n");
	return bad ? 1 : 0;
}
