#include <gatery/pch.h>
#include <gatery/frontend.h>
#include <gatery/simulation/ReferenceSimulator.h>
#include <iostream>
using namespace gtry;
int main() {
	DesignScope design;
	Clock clock({.absoluteFrequency = 100'000'000});
	ClockScope cs(clock);
	Bit c1 = pinIn().setName("c1");
	UInt sraw = pinIn(4_b).setName("s");
	SInt s = (SInt)sraw;
	UInt y = ConstUInt(0, 2_b);
	IF (c1) y = 1;
	ELSEIF (abs(s) == 3) y = 2;
	UInt y2 = ConstUInt(0, 2_b);
	Bit cond = abs(s) == 3;       // condition evaluated BEFORE the chain: reference
	IF (c1) y2 = 1;
	ELSEIF (cond) y2 = 2;
	pinOut(y).setName("y"); pinOut(y2).setName("y2");
	sim::ReferenceSimulator sim(false);
	int bad = 0, total = 0;
	sim.addSimulationProcess([&]()->SimProcess{
		for (int c = 0; c < 2; c++) for (int v = 0; v < 16; v++) {
			simu(c1) = c != 0; simu(sraw) = v;
			co_await WaitFor({1, 1000000});
			int sv = v >= 8 ? v - 16 : v; int a = sv < 0 ? -sv : sv;
			int expect = c ? 1 : (a == 3 ? 2 : 0);
			int got = (int)simu(y).value(), got2 = (int)simu(y2).value();
			total++;
			if (got != expect || got2 != expect) { bad++; std::cout << "c1=" << c << " s=" << sv << " expected " << expect << " ELSEIF(abs(s)==3): " << got << "  ELSEIF(cond): " << got2 << "\n"; }
		}
		simu(c1) = '0';
	});
	sim.compileProgram(design.getCircuit()); sim.powerOn(); sim.advance({40, 1000000});
	std::cout << (bad ? "FAIL " : "PASS ") << bad << " of " << total << "\n";
	return bad ? 1 : 0;
}
