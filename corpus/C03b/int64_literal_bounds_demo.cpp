#include <gatery/pch.h>
#include <gatery/frontend.h>
#include <gatery/simulation/ReferenceSimulator.h>
#include <iostream>
#include <limits>
using namespace gtry;
int main() {
	int bad = 0;
	for (std::int64_t v : { std::numeric_limits<std::int64_t>::min(), std::numeric_limits<std::int64_t>::max(), std::int64_t(-1), std::int64_t(0), std::int64_t(-5) }) {
		try {
			DesignScope design;
			SInt a; a = v;
			size_t w = a.width().bits();
			// minimal two's complement width: smallest w with -2^(w-1) <= v < 2^(w-1)
			size_t expect = 1; while (!(v >= -(std::int64_t(1) << (expect - 1)) && (expect == 64 || v < (std::int64_t(1) << (expect - 1)))) && expect < 64) expect++;
			std::cout << v << " width=" << w << " expected=" << expect << "\n";
			if (w != expect) bad++;
		} catch (const std::exception &e) { std::cout << v << " threw: " << std::string(e.what()).substr(0, 120) << "\n"; bad++; }
	}
	std::cout << (bad ? "FAIL\n" : "PASS\n");
	return bad ? 1 : 0;
}
