#include <gatery/pch.h>
#include <gatery/frontend.h>
#include <gatery/simulation/ReferenceSimulator.h>
#include <iostream>
using namespace gtry;
int main() {
	DesignScope design;
	UInt a = pinIn(4_b).setName("a");
	UInt idx = pinIn(3_b).setName("idx");
	UInt c = pinIn(8_b).setName("c");
	UInt x = zext(a);
	Bit b1 = x[idx];           // caches a dynamic bit alias with 4 options
	x = c;                     // grows to 8 bit
	Bit b2 = x[idx];           // must select among 8 bits
	pinOut(b2).setName("b2");
	int bad = 0;
	sim::ReferenceSimulator sim(false);
	sim.addSimulationProcess([&]()->SimProcess {
		simu(a) = 5; simu(idx) = 6; simu(c) = 0b01000000;
		co_await WaitFor({1, 1000000});
		bool def = simu(b2).defined(); 
		std::cout << "x[6] defined=" << def << " value=" << (def && simu(b2) == '1') << " (expected defined 1)\n";
		if (!def || !(simu(b2) == '1')) bad++;
		co_return;
	});
	sim.compileProgram(design.getCircuit());
	sim.powerOn();
	sim.advance({1, 100000});
	std::cout << (bad ? "FAIL\n" : "PASS\n");
	return bad ? 1 : 0;
}
