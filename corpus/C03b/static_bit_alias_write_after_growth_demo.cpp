#include <gatery/pch.h>
#include <gatery/frontend.h>
#include <gatery/simulation/ReferenceSimulator.h>
#include <iostream>
using namespace gtry;
int main() {
	DesignScope design;
	UInt a = pinIn(1_b).setName("a");
	UInt v = pinIn(2_b).setName("v");
	UInt x = zext(a);
	Bit r = x[0];              // fills the static bit alias cache for width 1
	x = v;                     // grows to 2 bit
	x[0] = '1';                // write through the alias: must set bit 0 of x
	pinOut(x).setName("x");
	int bad = 0;
	sim::ReferenceSimulator sim(false);
	sim.addSimulationProcess([&]()->SimProcess {
		simu(a) = 1; simu(v) = 0;
		co_await WaitFor({1, 1000000});
		std::cout << "x=" << simu(x).value() << " (expected 1)\n";
		if (simu(x).value() != 1) bad++;
		co_return;
	});
	sim.compileProgram(design.getCircuit());
	sim.powerOn();
	sim.advance({1, 100000});
	std::cout << (bad ? "FAIL\n" : "PASS\n");
	return bad ? 1 : 0;
}
