#include <gatery/pch.h>
#include <gatery/frontend.h>
#include <gatery/simulation/ReferenceSimulator.h>
#include <iostream>
using namespace gtry;
int main() {
	DesignScope design;
	UInt a = pinIn(8_b).setName("a");
	UInt b = pinIn(16_b).setName("b");
	UInt x = zext(a);          // 8 bit with zero-extension policy: may still grow
	Bit m1 = x.msb();          // caches the msb alias at offset 7
	x = b;                     // the vector grows to 16 bit
	Bit m2 = x.msb();          // must be bit 15 of b
	pinOut(m2).setName("m2");
	pinOut(x).setName("x");
	int bad = 0;
	sim::ReferenceSimulator sim(false);
	sim.addSimulationProcess([&]()->SimProcess {
		simu(a) = 0; simu(b) = 0b1010000000000000;
		co_await WaitFor({1, 1000000});
		std::cout << "width=" << x.width().bits() << " x=" << simu(x).value() << " msb=" << (simu(m2) == '1') << " (expected 1)\n";
		if (!(simu(m2) == '1')) bad++;
		simu(b) = 0b0000000010000000;
		co_await WaitFor({1, 1000000});
		std::cout << "x=" << simu(x).value() << " msb=" << (simu(m2) == '1') << " (expected 0)\n";
		if (simu(m2) == '1') bad++;
		co_return;
	});
	sim.compileProgram(design.getCircuit());
	sim.powerOn();
	sim.advance({1, 100000});
	std::cout << (bad ? "FAIL\n" : "PASS\n");
	return bad ? 1 : 0;
}
