(* C20 driver around the extracted VcdDefs.v / TvDefs.v (module C20_model).

     driver vcd <trace> <real.vcd> <model-body-out> <maxticks>
        - extracted WRITER on the observer's callback sequence  -> <model-body-out> (one line per line)
        - extracted READER on the REAL file, queried at commit ticks (all signals), compared with the value
          the observer sampled in the last commit of that tick; prints `Q ...` lines for mismatches and
          one summary line  `R queries=<n> mismatches=<m> ticks=<k> sametick=<s> headerbad=<h>`
     driver tv <tvlog> <model-file-out>
        - extracted recorder model on the callback log -> the .testvectors text it predicts
     driver tvsched <real.testvectors>
        - extracted tv_parse + tv_schedule on the real file: `S <time ps> <kind> <name> <value>` per record

   Only conversions (OCaml string <-> extracted string, ints <-> binary numbers) and file handling live here. *)
module M = C20_model

let rec nat_of_int (i : int) : M.nat = if i <= 0 then M.O else M.S (nat_of_int (i - 1))
let rec int_of_nat (n : M.nat) : int = match n with M.O -> 0 | M.S m -> 1 + int_of_nat m
let rec pos_of_int (i : int) : M.positive =
  if i <= 1 then M.XH else if i land 1 = 1 then M.XI (pos_of_int (i lsr 1)) else M.XO (pos_of_int (i lsr 1))
let n_of_int (i : int) : M.n = if i = 0 then M.N0 else M.Npos (pos_of_int i)
let z_of_int (i : int) : M.z = if i = 0 then M.Z0 else if i > 0 then M.Zpos (pos_of_int i) else M.Zneg (pos_of_int (-i))
let rec int_of_pos (p : M.positive) : int =
  let chk v = if v < 0 || v > (max_int lsr 2) then failwith "number too large" else v in
  match p with M.XH -> 1 | M.XO q -> 2 * chk (int_of_pos q) | M.XI q -> 2 * chk (int_of_pos q) + 1
let int_of_n (x : M.n) : int = match x with M.N0 -> 0 | M.Npos p -> int_of_pos p

let ascii_of_char (c : char) : M.ascii =
  let k = Char.code c in
  let b i = (k lsr i) land 1 = 1 in
  M.Ascii (b 0, b 1, b 2, b 3, b 4, b 5, b 6, b 7)
let char_of_ascii (a : M.ascii) : char =
  match a with M.Ascii (b0, b1, b2, b3, b4, b5, b6, b7) ->
    let v b i = if b then 1 lsl i else 0 in
    Char.chr (v b0 0 + v b1 1 + v b2 2 + v b3 3 + v b4 4 + v b5 5 + v b6 6 + v b7 7)
let cstr (s : string) : M.string =
  let r = ref M.EmptyString in
  for i = String.length s - 1 downto 0 do r := M.String (ascii_of_char s.[i], !r) done; !r
let ostr (s : M.string) : string =
  let b = Buffer.create 32 in
  let rec go = function M.EmptyString -> () | M.String (a, r) -> Buffer.add_char b (char_of_ascii a); go r in
  go s; Buffer.contents b

(* decimal text of any size -> binary number, through the extracted line parser (`#<digits>` is a time line):
   simulation times are uint64 rationals whose denominators can exceed OCaml's 63 bit integers *)
let n_of_dec (s : string) : M.n =
  match M.parse_line (cstr ("#" ^ s)) with M.LTime n -> n | _ -> failwith ("bad number " ^ s)
let q_of (num : string) (den : string) : M.q =
  let zn = match n_of_dec num with M.N0 -> M.Z0 | M.Npos p -> M.Zpos p in
  let pd = match n_of_dec den with M.N0 -> failwith "zero denominator" | M.Npos p -> p in
  { M.qnum = zn; M.qden = pd }

let read_lines (f : string) : string list =
  let ic = open_in_bin f in
  let l = ref [] in
  (try while true do l := input_line ic :: !l done with End_of_file -> ());
  close_in ic; List.rev !l

let split s = List.filter (fun x -> x <> "") (String.split_on_char ' ' s)

(* MSB-first text over 0,1,X,W -> LSB-first raw bits (DEFINED, VALUE) *)
let rvec_of_text (s : string) : M.rvec =
  if s = "-" then [] else begin
    let l = ref [] in
    String.iter (fun c -> l := (match c with
      | '0' -> (true, false) | '1' -> (true, true) | 'X' -> (false, false) | 'W' -> (false, true)
      | _ -> failwith ("bad raw bits " ^ s)) :: !l) s;
    !l end
let bv_of_text (s : string) : M.bv =
  let l = ref [] in
  String.iter (fun c -> l := (match c with '0' -> M.B0 | '1' -> M.B1 | 'X' | 'x' -> M.BX | _ -> failwith ("bad bits " ^ s)) :: !l) s;
  !l
let text_of_bv (v : M.bv) : string =
  String.concat "" (List.rev_map (function M.B0 -> "0" | M.B1 -> "1" | M.BX -> "X") v)

(* ------------------------------------------------------------------------------------------ vcd *)
let run_vcd trace vcd outbody maxticks =
  let decls = ref [] and evs = ref [] and ncodes = ref 0 in
  let pending_codes = ref [] in
  List.iter (fun line ->
    match split line with
    | "sig" :: _ :: w :: bvec :: _ :: rest ->
        decls := ((nat_of_int (int_of_string w), bvec = "1"), cstr (String.concat " " rest)) :: !decls
    | "code" :: k :: _ -> pending_codes := int_of_string k :: !pending_codes; incr ncodes
    | "T" :: [a; b] -> evs := M.EvTick (q_of a b) :: !evs
    | "B" :: [k; v] -> evs := M.EvBit (M.ident (nat_of_int (int_of_string k)), v = "1") :: !evs
    | "R" :: rest -> evs := M.EvRaw (cstr (String.concat " " rest)) :: !evs
    | "C" :: vals -> evs := M.EvCommit (List.map rvec_of_text vals) :: !evs
    | [] -> ()
    | _ -> failwith ("bad trace line: " ^ line)) (read_lines trace);
  let decls = List.rev !decls and evs = List.rev !evs in
  let ds = M.declare decls in
  (* (ii) writer *)
  let body = M.write_body ds evs in
  let oc = open_out_bin outbody in
  List.iter (fun l -> output_string oc (ostr (M.print_line l)); output_char oc '\n') body;
  close_out oc;
  (* (i) reader on the real file *)
  let real = List.map cstr (read_lines vcd) in
  let parsed = List.map M.parse_line (M.body_of real) in
  (* header: every declared signal must appear as `$var wire <width> <code> <name> $end` *)
  let vars = List.filter_map (fun l -> M.parse_var l) real in
  let headerbad = ref 0 in
  List.iter (fun d ->
    let ok = List.exists (fun ((code, w), name) ->
      ostr code = ostr d.M.sg_id && int_of_n w = int_of_nat d.M.sg_width && ostr name = ostr d.M.sg_name) vars in
    if not ok then begin incr headerbad;
      Printf.printf "H missing var code=%s width=%d name=%s\n" (ostr d.M.sg_id) (int_of_nat d.M.sg_width) (ostr d.M.sg_name) end) ds;
  (* expected: per tick the values of the LAST commit in that tick (driver-side bookkeeping only) *)
  let now = ref 0 in
  let per_tick : (int, M.rvec list) Hashtbl.t = Hashtbl.create 64 in
  let order = ref [] and sametick = ref 0 in
  List.iter (function
    | M.EvTick t -> now := int_of_n (M.tick t)
    | M.EvCommit vals ->
        if Hashtbl.mem per_tick !now then incr sametick else order := !now :: !order;
        Hashtbl.replace per_tick !now vals
    | _ -> ()) evs;
  let ticks = Array.of_list (List.rev !order) in
  let nt = Array.length ticks in
  (* choose at most maxticks ticks: evenly spread, always first and last *)
  let chosen = if nt <= maxticks || maxticks < 2 then Array.to_list ticks
    else List.init maxticks (fun i -> ticks.(i * (nt - 1) / (maxticks - 1))) in
  let queries = ref 0 and mism = ref 0 in
  List.iter (fun t ->
    let vals = Hashtbl.find per_tick t in
    List.iteri (fun i d ->
      let expect = M.viewv (List.nth vals i) in
      let got = M.read_sig parsed (n_of_int t) d in
      incr queries;
      if expect <> got then begin incr mism;
        if !mism <= 20 then Printf.printf "Q tick=%d sig=%d name=%s expected=%s read=%s\n" t i (ostr d.M.sg_name) (text_of_bv expect) (text_of_bv got) end) ds;
    (* between two commit ticks the previous value must persist: also ask one tick earlier than the next one *)
    ) chosen;
  Printf.printf "R queries=%d mismatches=%d ticks=%d sametick=%d headerbad=%d\n" !queries !mism nt !sametick !headerbad

(* ------------------------------------------------------------------------------------------ tv *)
let phase_of_int = function 0 -> M.PhBefore | 1 -> M.PhDuring | _ -> M.PhAfter

let run_tv log out =
  let cbs = List.filter_map (fun line ->
    match split line with
    | ["PowerOn"] -> Some M.CbPowerOn
    | ["NewPhase"; p; a; b] -> Some (M.CbNewPhase (phase_of_int (int_of_string p), q_of a b))
    | ["AMT"] -> Some M.CbAfterMicroTick
    | ["Commit"] -> Some M.CbCommit
    | ["Reset"; n; v] | ["Reset"; n; v; _] -> Some (M.CbReset (cstr n, v = "1"))   (* v: level read back from the simulator *)
    | "RstDecl" :: _ -> None
    | ["Set"; n; v] -> Some (M.CbSet (cstr n, bv_of_text v))
    | ["Read"; n; b; v] -> Some (M.CbRead (cstr n, b = "1", rvec_of_text v))
    | ["Destroy"; a; b] -> Some (M.CbDestroy (q_of a b))
    | [] -> None
    | _ -> failwith ("bad tvlog line: " ^ line)) (read_lines log) in
  let oc = open_out_bin out in
  List.iter (fun l -> output_string oc (ostr l); output_char oc '\n') (M.tv_file cbs);
  close_out oc

let run_tvsched file =
  let ls = List.map cstr (read_lines file) in
  match M.tv_parse (nat_of_int (List.length ls + 1)) ls with
  | None -> print_string "S PARSE-ERROR\n"
  | Some items ->
      List.iter (fun (t, it) ->
        match it with
        | M.TCheck (n, v) -> Printf.printf "S %d CHECK %s %s\n" (int_of_n t) (ostr n) (ostr v)
        | M.TSet (n, v) -> Printf.printf "S %d SET %s %s\n" (int_of_n t) (ostr n) (ostr v)
        | M.TRst (n, v) -> Printf.printf "S %d RST %s %s\n" (int_of_n t) (ostr n) (ostr v)
        | M.TAdv _ -> ()) (M.tv_schedule M.N0 items)

let () =
  match Array.to_list Sys.argv with
  | [_; "vcd"; trace; vcd; outbody; maxticks] -> run_vcd trace vcd outbody (int_of_string maxticks)
  | [_; "tv"; log; out] -> run_tv log out
  | [_; "tvsched"; file] -> run_tvsched file
  | _ -> prerr_endline "usage: driver vcd <trace> <vcd> <outbody> <maxticks> | tv <tvlog> <out> | tvsched <file>"; exit 2
