(* C05 driver: reads the program file written by checks/C05.py (same file the C++ harness
   reads), prints for every program and input vector
     <pid> <k> MS ...   the sequential interpreter  (run_prog)
     <pid> <k> ME ...   the elaborated circuit evaluated (elab_prog + eval_all)
   plus one line  <pid> - MH <histogram of node kinds / scopes>  per program. *)
open C05_model

let rec nat_of_int n = if n <= 0 then O else S (nat_of_int (n - 1))
let int_of_nat n = let rec go acc = function O -> acc | S m -> go (acc + 1) m in go 0 n

let tbit_of_char = function '0' -> B0 | '1' -> B1 | _ -> BX
let char_of_tbit = function B0 -> '0' | B1 -> '1' | BX -> 'X'
(* MSB-first string <-> LSB-first list *)
let bv_of_string s = List.init (String.length s) (fun i -> tbit_of_char s.[String.length s - 1 - i])
let string_of_bv v = let a = Array.of_list v in let n = Array.length a in String.init n (fun i -> char_of_tbit a.(n - 1 - i))

let toks line = List.filter (fun s -> s <> "") (String.split_on_char ' ' (String.trim line))

exception Parse of string

let rec p_expr = function
  | "in" :: i :: r -> (EIn (nat_of_int (int_of_string i)), r)
  | "cu" :: b :: r -> (EConst (bv_of_string b), r)
  | "cb" :: b :: r -> (EConst (bv_of_string b), r)
  | "s" :: x :: r -> (ESig (nat_of_int (int_of_string x)), r)
  | "not" :: r -> let (a, r) = p_expr r in (ENot a, r)
  | "and" :: r -> let (a, r) = p_expr r in let (b, r) = p_expr r in (EAnd (a, b), r)
  | "or" :: r -> let (a, r) = p_expr r in let (b, r) = p_expr r in (EOr (a, b), r)
  | "xor" :: r -> let (a, r) = p_expr r in let (b, r) = p_expr r in (EXor (a, b), r)
  | "add" :: r -> let (a, r) = p_expr r in let (b, r) = p_expr r in (EAdd (a, b), r)
  | "eq" :: r -> let (a, r) = p_expr r in let (b, r) = p_expr r in (EEq (a, b), r)
  | "sl" :: r -> (let (a, r) = p_expr r in match r with
      | off :: w :: r -> (ESlice (a, nat_of_int (int_of_string off), nat_of_int (int_of_string w)), r)
      | _ -> raise (Parse "sl"))
  | "bit" :: r -> (let (a, r) = p_expr r in match r with
      | i :: r -> (ESlice (a, nat_of_int (int_of_string i), S O), r)
      | _ -> raise (Parse "bit"))
  | "slx" :: _sp :: _pw :: r -> (let (a, r) = p_expr r in match r with
      | off :: w :: r -> (ESlice (a, nat_of_int (int_of_string off), nat_of_int (int_of_string w)), r)
      | _ -> raise (Parse "slx"))
  | "bitx" :: _sp :: _pw :: r -> (let (a, r) = p_expr r in match r with
      | i :: r -> (ESlice (a, nat_of_int (int_of_string i), S O), r)
      | _ -> raise (Parse "bitx"))
  | "dpartx" :: _sp :: parts :: pw :: r ->
      let (a, r) = p_expr r in let (i, r) = p_expr r in
      (EDynPart (a, i, nat_of_int (int_of_string parts), nat_of_int (int_of_string pw)), r)
  | "wsc" :: r ->
      (* harness helper that opens and closes a conditional scope while computing its second operand *)
      (* value-identical to its operand but a FRESH node (the helper returns a new signal): e | e *)
      let (_, r) = p_expr r in let (e, r) = p_expr r in (EOr (e, e), r)
  | "muxw" :: pw :: r ->
      (* muxWord(Bit sel, UInt arr): the upper half if sel else the lower half = arr.part(2, sel) *)
      let (sel, r) = p_expr r in let (a, r) = p_expr r in
      (EDynPart (a, sel, nat_of_int 2, nat_of_int (int_of_string pw)), r)
  | "dsl" :: idxw :: w :: r ->
      let (a, r) = p_expr r in let (i, r) = p_expr r in
      (EDynSlice (a, i, nat_of_int (int_of_string idxw), nat_of_int (int_of_string w)), r)
  | "dbit" :: idxw :: pw :: r ->
      let (a, r) = p_expr r in let (i, r) = p_expr r in
      (EDynBit (a, i, nat_of_int (int_of_string idxw), nat_of_int (int_of_string pw)), r)
  | "dpart" :: parts :: pw :: r ->
      let (a, r) = p_expr r in let (i, r) = p_expr r in
      (EDynPart (a, i, nat_of_int (int_of_string parts), nat_of_int (int_of_string pw)), r)
  | t :: _ -> raise (Parse ("expr token " ^ t))
  | [] -> raise (Parse "expr eof")

let ni s = nat_of_int (int_of_string s)

let p_sel = function
  | "st" :: off :: w :: r -> (SStatic (ni off, ni w), r)
  | "sb" :: i :: r -> (SBit (ni i), r)
  | "sx" :: _sp :: _pw :: off :: w :: r -> (SStatic (ni off, ni w), r)
  | "bx" :: _sp :: _pw :: i :: r -> (SBit (ni i), r)
  | "dpx" :: _sp :: parts :: pw :: r -> let (e, r) = p_expr r in (SDynPart (e, ni parts, ni pw), r)
  | "ds" :: idxw :: w :: r -> let (e, r) = p_expr r in (SDynSlice (e, ni idxw, ni w), r)
  | "db" :: idxw :: pw :: r -> let (e, r) = p_expr r in (SDynBit (e, ni idxw, ni pw), r)
  | "dp" :: parts :: pw :: r -> let (e, r) = p_expr r in (SDynPart (e, ni parts, ni pw), r)
  | _ -> raise (Parse "sel")

(* defaulted declarations of the current program: B = number of pins, defaults in creation order *)
let cur_b = ref 0
let cur_dfl : bv list ref = ref []

let rec p_sels n r = if n = 0 then ([], r) else
  let (s, r) = p_sel r in let (ss, r) = p_sels (n - 1) r in (s :: ss, r)

(* lines: token lists.  returns (stmts, remaining lines) and stops before ELIF / ELSE / END / V *)
let rec p_block lines =
  match lines with
  | [] -> ([], [])
  | ("ELIF" :: _) :: _ | ("ELSP" :: _) :: _ | ["ELSE"] :: _ | ["END"] :: _ | ("V" :: _) :: _ -> ([], lines)
  | l :: rest ->
      let (s, rest) = p_stmt l rest in
      let (ss, rest) = p_block rest in
      (s :: ss, rest)
and p_stmt l rest =
  match l with
  | "D" :: x :: kind :: _w :: r -> let (e, _) = p_expr r in (Decl (ni x, (kind = "b"), e), rest)
  | "DD" :: x :: kind :: _w :: k :: bits :: _ ->
      (* Bit x = BitDefault(d) / UInt x = UIntDefault(d): the default node's output is the extra input B + k *)
      let k = int_of_string k in
      if k <> List.length !cur_dfl then raise (Parse "DD numbering");
      cur_dfl := !cur_dfl @ [bv_of_string bits];
      (Decl (ni x, (kind = "b"), EIn (nat_of_int (!cur_b + k))), rest)
  | "A" :: x :: np :: r -> let (p, r) = p_sels (int_of_string np) r in let (e, _) = p_expr r in (Assign (ni x, p, e), rest)
  | "R" :: t :: x :: _ -> (Read (ni t, ni x), rest)
  | "IF" :: r ->
      let (c, _) = p_expr r in
      let (th, rest) = p_block rest in
      let (ch, rest) = p_chain rest in
      (If (c, block_of th, ch), rest)
  | t :: _ -> raise (Parse ("stmt " ^ t))
  | [] -> raise (Parse "empty stmt")
and p_chain lines =
  match lines with
  | ["END"] :: rest -> (CEnd, rest)
  | ["ELSE"] :: rest ->
      let (b, rest) = p_block rest in
      (match rest with ["END"] :: rest -> (CElse (block_of b), rest) | _ -> raise (Parse "ELSE without END"))
  | ("ELIF" :: r) :: rest ->
      let (c, _) = p_expr r in
      let (b, rest) = p_block rest in
      let (ch, rest) = p_chain rest in
      (CElseIf (c, block_of b, ch), rest)
  | ("ELSP" :: r) :: rest ->
      let (c, _) = p_expr r in
      let (b, rest) = p_block rest in
      let (ch, rest) = p_chain rest in
      (CElseSp (c, block_of b, ch), rest)
  | _ -> raise (Parse "chain")

let fmt_env e = String.concat ";" (List.map (fun (x, v) -> Printf.sprintf "%d=%s" (int_of_nat x) (string_of_bv v)) e)
let guard_str = function
  | None -> "1"
  | Some [b] -> String.make 1 (char_of_tbit b)
  | Some _ -> "?"

let count_nodes g =
  let h = Hashtbl.create 16 in
  let bump k = Hashtbl.replace h k (1 + (try Hashtbl.find h k with Not_found -> 0)) in
  List.iter (fun n -> bump (match n with
    | NIn _ -> "in" | NConst _ -> "const" | NSig _ -> "sig" | NNot _ -> "not" | NAnd _ -> "and" | NOr _ -> "or"
    | NXor _ -> "xor" | NAdd _ -> "add" | NEq _ -> "eq" | NExtract _ -> "extract" | NReplace _ -> "replace"
    | NMux (_, ins) -> if List.length ins = 2 then "mux2" else "muxN"
    | NCNot _ -> "cnot" | NCAnd _ -> "cand" | NCOr _ -> "cor")) g;
  String.concat "," (List.sort compare (Hashtbl.fold (fun k v acc -> Printf.sprintf "%s:%d" k v :: acc) h []))

let run_program pid npins body vecs =
  cur_b := npins; cur_dfl := [];
  let (stmts, rest) = p_block body in
  if rest <> [] then raise (Parse ("trailing lines in program " ^ pid));
  let p = block_of stmts in
  let st = elab_prog (S O) p in
  let dfl = !cur_dfl in
  let res = if dfl = [] then [] else resolve_all st.eG (fin_prog (nat_of_int npins) (S O) p) in
  Printf.printf "%s - MH nodes=%d %s\n" pid (List.length st.eG) (count_nodes st.eG);
  if dfl <> [] then
    Printf.printf "%s - MD %s\n" pid (String.concat "," (List.map (fun ((k, _), l) ->
      Printf.sprintf "%d:%s" (int_of_nat k) (if l then "loopy" else "final")) res));
  List.iteri (fun k vec ->
    let pins = List.map bv_of_string vec in
    let inp = if dfl = [] then pins else pins @ resolved_rho pins dfl st.eG res in
    (match run_prog inp p with
     | None -> Printf.printf "%s %d MS UNDEF\n" pid k
     | Some (e, r) ->
         Printf.printf "%s %d MS F %s R %s\n" pid k (fmt_env e)
           (String.concat ";" (List.map (fun (t, v) -> Printf.sprintf "%d:1:%s" (int_of_nat t) (string_of_bv v)) r)));
    let vs = eval_all inp st.eG in
    let e = sig_values vs st.eSigs in
    (* number of multiplexers whose selector is not fully defined under this valuation (the
       reference simulator is not monotone there; the check uses it to scope the raw [= post test) *)
    let q = List.fold_left (fun acc n -> match n with
      | NMux (sel, _) -> if List.for_all (fun b -> b <> BX) (getv vs sel) then acc else acc + 1
      | _ -> acc) 0 st.eG in
    Printf.printf "%s %d MQ %d\n" pid k q;
    Printf.printf "%s %d ME F %s R %s\n" pid k (fmt_env e)
      (String.concat ";" (List.map (fun r ->
         Printf.sprintf "%d:%s:%s" (int_of_nat r.rd_tmp)
           (guard_str (match r.rd_guard with None -> None | Some g -> Some (getv vs g)))
           (string_of_bv (getv vs r.rd_node))) st.eReads))) vecs

let () =
  let ic = open_in Sys.argv.(1) in
  let lines = ref [] in
  (try while true do lines := input_line ic :: !lines done with End_of_file -> ());
  close_in ic;
  let lines = List.filter (fun l -> l <> []) (List.map toks (List.rev !lines)) in
  (* split into programs:  P <id> / pin lines / body / V n / I ... / E *)
  let rec progs = function
    | [] -> ()
    | ("P" :: pid :: _) :: rest ->
        let rec skip_pins n = function ("pin" :: _) :: r -> skip_pins (n + 1) r | r -> (n, r) in
        let (npins, rest) = skip_pins 0 rest in
        let rec take_body acc = function
          | ("V" :: _) :: r -> (List.rev acc, r)
          | l :: r -> take_body (l :: acc) r
          | [] -> raise (Parse "no V") in
        let (body, rest) = take_body [] rest in
        let rec take_vecs acc = function
          | ("I" :: v) :: r -> take_vecs (v :: acc) r
          | ["E"] :: r -> (List.rev acc, r)
          | _ -> raise (Parse "vecs") in
        let (vecs, rest) = take_vecs [] rest in
        (try run_program pid npins body vecs
         with Parse m -> Printf.printf "%s - MODEL-PARSE-ERROR %s\n" pid m);
        progs rest
    | l :: _ -> raise (Parse ("top: " ^ String.concat " " l))
  in
  progs lines
