(* C09 driver around the extracted model (C09_model).

   replay <nodeio-file> <out-file>
       T1: replays the `op` lines written by harness/C09_wf.cpp (mode nodeio) on the extracted model
       (C09_model.step from C09_model.empty_graph) and prints the model's state after every operation in
       exactly the format of the harness; python diffs the two files.  An operation the model refuses
       (op_pre = false) is printed with the suffix " !throw" (the harness prints that suffix when the
       C++ call threw).  After every operation the extracted checker inv_check is run on the model
       state; "MODEL-INV-FALSE" is printed if it ever fails (it cannot, by run_preserves_Inv).
       Lines starting with '#' at the end are statistics.

   check <wf-file> ...      |   batch <file-with-one-wf-file-per-line>
       T2: imports every `dump` block and runs the extracted wfd_check (wf_check + clause (vii)).
       WF <design.variant> <boundary> <what> nodes=<n> ok | FAIL <failed components> *)
open C09_model

let rec nat_of_int i = if i <= 0 then O else S (nat_of_int (i - 1))
let rec int_of_nat = function O -> 0 | S k -> 1 + int_of_nat k
let rec pos_of_int i = if i <= 1 then XH else if i land 1 = 0 then XO (pos_of_int (i lsr 1)) else XI (pos_of_int (i lsr 1))
let n_of_int i = if i <= 0 then N0 else Npos (pos_of_int i)
let rec int_of_pos = function XH -> 1 | XO p -> 2 * int_of_pos p | XI p -> 2 * int_of_pos p + 1
let int_of_n = function N0 -> 0 | Npos p -> int_of_pos p

let dangling = 4000000000000000000      (* id of anything the harness printed as X *)

let split c s = String.split_on_char c s
let words s = List.filter (fun w -> w <> "") (split ' ' s)
let field l key =
  let pre = key ^ "=" in
  let pl = String.length pre in
  let rec go = function
    | [] -> failwith ("missing field " ^ key)
    | t :: r -> if String.length t >= pl && String.sub t 0 pl = pre then String.sub t pl (String.length t - pl) else go r
  in go l
let field_opt l key = try Some (field l key) with Failure _ -> None
let list_field c s = if s = "" then [] else split c s

let id_of s = if s = "X" then n_of_int dangling else n_of_int (int_of_string s)
let oid_of s = if s = "-" then None else Some (id_of s)
let port_of s : nport =
  if s = "X" then (n_of_int dangling, O)
  else match split '.' s with
    | [a; b] -> (n_of_int (int_of_string a), nat_of_int (int_of_string b))
    | _ -> failwith ("bad port " ^ s)
let oport_of s = if s = "-" then None else Some (port_of s)

let str_port ((n, p) : nport) = Printf.sprintf "%d.%d" (int_of_n n) (int_of_nat p)
let str_oport = function None -> "-" | Some p -> str_port p
let str_oid = function None -> "-" | Some n -> string_of_int (int_of_n n)

(* ---------------------------------------------------------------------------------------- *)
(* printing a model graph in the harness' format                                             *)
(* ---------------------------------------------------------------------------------------- *)
let print_graph oc (g : graph) =
  let nodes = List.sort (fun (a, _) (b, _) -> compare (int_of_n a) (int_of_n b)) g.g_nodes in
  List.iter (fun (id, nd) ->
    Printf.fprintf oc "n %d k=%s g=%s r=%d t=%d i=%s o=%s c=%s\n" (int_of_n id) (if nd.n_req = [] then "other" else "fwd") (str_oid nd.n_grp)
      (if int_of_n nd.n_ref > 0 then 1 else 0) (int_of_n nd.n_role)
      (String.concat "," (List.map str_oport nd.n_ins))
      (String.concat ";" (List.map (fun o ->
         Printf.sprintf "%d.%d:%s" (int_of_n o.o_type.ct_kind) (int_of_n o.o_type.ct_width)
           (String.concat "," (List.map str_port o.o_cons))) nd.n_outs))
      (String.concat "," (List.map str_oid nd.n_clks))) nodes;
  let groups = List.sort (fun (a, _) (b, _) -> compare (int_of_n a) (int_of_n b)) g.g_groups in
  List.iter (fun (id, gr) ->
    Printf.fprintf oc "G %d p=%s m=%s\n" (int_of_n id) (str_oid gr.gr_parent)
      (String.concat "," (List.map (fun n -> string_of_int (int_of_n n)) gr.gr_nodes))) groups;
  let clocks = List.sort (fun (a, _) (b, _) -> compare (int_of_n a) (int_of_n b)) g.g_clocks in
  List.iter (fun (id, l) ->
    let l = List.sort compare (List.map (fun (n, p) -> (int_of_n n, int_of_nat p)) l) in   (* a set: canonical order *)
    Printf.fprintf oc "K %d d=%s,%s m=%s\n" (int_of_n id) (str_oid (clkdrv g id)) (str_oid (rstdrv g id))
      (String.concat "," (List.map (fun (n, p) -> Printf.sprintf "%d.%d" n p) l))) clocks

let kind_of_tag (t : string) : kind =
  let name, arg = match String.index_opt t ':' with
    | Some k -> String.sub t 0 k, String.sub t (k + 1) (String.length t - k - 1)
    | None -> t, "" in
  match name with
  | "fwd" -> KForward | "logic1" -> KLogic1 | "logic2" -> KLogic2
  | "mux" -> KMux (nat_of_int (int_of_string arg))
  | "reg" -> KReg | "cmp" -> KCompare
  | "arith" -> KArith (nat_of_int (int_of_string arg))
  | "shift" -> KShift
  | "prio" -> KPrio (nat_of_int (int_of_string arg))
  | "pinout" -> KPinOut (n_of_int (int_of_string arg))
  | "rewire" ->
      KRewire (List.map (fun s -> match split '.' s with
        | [a; b] -> (nat_of_int (int_of_string a), n_of_int (int_of_string b))
        | _ -> failwith "bad rewire range") (list_field ',' arg))
  | "memport" -> (match split '.' arg with
      | [a; b] -> KMemPort (n_of_int (int_of_string a), n_of_int (int_of_string b))
      | _ -> failwith "bad memport")
  | "memory" -> KMemory (n_of_int (int_of_string arg))
  | _ -> KOther

let parse_out s : outport =
  match String.index_opt s ':' with
  | None -> failwith ("bad out " ^ s)
  | Some k ->
      let ty = String.sub s 0 k and cs = String.sub s (k + 1) (String.length s - k - 1) in
      let kd, wd = match split '.' ty with [a; b] -> int_of_string a, int_of_string b | _ -> failwith "bad type" in
      { o_type = { ct_kind = n_of_int kd; ct_width = n_of_int wd }; o_cons = List.map port_of (list_field ',' cs) }

type acc = { mutable nodes : (n * node) list; mutable groups : (n * group) list; mutable clocks : (n * nport list) list;
             mutable drvs : (n * (n option * n option)) list; mutable kinds : (int * string) list }

let finish (a : acc) : graph =
  let mx l = List.fold_left (fun m (k, _) -> let v = int_of_n k in if v >= dangling then m else max m (v + 1)) 0 l in
  { g_nodes = List.rev a.nodes; g_groups = List.rev a.groups; g_clocks = List.rev a.clocks; g_drv = List.rev a.drvs;
    g_next = n_of_int (mx a.nodes); g_gnext = n_of_int (mx a.groups); g_cnext = n_of_int (mx a.clocks) }


(* one dump line (n / G / K) into the accumulator *)
let parse_dump_line (a : acc) (w : string list) : unit =
  match w with
  | "n" :: id :: rest ->
      let k = match field_opt rest "k" with Some k -> k | None -> "other" in
      let nd = { n_ins = List.map oport_of (list_field ',' (field rest "i"));
                 n_outs = List.map parse_out (list_field ';' (field rest "o"));
                 n_grp = oid_of (field rest "g");
                 n_clks = List.map oid_of (list_field ',' (field rest "c"));
                 n_ref = n_of_int (int_of_string (field rest "r"));
                 n_req = kind_req (kind_of_tag k);
                 n_role = n_of_int (match field_opt rest "t" with Some t -> int_of_string t | None -> 0) } in
      a.kinds <- (int_of_string id, k) :: a.kinds;
      a.nodes <- (id_of id, nd) :: a.nodes
  | "G" :: id :: rest ->
      a.groups <- (id_of id, { gr_parent = oid_of (field rest "p"); gr_nodes = List.map id_of (list_field ',' (field rest "m")) }) :: a.groups
  | "K" :: id :: rest ->
      a.clocks <- (id_of id, List.map port_of (list_field ',' (field rest "m"))) :: a.clocks;
      let d = match field_opt rest "d" with
        | Some d -> (match split ',' d with [x; y] -> (oid_of x, oid_of y) | _ -> failwith "bad d=")
        | None -> (None, None) in
      a.drvs <- (id_of id, d) :: a.drvs
  | _ -> ()

(* ---------------------------------------------------------------------------------------- *)
(* T1                                                                                        *)
(* ---------------------------------------------------------------------------------------- *)
let req_of_tag = function
  | "s" -> kind_req KForward
  | _ -> []

let parse_op (w : string list) : op =
  let i s = int_of_string s in
  match w with
  | ["create"; ni; no; nc; tag; grp] -> OCreate (nat_of_int (i ni), nat_of_int (i no), nat_of_int (i nc), req_of_tag tag, oid_of grp)
  | ["addgroup"; p] -> OAddGroup (id_of p)
  | ["createclock"] -> OCreateClock
  | ["connect"; n; k; src] | ["connectp"; n; k; src] -> OConnect ((id_of n, nat_of_int (i k)), oport_of src)
  | ["disconnect"; n; k] -> ODisconnect (id_of n, nat_of_int (i k))
  | ["sigconnect"; n; src] -> OSignalConnect (id_of n, oport_of src)
  | ["settype"; n; o; k; wd] -> OSetType ((id_of n, nat_of_int (i o)), { ct_kind = n_of_int (i k); ct_width = n_of_int (i wd) })
  | ["resizein"; n; k] -> OResizeIn (id_of n, nat_of_int (i k))
  | ["resizeout"; n; k] -> OResizeOut (id_of n, nat_of_int (i k))
  | ["bypass"; n; o; k] -> OBypass (id_of n, nat_of_int (i o), nat_of_int (i k))
  | ["move"; n; g] -> OMoveToGroup (id_of n, oid_of g)
  | ["addclock"; n; c] -> OAddClock (id_of n, oid_of c)
  | ["attach"; n; cp; c] -> OAttachClock ((id_of n, nat_of_int (i cp)), oid_of c)
  | ["setclock"; n; c] -> OAttachClock ((id_of n, O), oid_of c)
  | ["detach"; n; cp] -> ODetachClock (id_of n, nat_of_int (i cp))
  | ["addref"; n] -> OAddRef (id_of n)
  | ["removeref"; n] -> ORemoveRef (id_of n)
  | ["destroy"; n] -> ODestroy (id_of n)
  | ["createdrv"; w; grp] -> OCreateDriver (w = "c", oid_of grp)
  | ["setdrv"; w; c; n] -> OSetDriver (w = "c", id_of c, id_of n)
  | _ -> failwith ("bad op: " ^ String.concat " " w)

let replay infile outfile =
  let ic = open_in infile and oc = open_out outfile in
  let g = ref empty_graph in
  let hist = Hashtbl.create 32 in
  let bump k = Hashtbl.replace hist k (1 + (try Hashtbl.find hist k with Not_found -> 0)) in
  let skipping = ref false in
  (try
    while true do
      let line = input_line ic in
      let w = words line in
      match w with
      | "seq" :: _ -> g := empty_graph; skipping := false; output_string oc (line ^ "\n")
      | "endseq" :: _ -> skipping := false; output_string oc (line ^ "\n")
      | "op" :: "copysubnet" :: _ ->
          (* Circuit::copySubnet renumbers the clones; the model does not follow it.  The REAL state after the call is
             imported, must satisfy the verified checker, and becomes the model state (reference counts of the nodes
             that existed before are kept, the node id counter advances by two per clone as in the C++). *)
          let rest = List.filter (fun t -> t <> "!throw") (List.tl w) in
          let thrown = List.mem "!throw" w in
          let a = { nodes = []; groups = []; clocks = []; drvs = []; kinds = [] } in
          let buf = Buffer.create 1024 in
          (try
            let fin = ref false in
            while not !fin do
              let l = input_line ic in
              if l = "end" then fin := true else (Buffer.add_string buf l; Buffer.add_char buf '\n'; parse_dump_line a (words l))
            done
          with End_of_file -> ());
          let imp = finish a in
          let old = !g in
          let fresh = List.filter (fun (id, _) -> not (List.mem_assoc id old.g_nodes)) imp.g_nodes in
          let k = List.length fresh in
          let nodes = List.map (fun (id, nd) -> match List.assoc_opt id old.g_nodes with
                                | Some o -> (id, { nd with n_ref = o.n_ref }) | None -> (id, { nd with n_ref = N0 })) imp.g_nodes in
          let next = n_of_int (int_of_n old.g_next + 2 * k) in
          let g' = { imp with g_nodes = nodes; g_next = (if thrown then old.g_next else next); g_gnext = old.g_gnext } in
          bump "copysubnet"; if thrown then bump "refused:copysubnet";
          Printf.fprintf oc "op %s%s\n" (String.concat " " rest) (if thrown then " !throw" else "");
          Buffer.output_buffer oc buf;
          if not (invd_check g') then (output_string oc "IMPORTED-STATE-INV-FALSE\n"; bump "import-inv-false");
          output_string oc "end\n";
          g := g'
      | "op" :: "clone" :: n :: _ ->
          (* Circuit::createUnconnectedClone, replayed with proven operations: createNode with the shape of the original
             (or the driver-node constructor), its output types one by one (copyBaseToClone), root group *)
          let id = id_of n in
          let ok = ref true in
          let stepc o = (if not (op_pre !g o) then ok := false); g := step !g o in
          (match List.assoc_opt id (!g).g_nodes with
           | None -> ok := false
           | Some nd ->
               let nw = (!g).g_next in
               let role = int_of_n nd.n_role in
               if role = 0 then
                 stepc (OCreate (nat_of_int (List.length nd.n_ins), nat_of_int (List.length nd.n_outs), nat_of_int (List.length nd.n_clks), nd.n_req, Some N0))
               else stepc (OCreateDriver (role = 1, Some N0));
               List.iteri (fun i o -> stepc (OSetType ((nw, nat_of_int i), o.o_type))) nd.n_outs);
          bump "clone"; if not !ok then bump "refused:clone";
          Printf.fprintf oc "op clone %s%s\n" n (if !ok then "" else " !throw");
          print_graph oc !g;
          if not (invd_check !g) then (output_string oc "MODEL-INV-FALSE\n"; bump "model-inv-false");
          output_string oc "end\n";
          skipping := true
      | "op" :: rest ->
          let rest = List.filter (fun t -> t <> "!throw") rest in
          let o = parse_op rest in
          let ok = op_pre !g o in
          g := step !g o;
          bump (List.hd rest); if not ok then bump ("refused:" ^ List.hd rest);
          Printf.fprintf oc "op %s%s\n" (String.concat " " rest) (if ok then "" else " !throw");
          print_graph oc !g;
          if not (invd_check !g) then (output_string oc "MODEL-INV-FALSE\n"; bump "model-inv-false");
          output_string oc "end\n";
          skipping := true
      | "end" :: _ -> skipping := false
      | _ -> if not !skipping then output_string oc (line ^ "\n")
    done
  with End_of_file -> ());
  Hashtbl.iter (fun k v -> Printf.fprintf oc "# %s %d\n" k v) hist;
  close_out oc; close_in ic

(* ---------------------------------------------------------------------------------------- *)
(* T2                                                                                        *)
(* ---------------------------------------------------------------------------------------- *)
let diagnose (g : graph) (a : acc) : string =
  let parts = [ "ids", ids_check g; "edges-fwd", edges_fwd_check g; "edges-bwd", edges_bwd_check g;
                "groups-fwd", groups_fwd_check g; "groups-bwd", groups_bwd_check g; "parents", parents_check g;
                "clocks-fwd", clocks_fwd_check g; "clocks-bwd", clocks_bwd_check g; "types", types_check g;
                "grouped", grouped_check g; "drivers-fwd", drivers_fwd_check g; "drivers-bwd", drivers_bwd_check g;
                "drivers-keys", keys_eqb (List.map fst g.g_drv) (List.map fst g.g_clocks) ] in
  let failed = List.filter (fun (_, b) -> not b) parts in
  let s = String.concat "," (List.map fst failed) in
  if List.mem_assoc "types" failed then
    let bad = List.filter (fun (_, nd) -> not (node_okb g nd)) g.g_nodes in
    s ^ " types-at=" ^ String.concat "," (List.map (fun (id, _) ->
        let i = int_of_n id in Printf.sprintf "%d(%s)" i (try List.assoc i a.kinds with Not_found -> "?")) bad)
  else s

let stats = Hashtbl.create 16
let bump k = Hashtbl.replace stats k (1 + (try Hashtbl.find stats k with Not_found -> 0))

let check_file file =
  let ic = open_in file in
  let cur = ref None in
  let tag = ref "" in
  (try
    while true do
      let line = input_line ic in
      let w = words line in
      match w with
      | "dump" :: rest -> tag := String.concat " " rest; cur := Some { nodes = []; groups = []; clocks = []; drvs = []; kinds = [] }
      | "SKIP" :: _ -> Printf.printf "SKIPPED %s\n" line
      | ("n" | "G" | "K") :: _ ->
          (match !cur with None -> () | Some a ->
            (match w with "n" :: _ :: rest ->
               let k = match field_opt rest "k" with Some k -> k | None -> "other" in
               bump ("kind:" ^ (match String.index_opt k ':' with Some j -> String.sub k 0 j | None -> k))
             | _ -> ());
            parse_dump_line a w)
      | "end" :: _ ->
          (match !cur with None -> () | Some a ->
            let g = finish a in
            let ok = wfd_check g in
            bump "dumps";
            Printf.printf "WF %s nodes=%d %s\n" !tag (List.length g.g_nodes) (if ok then "ok" else "FAIL " ^ diagnose g a);
            cur := None)
      | _ -> ()
    done
  with End_of_file -> ());
  close_in ic

let () =
  match Array.to_list Sys.argv with
  | _ :: "replay" :: i :: o :: _ -> replay i o
  | _ :: "check" :: files -> List.iter check_file files; Hashtbl.iter (fun k v -> Printf.printf "# %s %d\n" k v) stats
  | _ :: "batch" :: f :: _ ->
      let ic = open_in f in
      (try while true do
          let l = String.trim (input_line ic) in
          if l <> "" then (try check_file l with e -> Printf.printf "ERROR %s %s\n" l (Printexc.to_string e))
        done with End_of_file -> ());
      close_in ic;
      Hashtbl.iter (fun k v -> Printf.printf "# %s %d\n" k v) stats
  | _ -> prerr_endline "usage: driver replay <in> <out> | check <wf>... | batch <list>"; exit 2
