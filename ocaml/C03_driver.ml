(* Driver around the extracted node-level model (coq/extract/Extract_C03.v).
   usage: driver <casefile> <outfile>
   Reads the same case file as harness/C03_node.cpp (format documented there) and prints the
   same canonical result line per case. *)
open C03_model

let rec nat_of_int n = if n <= 0 then O else S (nat_of_int (n - 1))

let split_on c s = List.filter (fun t -> t <> "") (String.split_on_char c s)

(* operand token -> bv option ; MSB-first chars 0 1 X x *)
let bv_of_string (s : string) : bv =
  let n = String.length s in
  let rec go i acc = if i >= n then acc else
      let b = match s.[i] with '0' -> B0 | '1' -> B1 | 'X' | 'x' -> BX | c -> failwith (Printf.sprintf "bad bit %c" c) in
      go (i + 1) (b :: acc) in
  go 0 []     (* char 0 is the MSB, so consing while walking left to right leaves the LSB first *)

let operand (t : string) : bv option =
  if t = "-" then None
  else if String.length t >= 1 && t.[0] = 'b' then Some (bv_of_string (String.sub t 1 (String.length t - 1)))
  else failwith ("bad operand " ^ t)

let string_of_bv (x : bv) : string =
  let b = Buffer.create 64 in
  List.iter (fun t -> Buffer.add_char b (match t with B0 -> '0' | B1 -> '1' | BX -> 'X')) (List.rev x);
  "b" ^ Buffer.contents b

let logic_op = function
  | "AND" -> L_AND | "NAND" -> L_NAND | "OR" -> L_OR | "NOR" -> L_NOR | "XOR" -> L_XOR | "EQ" -> L_EQ | "NOT" -> L_NOT
  | s -> failwith ("bad logic op " ^ s)
let arith_op = function
  | "ADD" -> A_ADD | "SUB" -> A_SUB | "MUL" -> A_MUL | "DIV" -> A_DIV | "REM" -> A_REM
  | s -> failwith ("bad arith op " ^ s)
let cmp_op = function
  | "EQ" -> C_EQ | "NEQ" -> C_NEQ | "LT" -> C_LT | "GT" -> C_GT | "LEQ" -> C_LEQ | "GEQ" -> C_GEQ
  | s -> failwith ("bad cmp op " ^ s)
let fwd_kind = function
  | "SIGNAL" -> FW_SIGNAL | "ATTR" -> FW_ATTRIBUTES | "CDC" -> FW_CDC | "REGHINT" -> FW_REGHINT
  | "BLOCKER" -> FW_RETIMING_BLOCKER | "EXPORT" -> FW_EXPORT_OVERRIDE
  | s -> failwith ("bad fwd kind " ^ s)

let range (t : string) : rw_range =
  match String.split_on_char ':' t with
  | ["I"; idx; off; w] -> { rw_width = nat_of_int (int_of_string w); rw_src = RW_INPUT (nat_of_int (int_of_string idx), nat_of_int (int_of_string off)) }
  | ["Z"; w] -> { rw_width = nat_of_int (int_of_string w); rw_src = RW_ZERO }
  | ["O"; w] -> { rw_width = nat_of_int (int_of_string w); rw_src = RW_ONE }
  | ["U"; w] -> { rw_width = nat_of_int (int_of_string w); rw_src = RW_UNDEF }
  | _ -> failwith ("bad range " ^ t)

let ni s = nat_of_int (int_of_string s)

let kind_of (head : string list) : node_kind =
  match head with
  | ["logic"; op; w] -> KLogic (logic_op op, ni w)
  | ["arith"; op; w] -> KArith (arith_op op, ni w)
  | ["cmp"; op] -> KCompare (cmp_op op)
  | ["shift"; d; f; w] ->
    KShift ((match d with "L" -> SH_LEFT | "R" -> SH_RIGHT | _ -> failwith "bad dir"),
            (match f with "Z" -> F_ZERO | "O" -> F_ONE | "L" -> F_LAST | "R" -> F_ROTATE | _ -> failwith "bad fill"), ni w)
  | "rewire" :: ranges -> KRewire (List.map range ranges)
  | ["mux"; n; w] -> KMux (ni n, ni w)
  | ["prio"; n; w] -> KPrio (ni n, ni w)
  | ["const"; v] -> (match operand v with Some x -> KConst x | None -> failwith "bad const")
  | ["fwd"; f; w] -> KForward (fwd_kind f, ni w)
  | _ -> failwith ("bad kind " ^ String.concat " " head)

let reg_state_str (s : reg_state) : string =
  Printf.sprintf "%s,%s,%s,%s" (string_of_bv s.rs_int_data) (string_of_bv [s.rs_int_enable])
    (if s.rs_in_reset then "1" else "0") (string_of_bv s.rs_out)

let run_reg (head : string list) (ops : string list) : string =
  match head with
  | ["reg"; w; rst; ty; act] ->
    let cfg = { rc_width = ni w; rc_reset_value = operand rst;
                rc_reset_type = (match ty with "S" -> RST_SYNC | "A" -> RST_ASYNC | _ -> failwith "bad reset type");
                rc_reset_active_high = (act = "H") } in
    let st = ref (reg_init cfg) in
    let outs = List.map (fun op ->
        (match String.split_on_char ':' op with
         | ["P"] -> st := reg_poweron cfg !st
         | ["A"] -> st := reg_advance cfg !st
         | ["R"; h] -> st := reg_reset cfg (h = "1") !st
         | ["E"; d; e] -> st := reg_latch cfg (operand d) (operand e) !st
         | _ -> failwith ("bad reg op " ^ op));
        reg_state_str !st) ops in
    String.concat " " outs
  | _ -> failwith "bad reg head"

let () =
  let ic = open_in Sys.argv.(1) and oc = open_out Sys.argv.(2) in
  let idx = ref 0 in
  (try
     while true do
       let line = input_line ic in
       if line <> "" && line.[0] <> '#' then begin
         let res =
           try
             let bar = String.index line '|' in
             let head = split_on ' ' (String.sub line 0 bar) in
             let ops = split_on ' ' (String.sub line (bar + 1) (String.length line - bar - 1)) in
             if List.hd head = "reg" then run_reg head ops
             else
               let k = kind_of head in
               let outs = eval k (List.map operand ops) in
               String.concat " " (List.map string_of_bv outs)
           with Failure m -> "EXC " ^ m | Not_found -> "EXC no bar" in
         Printf.fprintf oc "%d %s\n" !idx res;
         incr idx
       end
     done
   with End_of_file -> ());
  close_out oc
