(* C07 driver: evaluates the extracted memory-port model (MemDefs.v) on the log written by
   harness/C07_mem.cpp.

   For every case (header line `M <params> | L=.. abits=.. init=..`):
     pp=0  the un-postprocessed circuit: the extracted simulator model [port_step]/[mem_commit] is run
           cycle by cycle on the logged pin values (4-state, undefined bits included), the read data
           goes through L registers ([pipe_out]/[pipe_step]); printed exactly.
     pp=1  the post-processed circuit: the extracted tolerant array specification [tspec_step] is run
           on the (defined) stimulus; read data delayed by the declared latency L; an X bit in the
           printed word means "the specification allows anything here".
   Output: `M <id> <mode>` then one line `c <w0> <w1> ..` per logged `c` line (MSB first; `?` = not
   determined: pipeline still holds pre-history), `E <id>` / `X <id>` copied.
   The write data of a port declared `:r<k>+` / `:r<k>^` is computed here from the model's own read
   result of port k in the same cycle (Node_Arithmetic ADD: any undefined operand bit makes the sum
   undefined; Node_Logic XOR: bitwise).
   usage: driver <harness-log> <out> *)
open C07_model

let rec nat_of_int n = if n <= 0 then O else S (nat_of_int (n - 1))
let rec pos_of_int n = if n = 1 then XH else if n land 1 = 0 then XO (pos_of_int (n lsr 1)) else XI (pos_of_int (n lsr 1))
let n_of_int n = if n = 0 then N0 else Npos (pos_of_int n)
let rec int_of_pos = function XH -> 1 | XO p -> 2 * int_of_pos p | XI p -> 2 * int_of_pos p + 1
let int_of_n = function N0 -> 0 | Npos p -> int_of_pos p

(* MSB-first string <-> LSB-first tbit list *)
let bv_of_string s =
  let r = ref [] in
  String.iter (fun ch -> r := (match ch with '0' -> B0 | '1' -> B1 | _ -> BX) :: !r) s; !r
let string_of_bv v =
  let l = List.rev_map (function B0 -> '0' | B1 -> '1' | BX -> 'X') v in
  String.init (List.length l) (fun i -> List.nth l i)
let tbit_of_string s = match s with "0" -> B0 | "1" -> B1 | _ -> BX
let is_defined v = List.for_all (fun b -> b <> BX) v
let int_of_bv v = List.fold_right (fun b acc -> 2 * acc + (if b = B1 then 1 else 0)) v 0

let add_words w a b =
  if is_defined a && is_defined b then bv_of_N (nat_of_int w) (n_of_int ((int_of_bv a + int_of_bv b) land ((1 lsl w) - 1)))
  else all_X (nat_of_int w)
let xor_words a b =
  List.map2 (fun x y -> match x, y with BX, _ | _, BX -> BX | _ -> if x = y then B0 else B1) a b

type pdesc = { kind : char; apin : int; src : int; op : char;
               cmode : char; csrc : int; crel : char; cdata : bool; cconst : int }  (* data dependent write enable *)

let parse_ports s =
  List.filter_map (fun tok ->
      if tok = "" then None else begin
        let kind = tok.[0] in
        let rest = String.sub tok 1 (String.length tok - 1) in
        let fields = String.split_on_char ':' rest in
        let a = int_of_string (List.nth fields 0) in
        let (src, op) = match fields with
          | _ :: sr :: _ when String.length sr > 0 && sr.[0] = 'r' ->
            (int_of_string (String.sub sr 1 (String.length sr - 2)), sr.[String.length sr - 1])
          | _ -> (-1, 'p') in
        let (cmode, csrc, crel, cdata, cconst) = match fields with
          | _ :: _ :: c :: _ when String.length c >= 4 ->
            let isd = c.[3] = 'd' in
            (c.[0], Char.code c.[1] - Char.code '0', c.[2], isd, if isd then 0 else int_of_string (String.sub c 3 (String.length c - 3)))
          | _ -> ('-', 0, 'l', false, 0) in
        Some { kind; apin = a; src; op; cmode; csrc; crel; cdata; cconst }
      end) (String.split_on_char ',' s)

(* Node_Logic AND / OR on 4-state bits (a defined 0 resp. 1 dominates) *)
let and3 a b = match a, b with B0, _ | _, B0 -> B0 | B1, B1 -> B1 | _ -> BX
let or3 a b = match a, b with B1, _ | _, B1 -> B1 | B0, B0 -> B0 | _ -> BX
(* a port that writes (or may write) in the idle cycles while the design is in reset; even a read-modify-write of the
   idle operand (elem + 0) is not neutral there: a reset-initialised memory is still undefined when the reset begins *)
let writes_in_reset p = p.kind = 'A' || p.cmode = 'o' || p.cmode = 'r' 

let kvs toks = List.filter_map (fun t -> match String.index_opt t '=' with
    | Some i -> Some (String.sub t 0 i, String.sub t (i + 1) (String.length t - i - 1)) | None -> None) toks

(* split the tokens of a p/c line into groups *)
let groups toks =
  let a = ref [] and g = ref [] and w = ref [] and mode = ref ' ' in
  List.iter (fun t -> match t with
      | "A" | "G" | "W" | "O" | "P" -> mode := t.[0]
      | _ -> (match !mode with 'A' -> a := t :: !a | 'G' -> g := t :: !g | 'W' -> w := t :: !w | _ -> ())) toks;
  (List.rev !a, List.rev !g, List.rev !w)

type case = {
  id : string; pp : bool; ports : pdesc list; width : int; depth : int; lat : int; abits : int; nc : bool; exact : bool;
  mutable mem : bv list;            (* model (pp=0) *)
  mutable arr : n -> bv;            (* spec (pp=1) *)
  mutable pipes : (bv list * bool list) list;  (* per read port: L register contents (extracted pipe), and which of them are known *)
}

let () =
  let ic = open_in Sys.argv.(1) and oc = open_out Sys.argv.(2) in
  let cur : case option ref = ref None in
  (try
     while true do
       let line = input_line ic in
       let toks = List.filter (fun s -> s <> "") (String.split_on_char ' ' line) in
       match toks with
       | "M" :: rest ->
         let kv = kvs rest in
         let get k d = try List.assoc k kv with Not_found -> d in
         let id = get "id" "?" in
         if get "L" "?" = "?" then (cur := None; Printf.fprintf oc "M %s skipped\n" id)
         else begin
           let pp = get "pp" "0" = "1" in
           let width = int_of_string (get "width" "1") and depth = int_of_string (get "depth" "1") in
           let ports = parse_ports (get "ports" "") in
           let clk = get "clk" "PS" in
           let haswr = List.exists (fun p -> p.kind = 'W' || p.kind = 'A' || p.kind = 'V') ports in
           let initw = List.concat_map (fun tok ->
               match String.index_opt tok '*' with
               | Some i -> let n = int_of_string (String.sub tok 0 i) in
                 let wv = bv_of_string (String.sub tok (i + 1) (String.length tok - i - 1)) in List.init n (fun _ -> wv)
               | None -> [ bv_of_string tok ]) (String.split_on_char ',' (get "words" "")) in
           (* declared contents are present when the power-on state is honoured (initializeMemory, or a ROM) or, after
              post-processing, when the generated reset logic loads them (memoryResetType <> NONE, needs a write port);
              addResetLogic contents exist only through the reset logic *)
           let by_reset = pp && clk.[1] <> 'N' && haswr in
           let honoured = if get "init" "none" = "rlogic" then by_reset else (clk.[0] = 'P' || not haswr || by_reset) in
           let mem0 = if honoured then initw else List.map (fun _ -> all_X (nat_of_int width)) initw in
           let lat = int_of_string (get "L" "0") in
           let nreads = List.length (List.filter (fun p -> p.kind = 'R' || p.kind = 'E' || p.kind = 'N') ports) in
           let c = { id; pp; ports; width; depth; lat; abits = int_of_string (get "abits" "1");
                     nc = get "nc" "0" = "1"; exact = get "exact" "0" = "1";
                     mem = mem0; arr = arr_of (nat_of_int width) mem0;
                     pipes = List.init nreads (fun _ -> (List.init lat (fun _ -> all_X (nat_of_int width)), List.init lat (fun _ -> false))) } in
           cur := Some c;
           Printf.fprintf oc "M %s %s\n" id (if pp then "spec" else "model")
         end
       | (("p" | "c") as tag) :: rest ->
         (match !cur with
          | None -> ()
          | Some c ->
            let (addrs, gens, wr) = groups rest in
            let addrs = Array.of_list addrs and gens = Array.of_list gens and wr = Array.of_list wr in
            let w = nat_of_int c.width in
            let cfg = { c_width = w; c_abits = nat_of_int c.abits; c_ub = (if c.exact then UB_Exact else UB_Undefined); c_noconf = c.nc } in
            let reads = ref [] in  (* async read results of this cycle, in read-port order (reversed) *)
            let pens = ref [] in   (* per read port: enable of its read-latency registers in this cycle (reversed) *)
            let eval_once () =
            let gi = ref 0 and wi = ref 0 in
            reads := []; pens := [];
            let nth_read k = List.nth (List.rev !reads) k in
            let wdata p din =
              if p.src < 0 then din
              else (let r = nth_read p.src in if p.op = '+' then add_words c.width r din else xor_words r din) in
            (* Node_Compare: undefined as soon as any operand bit is undefined *)
            let cond p din =
              let r = nth_read p.csrc in
              let x = if p.cdata then din else bv_of_N (nat_of_int c.width) (n_of_int p.cconst) in
              if is_defined r && is_defined x then begin
                let a = int_of_bv r and b = int_of_bv x in
                if (match p.crel with 'l' -> a < b | 'e' -> a = b | _ -> a <> b) then B1 else B0
              end else BX in
            let enable p en1 din = match p.cmode with
              | 'o' -> cond p din | 'a' -> and3 en1 (cond p din) | 'r' -> or3 en1 (cond p din)
              | _ -> if p.kind = 'A' then B1 else en1 in
            if not c.pp then begin
              (* ---------------- exact model of the simulator *)
              let st = ref ps_init in
              List.iter (fun p ->
                  let addr = Some (bv_of_string addrs.(p.apin)) in
                  match p.kind with
                  | 'R' | 'E' | 'N' ->
                    if p.kind = 'N' then (pens := (gens.(!gi) = "1") :: !pens; incr gi) else pens := true :: !pens;
                    let en = if p.kind = 'E' then (let e = tbit_of_string gens.(!gi) in incr gi; Some e) else None in
                    let (rd, st') = port_step cfg c.mem !st { p_read = true; p_write = false }
                        { pi_addr = addr; pi_en = en; pi_wren = None; pi_wdata = None } in
                    st := st';
                    reads := (match rd with Some v -> v | None -> all_X w) :: !reads
                  | _ ->
                    let en1 = tbit_of_string wr.(!wi) and din = bv_of_string wr.(!wi + 1) in
                    wi := !wi + 2;
                    let en2 = if p.kind = 'V' then (let e = tbit_of_string wr.(!wi) in incr wi; Some e) else None in
                    let wren = if p.kind = 'A' && p.cmode = '-' then None else Some (enable p en1 din) in
                    let (_, st') = port_step cfg c.mem !st { p_read = false; p_write = true }
                        { pi_addr = addr; pi_en = en2; pi_wren = wren; pi_wdata = Some (wdata p din) } in
                    st := st') c.ports;
              c.mem <- List.fold_left (mem_commit cfg) c.mem !st.ps_all
            end else begin
              (* ---------------- tolerant array specification *)
              let depth = n_of_int c.depth in
              let start = c.arr in
              (* addresses of all enabled in-range writes of the cycle *)
              let cw = ref [] in
              let wj = ref 0 in
              List.iter (fun p -> match p.kind with
                  | 'R' | 'E' | 'N' -> ()
                  | _ ->
                    let en1 = wr.(!wj) in
                    wj := !wj + 2;
                    let en2 = if p.kind = 'V' then (let e = wr.(!wj) in incr wj; e) else "1" in
                    let a = int_of_bv (bv_of_string addrs.(p.apin)) in
                    let maybe = match p.cmode with 'o' | 'r' -> true | 'a' -> en1 = "1" | _ -> p.kind = 'A' || en1 = "1" in
                    if maybe && en2 = "1" && a < c.depth then cw := n_of_int a :: !cw) c.ports;
              List.iter (fun p ->
                  let a = n_of_int (int_of_bv (bv_of_string addrs.(p.apin))) in
                  match p.kind with
                  | 'R' | 'E' | 'N' ->
                    if p.kind = 'N' then (pens := (gens.(!gi) = "1") :: !pens; incr gi) else pens := true :: !pens;
                    let en = if p.kind = 'E' then (let e = gens.(!gi) in incr gi; e = "1") else true in
                    let (rd, f') = tspec_step w depth c.nc start !cw c.arr { p_read = true; p_write = false }
                        { ai_addr = a; ai_en = en; ai_wen = false; ai_wdata = [] } in
                    c.arr <- f';
                    reads := (match rd with Some v -> v | None -> all_X w) :: !reads
                  | _ ->
                    let en1 = wr.(!wi) and din = bv_of_string wr.(!wi + 1) in
                    wi := !wi + 2;
                    let en2 = if p.kind = 'V' then (let e = wr.(!wi) in incr wi; e = "1") else true in
                    (* an undefined enable (read data undefined): the word may or may not be written: open *)
                    let e3 = enable p (tbit_of_string en1) din in
                    let wen = e3 <> B0 in
                    let data = if e3 = BX then all_X w else wdata p din in
                    let (_, f') = tspec_step w depth c.nc start !cw c.arr { p_read = false; p_write = true }
                        { ai_addr = a; ai_en = en2; ai_wen = wen; ai_wdata = data } in
                    c.arr <- f') c.ports;
              (* while in reset an always-enabled port may or may not have written word 0 (reset logic
                 takes the port over): the specification leaves that word open *)
              if tag = "p" && List.exists writes_in_reset c.ports then
                c.arr <- arr_upd c.arr N0 (all_X w)
            end;
            in
            (* the harness logs ONE idle cycle while the design leaves reset, but several clock edges with these
               idle inputs have happened before: reach the (idempotent) fixed point first *)
            if tag = "p" then begin
              (if c.pp && List.exists writes_in_reset c.ports then c.arr <- arr_upd c.arr N0 (all_X w));
              eval_once ()
            end;
            eval_once ();
            (* registers behind the read ports *)
            let rds = List.rev !reads in
            let outs = List.map2 (fun (vals, known) rd ->
                if pipe_out known true then Some (pipe_out vals rd) else None) c.pipes rds in
            let ens = List.rev !pens in
            c.pipes <- List.map2 (fun ((vals, known), en) rd -> (pipe_step_en en vals rd, pipe_step_en en known true))
                (List.combine c.pipes ens) rds;
            if tag = "c" then begin
              output_string oc "c";
              List.iter (fun o -> output_string oc (" " ^ (match o with Some v -> string_of_bv v | None -> "?"))) outs;
              output_string oc "\n"
            end)
       | ("E" | "X") :: _ -> (match !cur with Some _ -> output_string oc (line ^ "\n") | None -> ())
       | _ -> ()
     done
   with End_of_file -> ());
  close_in ic; close_out oc
